"""
C05 -- LONG stress-range arrays (audit round 8: size-conditioned code paths).

Every stream of c05.py hands SNCurve.n arrays of at most ~12 stress ranges.  Here the clauses "scalar and array evaluation
agree", "strictly decreasing", "continuous", "thickness acts like multiplying the stress range", "fatigue strength is the
inverse" are evaluated on arrays of 999 ... 131073 stress ranges: every element against a capacity computed without qats
(rel 1e-9), the elements at the special positions (first / last, multiples of 1000 / 1024 / 4096 / 10000 / 65536 and their
neighbours) and a random sample against the scalar float evaluation (rel 1e-13), slices / permutations of the array against
the corresponding elements of the full result, with the transition stress (exact tie, +-1 ulp), duplicates and the extreme
values placed at those positions.  A failing input stores (n, seed, events, ...) only.
"""
import math

import numpy as np

SIZES_SMALL = (999, 1000, 1001, 1023, 1024, 1025, 4095, 4096, 4097, 9999, 10000, 10001)
SIZES_BIG = (65535, 65536, 65537, 70001, 131073)
BLOCKS = (1000, 1024, 4096, 10000, 65536)
MODEL_MAX = 4097
CONTS = ("ndarray", "ndarray", "list", "view", "rev", "2d", "ro", "i64", "f32")


def special_positions(rng, n):
    cand = {0, 1, n - 1, n - 2}
    for b in BLOCKS:
        if n >= b:
            for m in {rng.randint(1, n // b), n // b}:
                cand |= {m * b - 1, m * b, m * b + 1}
    return sorted(p for p in cand if 0 <= p < n)


def gen_long(rng, n, c=None, float_only=False):
    from .c05 import gen_curve, pub
    c = pub(c if c is not None else gen_curve(rng))
    t = None
    if c["t_ref"] is not None and rng.random() < 0.7:
        t = rng.choice([c["t_ref"], 0.5 * c["t_ref"], 2.0 * c["t_ref"], 100.0, c["t_ref"] * rng.uniform(1.0, 6.0)])
    pos = special_positions(rng, n)
    kinds = ["knee", "knee-", "knee+", "max", "min", "dup"]
    ev = {p: rng.choice(kinds) for p in rng.sample(pos, min(len(pos), rng.choice([3, 5, 8])))}
    bs = [b for b in BLOCKS if n > b]
    if bs:      # a pair spanning a multiple of a block size: knee just below | just above, or a duplicate
        b = rng.choice(bs)
        m = rng.randint(1, (n - 1) // b)
        ev[m * b - 1], ev[m * b] = rng.choice([("knee-", "knee+"), ("knee", "knee"), ("max", "min"), ("min", "dup")])
    if rng.random() < 0.5:
        ev[n - 1] = rng.choice(["knee", "max", "min"])
    if rng.random() < 0.3:
        ev[0] = rng.choice(["knee", "max", "min"])
    cont = rng.choice(CONTS[:7] if (float_only or n > 10001) else CONTS)
    return dict(kind="long", curve=c, n=n, seed=rng.randrange(2 ** 31), layout=rng.choice(["sorted", "random", "random"]) if cont not in ("i64", "f32") else "random",
                events=[[int(p), k] for p, k in sorted(ev.items())], t=t, cont=cont, call=rng.choice(["kw", "pos"]))


def long_values(inp):
    """the stress ranges as a float64 array, rebuilt from the compact description"""
    from .c05 import knee, tfac
    c, n, t = inp["curve"], inp["n"], inp.get("t")
    rs = np.random.RandomState(inp["seed"])
    sw = knee(c)
    k0 = (sw / tfac(c, t)) if sw is not None else 50.0
    integral = inp["cont"] in ("i64", "f32")
    if integral:
        s = rs.randint(1, 3000, n).astype(float)
        k0 = float(min(60000, max(1, round(k0))))
    elif inp["layout"] == "sorted":
        # strictly increasing, two decades around the transition stress (relative step >= 3.5e-5)
        s = k0 * 10 ** (np.linspace(-1.0, 1.0, n) + rs.uniform(-0.2, 0.2, n) / n)
    else:
        s = k0 * 10 ** rs.uniform(-1.0, 1.0, n)
    if inp["layout"] == "sorted" and not integral:
        # events must keep the order: the knee is moved INTO the array at the event position by rescaling the whole array
        for p, k in inp["events"]:
            if k in ("knee", "knee-", "knee+"):
                s = s * (k0 / s[p])
                s[p] = k0
                break
        return s
    for p, k in inp["events"]:
        if k == "knee":
            s[p] = k0
        elif k == "knee-":
            s[p] = k0 * (1 - 2.0 ** -52) if not integral else max(1.0, k0 - 1)
        elif k == "knee+":
            s[p] = k0 * (1 + 2.0 ** -52) if not integral else k0 + 1
        elif k == "max":
            s[p] = float(np.max(s)) * 2.0 if not integral else 60000.0
        elif k == "min":
            s[p] = float(np.min(s)) * 0.5 if not integral else 1.0
        elif k == "dup":
            s[p] = s[p - 1] if p else s[1]
    return s


def ref_capacity_vec(c, S):
    """N(S) for an array of effective stress ranges, from the curve parameters (nothing from qats)"""
    from .c05 import model_loga1, knee
    S = np.asarray(S, dtype=float)
    m1, la1 = float(c["m1"]), float(model_loga1(c))
    lg = np.log10(S)
    up = 10.0 ** (la1 - m1 * lg)
    if c["m2"] is None:
        return up
    m2, ln = float(c["m2"]), math.log10(c["nswitch"])
    lo = 10.0 ** (m2 / m1 * la1 + (1 - m2 / m1) * ln - m2 * lg)
    return np.where(S >= knee(c), up, lo)


def _container(s, kind):
    """(object handed to n, index array giving result order, shape)"""
    n = len(s)
    idx = np.arange(n)
    if kind == "list":
        return s.tolist(), idx, (n,)
    if kind == "view":
        big = np.full(2 * n + 1, 7.0)
        big[1::2] = s
        return big[1::2], idx, (n,)
    if kind == "rev":
        return s[::-1], idx[::-1], (n,)
    if kind == "2d":
        k = n - (n % 2)
        return s[:k].reshape(2, -1), idx[:k], (2, k // 2)
    if kind == "ro":
        a = s.copy()
        a.setflags(write=False)
        return a, idx, (n,)
    if kind == "i64":
        return s.astype(np.int64), idx, (n,)
    if kind == "f32":
        return s.astype(np.float32), idx, (n,)
    return s.copy(), idx, (n,)


def eval_long(inp):
    from .c05 import build, close, tfac, exc
    out = []
    c, n, t = inp["curve"], inp["n"], inp.get("t")
    what = "array of %d stress ranges" % n
    try:
        sn, _ = build(c)
    except Exception as e:
        return [("a valid S-N curve can be constructed", "an SNCurve", exc(e))]
    s = long_values(inp)
    f = tfac(c, t)
    with np.errstate(all="ignore"):
        ref = ref_capacity_vec(c, s * f)
    obj, idx, shape = _container(s, inp["cont"])
    keep = np.array(obj, dtype=float, copy=True)
    try:
        res = (sn.n(obj) if inp["call"] == "pos" else sn.n(obj, t=None)) if t is None else \
            (sn.n(obj, t) if inp["call"] == "pos" else sn.n(obj, t=t))
        got = np.asarray(res)
    except Exception as e:
        return [("n returns values for every valid curve, %s and thickness" % what, "values", exc(e))]
    if got.shape != tuple(shape) or got.dtype.kind != "f":
        return [("scalar and array evaluation agree: n(<%s %s>) has one float per stress range, same shape" % (inp["cont"], what),
                 ["float", list(shape)], [str(got.dtype), list(got.shape)])]
    g = np.empty(n)
    g[:] = np.nan
    g[idx] = got.astype(float).ravel()
    have = np.zeros(n, dtype=bool)
    have[idx] = True
    rtol = 1e-3 if inp["cont"] == "f32" else 1e-9
    ok = ~have | np.isclose(g, ref, rtol=rtol, atol=0.0)
    if not ok.all():
        i = int(np.argmin(ok))
        out.append(("n(<%s>) == 10^(log a - m log(s (t/t_ref)^k)) on the branch of s, for every element (capacity computed without "
                    "qats, rel %g; %d elements differ, first at index %d)" % (what, rtol, int((~ok).sum()), i),
                    dict(index=i, s=float(s[i]), n=float(ref[i])), float(g[i])))
    # scalar evaluation at the special positions and a sample
    rs = np.random.RandomState(inp["seed"] ^ 0x5a5a)
    pts = sorted({0, 1, n - 2, n - 1} | {p for p, _ in inp["events"]} | {p + d for p, _ in inp["events"] for d in (-1, 1) if 0 <= p + d < n}
                 | {b * m + d for b in BLOCKS for m in (1, n // b) for d in (-1, 0, 1) if 0 <= b * m + d < n}
                 | set(rs.randint(0, n, 60).tolist()))
    try:
        for i in pts:
            if not have[i]:
                continue
            sc = float(sn.n(float(s[i]), t=t))
            if not close(sc, float(g[i]), 1e-3 if inp["cont"] == "f32" else 1e-13):
                out.append(("scalar and array evaluation agree: element %d of n(<%s %s>) equals n(<float>)" % (i, inp["cont"], what), sc, float(g[i])))
                break
            back = float(sn.fatigue_strength(sc, t=t))
            if not close(back, float(s[i]), 1e-8):
                out.append(("fatigue_strength(n(s,t),t) == s (element %d of a %s)" % (i, what), float(s[i]), back))
                break
    except Exception as e:
        out.append(("n / fatigue_strength return a value for every valid curve, stress range and thickness", "a value", exc(e)))
    if inp["cont"] in ("i64", "f32"):
        return out
    try:
        full = np.asarray(sn.n(s.copy(), t=t), dtype=float)
        # thickness acts like multiplying the stress range
        if t is not None and c["t_ref"] is not None:
            sc = np.asarray(sn.n(s * f), dtype=float)
            ok = np.isclose(full, sc, rtol=1e-9, atol=0.0)
            if full.shape != sc.shape or not ok.all():
                i = int(np.argmin(ok))
                out.append(("thickness acts like multiplying the stress range by (t/t_ref)^k (1 at or below t_ref), every element of a %s"
                            % what, dict(index=i, n=float(sc[i])), float(full[i])))
        # strictly decreasing / continuous: sorted stress ranges give strictly decreasing capacities, and neighbours 3.5e-5 apart
        # differ by no more than the slope allows
        order = np.argsort(s, kind="stable")
        ss, nn = s[order], full[order]
        inc = np.diff(ss) > 1e-9 * ss[:-1]          # as in the scalar stream: neighbours at least 1e-9 apart (float rounding below that)
        dec = np.diff(nn) < 0
        okm = (~inc | dec) & (np.diff(nn) <= 1e-12 * nn[:-1])
        if not okm.all():
            i = int(np.argmin(okm))
            out.append(("n strictly decreasing in s (elements %d and %d of a %s)" % (int(order[i]), int(order[i + 1]), what),
                        "n(%r) > n(%r)" % (float(ss[i]), float(ss[i + 1])), [float(nn[i]), float(nn[i + 1])]))
        same = np.diff(ss) == 0
        if (same & (np.diff(nn) != 0)).any():
            i = int(np.argmax(same & (np.diff(nn) != 0)))
            out.append(("n is a function of s: equal stress ranges in a %s have equal capacity (elements %d and %d)"
                        % (what, int(order[i]), int(order[i + 1])), float(nn[i]), float(nn[i + 1])))
        mmax = max(c["m1"], c["m2"] or 0.0)
        with np.errstate(all="ignore"):
            jump = np.abs(np.diff(np.log(nn))) <= mmax * np.diff(np.log(ss)) * 1.5 + 1e-10
        if not jump.all():
            i = int(np.argmin(jump))
            out.append(("n continuous in s (no jump between neighbouring stress ranges, elements %d and %d of a %s)"
                        % (int(order[i]), int(order[i + 1]), what), [float(ss[i]), float(ss[i + 1])], [float(nn[i]), float(nn[i + 1])]))
        # elementwise: slices and a permutation of the array give the corresponding elements of the full result
        cuts = sorted({1, n - 1} | {p for p, _ in inp["events"] if 0 < p < n} | {b for b in BLOCKS if b < n} | {(n // b) * b for b in BLOCKS if 0 < (n // b) * b < n})
        for k in cuts[:10]:
            a, b = np.asarray(sn.n(s[:k].copy(), t=t), dtype=float), np.asarray(sn.n(s[k:].copy(), t=t), dtype=float)
            if a.shape != (k,) or b.shape != (n - k,) or not (np.array_equal(a, full[:k]) and np.array_equal(b, full[k:])):
                out.append(("scalar and array evaluation agree: n(s[:%d]) and n(s[%d:]) are the corresponding elements of n(s) (%s)" % (k, k, what),
                            "equal", "differ at %r" % (np.nonzero(np.concatenate([a, b]) != full)[0][:5].tolist() if a.size + b.size == n else "shape")))
                break
        perm = rs.permutation(n)
        pp = np.asarray(sn.n(s[perm], t=t), dtype=float)
        if pp.shape != (n,) or not np.array_equal(pp, full[perm]):
            out.append(("scalar and array evaluation agree: n of a permuted %s is the permuted result" % what, "equal",
                        "differ at %r" % (np.nonzero(pp != full[perm])[0][:5].tolist() if pp.shape == (n,) else "shape")))
        # caller data, second call
        again = np.asarray(sn.n(obj, t=t))
        if not (np.array_equal(np.array(obj, dtype=float), keep) and np.array_equal(again, got)):
            out.append(("evaluating n does not modify the caller's stress ranges (a second call on the same %s gives the same answer)" % what,
                        "unchanged", "changed"))
    except Exception as e:
        out.append(("n returns values for every valid curve, %s and thickness (monotone / thickness / slicing clauses)" % what, "values", exc(e)))
    return out


def plan(chk):
    rng = chk.rng
    if chk.quick:
        b = rng.sample(SIZES_BIG, 2)
        return [-n for n in SIZES_SMALL] + list(SIZES_SMALL) + [b[0], 65537 if 65537 not in b else b[1], rng.choice(SIZES_BIG)]
    return ([-n for n in SIZES_SMALL] + list(SIZES_SMALL)) * 6 + list(SIZES_BIG) * 6


def run_long(chk, drv, corpus=()):
    from .c05 import curve_tokens, close
    from ..core import fbits, unfbits
    cases = [dict(c) for c in corpus if c.get("kind") == "long"]
    cases += [gen_long(chk.rng, abs(n), float_only=n < 0) for n in plan(chk)]     # negative size: float containers only
    lines, lmeta = [], []
    for case in cases:
        chk.count("sn.long")
        chk.nontriv(("sn.long", repr(case)))
        chk.dist("sn.long:n=%d" % case["n"])
        chk.dist("sn.long:%s" % case["cont"])
        try:
            res = eval_long(case)
        except Exception as e:
            res = [("the clauses of stream sn.long can be evaluated (no exception)", "values", "%s: %s" % (type(e).__name__, str(e)[:120]))]
        for oracle, e, o in res:
            chk.fail(oracle, case, e, o)
        if case["n"] <= MODEL_MAX and case["cont"] not in ("i64", "f32") and len(lines) < (6 if chk.quick else 40):
            s = long_values(case)
            lines.append("sn.narray %s %s %s" % (curve_tokens(case["curve"]), "-" if case["t"] is None else fbits(case["t"]),
                                                 " ".join(fbits(float(x)) for x in s)))
            lmeta.append((case, s))
    from .c05 import build
    for (case, s), o in zip(lmeta, drv.run(lines)):
        chk.count("sn.narray-long")
        try:
            im = np.asarray(build(case["curve"])[0].n(s, t=case["t"]), dtype=float).tolist()
        except Exception as e:
            im = "err " + type(e).__name__
        model = [unfbits(x) for x in o.split()[1:]] if o.startswith("ok") else o
        same = (model == im) if (isinstance(model, str) or isinstance(im, str)) else \
            (len(model) == len(im) and bool(np.isclose(model, im, rtol=1e-9, atol=0.0).all()))
        if not same:
            chk.disagree("sn.narray", case, "model (%d values)" % (len(model) if not isinstance(model, str) else -1) if not isinstance(model, str) else model,
                         "implementation differs")
