"""
C15 -- LONG arrays of probabilities / values and LONG rnd draws (audit round 8: size-conditioned code paths).

Every stream of c15.py hands cdf / pdf / invcdf at most ~14 entries and draws at most ~9 random numbers.  Here the clauses of the
property are evaluated on ONE distribution object queried with arrays of 999 ... 131073 entries and asked for as many random numbers:

* invcdf(<n probabilities>): one value per entry; 0 / 1 -> the ends of the support, entries outside [0,1] -> nan, inside -> quantiles;
  cdf(invcdf(p)) == p for EVERY inner entry (cdf evaluated once on the long result and once in slices of <= 251 entries through a
  fresh object of the same parameters); quantiles non-decreasing in p (ties equal);
* cdf(<n values>): every entry finite, in [0,1], non-decreasing in x (ties equal); invcdf(cdf(x)) == x for every entry of the bulk;
* pdf(<n values>): every entry finite, >= 0 and the central difference of the cdf for every entry of the bulk;
* every long result equals the same entries evaluated in slices of <= 251 entries by a fresh object (the value at an entry is a
  function of the parameters and that entry only), every element;
* rnd(size=n | (n/2, 2) | (n, 1), seed): shape, == invcdf(numpy's uniform stream of the seed) for every element, the same twice,
  the first k numbers are rnd(size=k, seed), and the next unseeded draw continues the stream;
* tie with the Lean model: the elements at the special positions and a sample against gen.*_cdf / gen.*_pdf / dist.invcdf (rel 1e-9).

The special entries (0, 1, out-of-range, +-1 ulp next to 0 / 1, 1/2, duplicates; the lower end of the support, the median, far tails,
duplicates) sit at the first / last elements, at multiples of 1000 / 1024 / 4096 / 10000 / 65536, their neighbours, and as pairs
spanning such a multiple.  A failing input stores (distribution, parameters, n, seeds, events, container) only.
"""
import math

import numpy as np

SIZES_SMALL = (999, 1000, 1001, 1023, 1024, 1025, 4095, 4096, 4097, 9999, 10000, 10001)
SIZES_BIG = (65535, 65536, 65537, 70001, 131073)
BLOCKS = (1000, 1024, 4096, 10000, 65536)
SLICE = 251                                   # "small" evaluation: far below any plausible size threshold, not a divisor of a block
CONTS = ("ndarray", "ndarray", "ndarray", "list", "view", "ro", "2d", "tuple")
P_EVENTS = ("zero", "one", "below", "above", "below-ulp", "above-ulp", "tiny", "near-one", "half", "dup", "neg-big")
X_EVENTS = ("lower-end", "median", "far-up", "far-down", "dup", "mode-ish")
LIMIT = 60.0


def special_positions(rng, n):
    cand = {0, 1, n - 1, n - 2}
    for b in BLOCKS:
        if n >= b:
            for m in {rng.randint(1, n // b), n // b}:
                cand |= {m * b - 1, m * b, m * b + 1}
    return sorted(p for p in cand if 0 <= p < n)


def _events(rng, n, kinds, pairs):
    pos = special_positions(rng, n)
    ev = {p: rng.choice(kinds) for p in rng.sample(pos, min(len(pos), rng.choice([4, 6, 9])))}
    bs = [b for b in BLOCKS if n > b]
    if bs:                                    # a pair spanning a multiple of a block size
        b = rng.choice(bs)
        m = rng.randint(1, (n - 1) // b)
        ev[m * b - 1], ev[m * b] = rng.choice(pairs)
    ev[n - 1] = rng.choice(kinds)             # the last element always carries an event, the first one mostly
    if rng.random() < 0.7:
        ev[0] = rng.choice(kinds)
    return [[int(p), k] for p, k in sorted(ev.items())]


def gen_long(rng, n, kind=None):
    from .c15 import rand_params
    kind = kind or rng.choice(["wb", "gu", "gm"])
    par = rand_params(rng, kind)
    size = rng.choice([n, n, [n // 2, 2], [2, n // 2], [n, 1]])
    return dict(check="long", dist=kind, params=par, n=n, seed=rng.randrange(2 ** 31), layout=rng.choice(["random", "random", "sorted"]),
                p_events=_events(rng, n, P_EVENTS, [("one", "zero"), ("below", "above"), ("near-one", "one"), ("dup", "dup"), ("zero", "below-ulp")]),
                x_events=_events(rng, n, X_EVENTS, [("far-up", "lower-end"), ("median", "dup"), ("far-down", "far-up"), ("dup", "dup")]),
                cont=rng.choice(CONTS), call=rng.choice(["kw", "kw", "pos"]),
                rnd=dict(size=size, seed=rng.choice([0, 21, rng.randrange(2 ** 31)]), k=rng.choice([1, 5, 100, 1000, 1024]),
                         more=rng.choice([None, 3, 1025, n])))


def long_p(inp):
    """the probabilities as float64, rebuilt from the compact description"""
    n = inp["n"]
    rs = np.random.RandomState(inp["seed"])
    p = rs.random_sample(n)
    p[p == 0.0] = 0.5
    if inp["layout"] == "sorted":
        p = np.sort(p)
    for i, k in inp["p_events"]:
        p[i] = {"zero": 0.0, "one": 1.0, "below": -0.25, "above": 1.5, "below-ulp": -5e-324, "above-ulp": 1.0 + 2.0 ** -52,
                "tiny": 1e-300, "near-one": 1.0 - 2.0 ** -53, "half": 0.5, "neg-big": -1e6}.get(k, p[i - 1] if i else p[1])
    return p


def long_x(inp, d):
    """the values as float64: quantiles of seeded probabilities spread over the bulk, special values at the event positions.  The
    quantiles come from SMALL invcdf calls (slices) of a fresh object -- only where the entries sit, not what the clauses demand"""
    n, kind, par = inp["n"], inp["dist"], inp["params"]
    loc, scale = float(par[0]), float(par[1])
    rs = np.random.RandomState(inp["seed"] ^ 0x3c3c)
    q = 1e-5 + (1 - 2e-5) * rs.random_sample(n)
    if inp["layout"] == "sorted":
        q = np.sort(q)
    x = pieces(d.invcdf, q, "p")
    med = float(np.asarray(d.invcdf(p=[0.5]), dtype=float)[0])
    for i, k in inp["x_events"]:
        if k == "lower-end":
            # (a Weibull density of shape < 1 is infinite at the location: the entry sits just above it)
            x[i] = (loc if float(par[2]) >= 1.0 else loc + 1e-9 * scale) if kind == "wb" else loc - 800.0 * scale
        elif k == "median":
            x[i] = med
        elif k == "far-up":
            x[i] = loc + 800.0 * scale
        elif k == "far-down":
            x[i] = loc + 1e-9 * scale if kind == "wb" else loc - 40.0 * scale
        elif k == "mode-ish":
            x[i] = loc + scale * (0.5 if kind == "wb" else 0.0)
        else:
            x[i] = x[i - 1] if i else x[1]
    return x


def pieces(f, v, kw):
    """f evaluated on the 1-d float array v in slices of <= SLICE entries"""
    out = np.empty(v.size)
    for a in range(0, v.size, SLICE):
        out[a:a + SLICE] = np.asarray(f(**{kw: v[a:a + SLICE].copy()}), dtype=float)
    return out


def _container(v, how):
    """(the object handed to the method, shape of the expected result)"""
    n = v.size
    if how == "list":
        return v.tolist(), (n,)
    if how == "tuple":
        return tuple(v.tolist()), (n,)
    if how == "view":
        big = np.full(2 * n + 1, 0.5)
        big[1::2] = v
        return big[1::2], (n,)
    if how == "ro":
        a = v.copy()
        a.setflags(write=False)
        return a, (n,)
    if how == "2d":
        return (v.reshape(-1, 2), (n // 2, 2)) if n % 2 == 0 else (v.reshape(-1, 1), (n, 1))
    return v.copy(), (n,)


def _first(mask):
    return int(np.argmax(mask))


def _pts(inp, events, extra=40):
    n = inp["n"]
    rs = np.random.RandomState(inp["seed"] ^ 0x5a5a)
    return sorted({0, 1, n - 2, n - 1} | {p for p, _ in events} | {p + d for p, _ in events for d in (-1, 1) if 0 <= p + d < n}
                  | {b * m + d for b in BLOCKS for m in (1, n // b) for d in (-1, 0, 1) if 0 <= b * m + d < n}
                  | set(rs.randint(0, n, extra).tolist()))


def _exc(e):
    return "%s: %s" % (type(e).__name__, str(e)[:160])


def _eval_body(inp, out, model_req):
    from .c15 import make
    kind, par, n = inp["dist"], tuple(float(v) for v in inp["params"]), inp["n"]
    loc, scale = par[0], par[1]
    what = "%d entries, passed as %s" % (n, inp["cont"])
    try:
        o, ref = make(kind, par), make(kind, par)
    except Exception as e:
        out.append(("the distribution object can be constructed from valid parameters", "object", _exc(e)))
        return
    call = (lambda m, kw, a: getattr(o, m)(a)) if inp["call"] == "pos" else (lambda m, kw, a: getattr(o, m)(**{kw: a}))
    lo = loc if kind == "wb" else -math.inf
    with np.errstate(all="ignore"):
        # ---- invcdf of a long array of probabilities ----------------------------------------------------------------------------
        p = long_p(inp)
        arg, shape = _container(p, inp["cont"])
        X = None
        try:
            r = np.asarray(call("invcdf", "p", arg))
            if r.shape != shape:
                out.append(("invcdf returns one value per entry of the argument (%s)" % what, list(shape), list(r.shape)))
            else:
                X = r.astype(float).ravel()
        except Exception as e:
            out.append(("invcdf is defined for valid parameters and every numeric argument (%s)" % what, "values", _exc(e)))
        if X is not None:
            outside, one, zero = (p < 0) | (p > 1), p == 1, p == 0
            inner = (p > 0) & (p < 1)
            badsp = (outside & ~np.isnan(X)) | (one & (X != math.inf)) | (zero & (X != lo)) | (inner & np.isnan(X))
            if badsp.any():
                i = _first(badsp)
                out.append(("invcdf: 0 and 1 map to the ends of the support, values outside [0,1] to nan, values inside (0,1) to "
                            "quantiles (%s; %d entries differ, first at index %d)" % (what, int(badsp.sum()), i),
                            dict(index=i, p=float(p[i]), x="nan" if outside[i] else (math.inf if one[i] else (lo if zero[i] else "a quantile"))),
                            float(X[i])))
            ok = inner & np.isfinite(X)
            xi, qi = X[ok], p[ok]
            idx = np.flatnonzero(ok)
            if xi.size:
                for how, cfun in (("one long cdf call", lambda v: np.asarray(o.cdf(x=v), dtype=float)),
                                  ("cdf in slices of <= %d through a fresh object" % SLICE, lambda v: pieces(ref.cdf, v, "x"))):
                    try:
                        c = cfun(xi.copy())
                        f = pieces(ref.pdf, xi, "x")
                    except Exception as e:
                        out.append(("cdf / pdf are defined at the quantiles returned by invcdf (%s)" % how, "values", _exc(e)))
                        continue
                    slack = np.nan_to_num(f, nan=0.0, posinf=1e300) * (np.abs(xi) + abs(loc)) * 2e-14 + 1e-12
                    bad = ~(np.abs(c - qi) <= 1e-7 * qi + slack)
                    if bad.any():
                        j = _first(bad)
                        out.append(("cdf(invcdf(p)) == p for every inner entry of a long array (%s; %s; %d entries differ, first at index %d)"
                                    % (what, how, int(bad.sum()), int(idx[j])), dict(index=int(idx[j]), p=float(qi[j])), float(c[j])))
                order = np.argsort(qi, kind="stable")
                dx = np.diff(xi[order])
                if np.any(dx < 0) or np.any((np.diff(qi[order]) == 0) & (dx != 0)):
                    j = _first((dx < 0) | ((np.diff(qi[order]) == 0) & (dx != 0)))
                    a, b = int(idx[order[j]]), int(idx[order[j + 1]])
                    out.append(("invcdf is non-decreasing in p, equal probabilities give equal quantiles (%s)" % what,
                                dict(indices=[a, b], p=[float(p[a]), float(p[b])]), [float(X[a]), float(X[b])]))
            try:
                e = pieces(ref.invcdf, p, "p")
                same = np.isclose(X, e, rtol=1e-11, atol=1e-12 * (abs(loc) + scale), equal_nan=True)
                if not same.all():
                    i = _first(~same)
                    out.append(("invcdf(p) is a function of the parameters and the probability only: every element of the long result equals "
                                "the same entries in slices of <= %d through a fresh object (%s; %d elements differ, first at index %d)"
                                % (SLICE, what, int((~same).sum()), i), dict(index=i, p=float(p[i]), x=float(e[i])), float(X[i])))
            except Exception as e:
                out.append(("invcdf is defined for slices of the array", "values", _exc(e)))
            for i in _pts(inp, inp["p_events"]):
                model_req.append(("invcdf", i, float(p[i]), float(X[i])))
        # ---- cdf / pdf of a long array of values --------------------------------------------------------------------------------
        try:
            x = long_x(inp, ref)
        except Exception as e:
            out.append(("invcdf is defined for slices of probabilities inside (0,1)", "values", _exc(e)))
            return
        res = {}
        for op in ("cdf", "pdf"):
            arg, shape = _container(x, inp["cont"])
            try:
                r = np.asarray(call(op, "x", arg))
                if r.shape != shape:
                    out.append(("%s returns one value per entry of the argument (%s)" % (op, what), list(shape), list(r.shape)))
                else:
                    res[op] = r.astype(float).ravel()
            except Exception as e:
                out.append(("%s is defined for valid parameters and every value of the support (%s)" % (op, what), "values", _exc(e)))
        try:
            cs = pieces(ref.cdf, x, "x")
        except Exception as e:
            out.append(("cdf is defined for slices of the array", "values", _exc(e)))
            cs = None
        if "cdf" in res:
            c = res["cdf"]
            bad = ~(np.isfinite(c) & (c >= 0) & (c <= 1))
            if bad.any():
                i = _first(bad)
                out.append(("cdf within [0,1] for every entry (%s; %d entries differ, first at index %d)" % (what, int(bad.sum()), i),
                            dict(index=i, x=float(x[i])), float(c[i])))
            else:
                order = np.argsort(x, kind="stable")
                dc, dxs = np.diff(c[order]), np.diff(x[order])
                bad = (dc < -1e-15) | ((dxs == 0) & (dc != 0))
                if bad.any():
                    j = _first(bad)
                    a, b = int(order[j]), int(order[j + 1])
                    out.append(("cdf non-decreasing in x, equal values give equal probabilities (%s; %d adjacent pairs of the sorted "
                                "values differ)" % (what, int(bad.sum())), dict(indices=[a, b], x=[float(x[a]), float(x[b])]),
                                [float(c[a]), float(c[b])]))
                sel = (c >= 1e-4) & (c <= 1 - 1e-4)
                if sel.any():
                    ids = np.flatnonzero(sel)
                    for how, ifun in (("one long invcdf call", lambda v: np.asarray(o.invcdf(p=v), dtype=float)),
                                      ("invcdf in slices of <= %d through a fresh object" % SLICE, lambda v: pieces(ref.invcdf, v, "p"))):
                        try:
                            back = ifun(c[sel].copy())
                        except Exception as e:
                            out.append(("invcdf is defined at the probabilities returned by cdf (%s)" % how, "values", _exc(e)))
                            continue
                        okb = np.isclose(back, x[sel], rtol=1e-6, atol=1e-9 * scale)
                        if not okb.all():
                            j = _first(~okb)
                            out.append(("invcdf(cdf(x)) == x for every entry of the bulk of a long array (%s; %s; %d entries differ, first "
                                        "at index %d)" % (what, how, int((~okb).sum()), int(ids[j])),
                                        dict(index=int(ids[j]), x=float(x[ids[j]])), float(back[j])))
            if cs is not None:
                same = np.isclose(c, cs, rtol=1e-11, atol=4e-16, equal_nan=True)
                if not same.all():
                    i = _first(~same)
                    out.append(("cdf(x) is a function of the parameters and the value only: every element of the long result equals the "
                                "same entries in slices of <= %d through a fresh object (%s; %d elements differ, first at index %d)"
                                % (SLICE, what, int((~same).sum()), i), dict(index=i, x=float(x[i]), cdf=float(cs[i])), float(c[i])))
            for i in _pts(inp, inp["x_events"]):
                model_req.append(("cdf", i, float(x[i]), float(c[i])))
        if "pdf" in res:
            f = res["pdf"]
            bad = ~(np.isfinite(f) & (f >= 0))
            if bad.any():
                i = _first(bad)
                out.append(("the density is finite and non-negative for every entry (%s; %d entries differ, first at index %d)"
                            % (what, int(bad.sum()), i), dict(index=i, x=float(x[i])), float(f[i])))
            elif cs is not None:
                h = 1e-6 * scale
                sel = (cs >= 0.05) & (cs <= 0.95)
                ids = np.flatnonzero(sel)
                xp, xm = x[sel] + h, x[sel] - h
                for how, cfun in (("cdf by long calls", lambda v: np.asarray(o.cdf(x=v), dtype=float)),
                                  ("cdf in slices of <= %d through a fresh object" % SLICE, lambda v: pieces(ref.cdf, v, "x"))):
                    if not ids.size:
                        break
                    try:
                        num = (cfun(xp) - cfun(xm)) / (xp - xm)
                    except Exception as e:
                        out.append(("cdf is defined next to the values of the bulk (%s)" % how, "values", _exc(e)))
                        continue
                    okd = np.isclose(num, f[sel], rtol=2e-5, atol=0)
                    if not okd.all():
                        j = _first(~okd)
                        out.append(("pdf is the derivative of the cdf (central difference, rel 2e-5) for every entry of the bulk of a long "
                                    "array (%s; %s; %d entries differ, first at index %d)" % (what, how, int((~okd).sum()), int(ids[j])),
                                    dict(index=int(ids[j]), x=float(x[ids[j]]), dcdf=float(num[j])), float(f[ids[j]])))
            try:
                fs = pieces(ref.pdf, x, "x")
                same = np.isclose(f, fs, rtol=1e-11, atol=1e-300, equal_nan=True)
                if not same.all():
                    i = _first(~same)
                    out.append(("pdf(x) is a function of the parameters and the value only: every element of the long result equals the "
                                "same entries in slices of <= %d through a fresh object (%s; %d elements differ, first at index %d)"
                                % (SLICE, what, int((~same).sum()), i), dict(index=i, x=float(x[i]), pdf=float(fs[i])), float(f[i])))
            except Exception as e:
                out.append(("pdf is defined for slices of the array", "values", _exc(e)))
            for i in _pts(inp, inp["x_events"]):
                model_req.append(("pdf", i, float(x[i]), float(f[i])))
        # ---- long rnd draws -----------------------------------------------------------------------------------------------------
        rd = inp["rnd"]
        size = tuple(rd["size"]) if isinstance(rd["size"], list) else rd["size"]
        seed, k, more = rd["seed"], rd["k"], rd["more"]
        saved = np.random.get_state()
        try:
            np.random.seed(424242)
            g1 = np.asarray(o.rnd(size=size, seed=seed))
            m1 = None if more is None else np.asarray(o.rnd(size=more))              # continues the stream of the seeded draw
            np.random.seed(777)
            g2 = np.asarray(o.rnd(size=size, seed=seed))
            gk = np.asarray(o.rnd(size=k, seed=seed))
            rs = np.random.RandomState(seed)
            u = rs.random_sample(size)
            um = None if more is None else rs.random_sample(more)
            wshape = (size,) if isinstance(size, int) else size
            if g1.shape != wshape:
                out.append(("rnd(size=%r) returns an array of that shape" % (rd["size"],), list(wshape), list(g1.shape)))
            else:
                g1f = g1.astype(float)
                e = pieces(ref.invcdf, u.ravel(), "p").reshape(wshape)
                same = np.isclose(g1f, e, rtol=1e-14, atol=0, equal_nan=True)
                if not same.all():
                    i = _first(~same.ravel())
                    out.append(("rnd(size=%r, seed=%d): every sample is invcdf of numpy's uniform stream of the seed (invcdf in slices of "
                                "<= %d through a fresh object; %d samples differ, first at flat index %d)"
                                % (rd["size"], seed, SLICE, int((~same).sum()), i), dict(index=i, u=float(u.ravel()[i]), x=float(e.ravel()[i])),
                                float(g1f.ravel()[i])))
                badr = ~np.isfinite(g1f) | (g1f < lo)
                if badr.any():
                    i = _first(badr.ravel())
                    out.append(("rnd: every sample is a finite value of the support (%d samples are not, first at flat index %d)"
                                % (int(badr.sum()), i), "finite, >= %r" % lo, float(g1f.ravel()[i])))
                if not (g2.shape == g1.shape and np.array_equal(g1, g2, equal_nan=True)):
                    i = _first(g1.ravel() != g2.ravel()) if g2.shape == g1.shape else -1
                    out.append(("rnd: the same size and seed give the same samples (reproducible from a seed; size %r, first difference "
                                "at flat index %d)" % (rd["size"], i), float(g1.ravel()[i]) if i >= 0 else list(g1.shape),
                                float(g2.ravel()[i]) if i >= 0 else list(g2.shape)))
                ek = pieces(ref.invcdf, np.random.RandomState(seed).random_sample(k), "p")      # (C order: the first k uniforms)
                if not (gk.shape == (k,) and np.allclose(gk.astype(float), ek, rtol=1e-14, atol=0, equal_nan=True)
                        and np.array_equal(gk.astype(float)[:min(k, g1f.size)], g1f.ravel()[:min(k, g1f.size)], equal_nan=True)):
                    out.append(("rnd(size=%d, seed) gives the first %d samples of rnd(size=%r, seed): both are the inverse-cdf transform of "
                                "the uniform numbers of that seed" % (k, k, rd["size"]), ek[:min(k, 5)].tolist(),
                                gk.ravel()[:min(k, 5)].tolist()))
                if m1 is not None:
                    em = pieces(ref.invcdf, um, "p")
                    okm = m1.shape == em.shape and np.allclose(m1.astype(float), em, rtol=1e-14, atol=0, equal_nan=True)
                    if not okm:
                        out.append(("rnd: an unseeded draw of %d after rnd(size=%r, seed) continues the uniform stream of that seed"
                                    % (more, rd["size"]), em[:5].tolist(), m1.ravel()[:5].astype(float).tolist()))
        except Exception as e:
            out.append(("rnd draws succeed for a valid size and seed (size %r)" % (rd["size"],), "samples", _exc(e)))
        finally:
            np.random.set_state(saved)


def eval_long(inp, model_req=None, limit=LIMIT):
    """-> list of (oracle, expected, observed); the case runs in a worker thread: a query that does not return is a failing clause"""
    import threading
    out, box = [], {}
    req = model_req if model_req is not None else []

    def work():
        try:
            _eval_body(inp, out, req)
        except BaseException as e:            # noqa: a harness-side surprise becomes a failing clause, not a crash
            box["exc"] = e
    state0 = np.random.get_state()
    t = threading.Thread(target=work, daemon=True)
    t.start()
    t.join(limit)
    if t.is_alive():
        return list(out) + [("every query with a long array returns (time limit %g s)" % limit, "a result or an exception", "no result")]
    np.random.set_state(state0)
    if "exc" in box:
        out.append(("the clauses of the property can be evaluated on a long array", "values", _exc(box["exc"])))
    return list(out)


def model_lines(inp, req):
    from ..core import fbits
    kind = inp["dist"]
    P = " ".join(fbits(float(v)) for v in inp["params"])
    return [("dist.invcdf %s %s %s" % (kind, P, fbits(v))) if op == "invcdf" else ("gen.%s_%s %s %s" % (kind, op, P, fbits(v)))
            for op, _, v, _ in req]


def run_long(chk, drv, corpus):
    from .c05 import close
    from .c15 import ext
    rng = chk.rng
    cases = [dict(c) for c in corpus if c.get("check") == "long"]
    if chk.quick:
        # every family: one size around 1000 / 1024, one around 4096 / 10000 and one beyond 65535 (a case costs ~0.05 s)
        small = [s for s in SIZES_SMALL if s <= 1025]
        mid = [s for s in SIZES_SMALL if s > 1025]
        for k in ("wb", "gu", "gm"):
            cases += [gen_long(rng, n, k) for n in (rng.choice(small), rng.choice(mid), rng.choice(SIZES_BIG))]
    else:
        for n in SIZES_SMALL + SIZES_BIG:
            for k in ("wb", "gu", "gm"):
                cases.append(gen_long(rng, n, k))
    lines, spans = [], []
    for inp in cases:
        chk.count("long")
        chk.nontriv(("long", inp["dist"], inp["n"], inp["cont"], inp["layout"]))
        chk.dist("long:%s:n=%s:%s" % (inp["dist"], "<=1025" if inp["n"] <= 1025 else ("<=10001" if inp["n"] <= 10001 else ">=65535"), inp["cont"]))
        req = []
        bad = eval_long(inp, req)
        for orc, exp_, obs in bad[:4]:
            chk.fail("long arrays: " + orc, inp, exp_, obs)
        ls = model_lines(inp, req)
        spans.append((inp, req, len(lines), len(lines) + len(ls)))
        lines += ls
    outs = drv.run(lines)
    for inp, req, a, b in spans:
        for (op, i, v, im), o in zip(req, outs[a:b]):
            chk.count("long.model." + op)
            try:
                mv = ext(o)
            except Exception:
                mv = o
            if isinstance(mv, str) or not close(mv, im, 1e-9):
                # a cdf next to 0 is 1 - exp(-z) with z ~ 1e-9: both sides carry the absolute rounding of that subtraction (a few ulp
                # of 1), which is not small relative to the value itself -- an honest tolerance is absolute there
                if op == "cdf" and not isinstance(mv, str) and abs(float(mv) - float(im)) <= 8 * 2.0 ** -53:
                    continue
                if op == "invcdf" and v == 0.0 and im == -math.inf and mv == -math.inf:
                    continue
                if op != "invcdf" and inp["dist"] == "wb" and v < float(inp["params"][0]):
                    continue
                chk.disagree("long.%s.%s" % (inp["dist"], op), dict(inp, index=i, arg=v), mv, im)
                break
