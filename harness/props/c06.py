"""
C06 — Miner damage is additive and agrees between histogram and closed form.

Tie: translator (minersum_weibull closed forms, goodman_haigh) + Float correspondence of `minersum` (dict / object /
callable, retbins), `minersum_weibull` (model fed with scipy's Γ, P, Q values) and `goodman_haigh`.
Search: additivity, linearity, scf-as-scaling, closed form vs finely discretised Weibull histogram (a measurement of
the Riemann-sum limit, labelled as such), Goodman–Haigh laws.
"""
import math

import numpy as np

from .. import core
from ..core import fbits, unfbits
from .c05 import build, close, curve_tokens, gen_curve, val

USES_TRANSLATOR = True
ANCHOR_PREFIX = ("sn_", "gh_")
RULE = ("seeded S-N curves x random histograms (1-40 bins) x scf in [1,3] x thickness (none / below / at / above reference) x every "
        "documented form of the `sn` argument (dict, SNCurve, bound method, lambda, callable object, plain object exposing n(); "
        "thickness passed through th / args / kwds); Weibull (q,h) x curves x thickness below/at/above reference for the closed "
        "form (curve as object and as dict, repeated calls); random cycle tables for Goodman-Haigh; corpus cases first; "
        "non-trivial = bilinear curve or scf>1 or thickness above reference; distinct by full input")


class _CapObj(object):
    """user-defined capacity model: NOT an SNCurve, NOT callable, exposes n() (third documented form of `sn`)"""
    def __init__(self, sn):
        self._sn = sn

    def n(self, s, t=None):
        return self._sn.n(s, t=t)


class _CapCall(object):
    """user-defined capacity model given as a callable object"""
    def __init__(self, sn):
        self._sn = sn

    def __call__(self, s, t=None):
        return self._sn.n(s, t=t)


FORMS = ("dict", "SNCurve", "bound method", "lambda", "callable object", "object with n()")


def sn_forms(sn, kw, th, via):
    """every documented way of handing the same curve to minersum: (label, sn argument, extra keyword arguments).
    dict / SNCurve take the thickness as `th`; the other forms take it through `args` or `kwds` (as documented)."""
    thx = {} if th is None else (dict(args=(th,)) if via == "args" else dict(kwds=dict(t=th)))
    return [("dict", dict(kw), dict(th=th)),
            ("SNCurve", sn, dict(th=th)),
            ("bound method", sn.n, thx),
            ("lambda", (lambda s, t=None: sn.n(s, t=t)), thx),
            ("callable object", _CapCall(sn), thx),
            ("object with n()", _CapObj(sn), thx)]


def weibull_clauses(minersum_weibull, sn, kw, q, h, v0, td, tdv, scf, th, d):
    """closed-form clauses that need no discretisation: curve as dict or object, repeated call on the same curve object,
    scf == scaling the stress ranges (i.e. the Weibull scale), linear in cycle rate and duration."""
    bad = []
    try:
        d_dict = float(minersum_weibull(q, h, dict(kw), v0, td=td, scf=scf, th=th))
        d_again = float(minersum_weibull(q, h, sn, v0, td=td, scf=scf, th=th))
        d_scaled = float(minersum_weibull(q * scf, h, sn, v0, td=td, scf=1.0, th=th))
        d_lin = float(minersum_weibull(q, h, sn, 3.0 * v0, td=2.0 * tdv, scf=scf, th=th))
    except Exception as e:      # noqa
        return [("minersum_weibull must not raise for valid input", "damage", "raised %s: %s" % (type(e).__name__, e))]
    if not close(d_dict, d, 1e-12):
        bad.append(("closed form: curve given as parameters (dict) or object gives identical damage", d, d_dict))
    if not close(d_again, d, 1e-12):
        bad.append(("closed form: same damage on every call with the same curve object", d, d_again))
    if not close(d_scaled, d, 1e-10):
        bad.append(("closed form: scf equivalent to scaling the stress ranges (Weibull scale q*scf)", d_scaled, d))
    if not close(d_lin, 6.0 * d, 1e-11):
        bad.append(("closed form: linear in cycle rate and duration", 6.0 * d, d_lin))
    return bad


def check_forms(minersum, sn, kw, sr, cnt, td, scf, th, via, d):
    """clauses 'identical whether the curve is given as parameters, object or function' and 'scf equivalent to scaling the
    stress ranges', for every form. Returns list of (oracle text, form, expected, observed)."""
    bad = []
    scaled = [x * scf for x in sr]
    for label, arg, extra in sn_forms(sn, kw, th, via):
        try:
            d_f = float(minersum(sr, cnt, arg, td=td, scf=scf, **extra))
            d_s = float(minersum(scaled, cnt, arg, td=td, scf=1.0, **extra))
            tot, bins = minersum(sr, cnt, arg, td=td, scf=scf, retbins=True, **extra)
            d_b = float(sum(float(b) for b in bins)) if len(sr) else 0.0
            tot = float(tot)
        except Exception as e:      # noqa
            bad.append(("curve given as parameters, object or function gives identical damage (no form may be refused)", label, d,
                        "raised %s: %s" % (type(e).__name__, e)))
            continue
        if not close(d_f, d, 1e-12):
            bad.append(("curve given as parameters, object or function gives identical damage", label, d, d_f))
        if not close(d_s, d_f, 1e-11):
            bad.append(("scf equivalent to scaling the stress ranges, for every form of the curve argument", label, d_s, d_f))
        if not (close(tot, d, 1e-12) and close(d_b, d, 1e-11) and len(bins) == len(sr)):
            bad.append(("damage per bin (retbins) sums to the total, for every form of the curve argument", label, d, [tot, d_b]))
    return bad


def run(chk):
    from qats.fatigue.sn import SNCurve, minersum, minersum_weibull
    from qats.fatigue.corrections import goodman_haigh
    from scipy.special import gamma, gammainc, gammaincc
    chk.extra["rule"] = RULE
    chk.partial += ["bilinear closed form: proved equal to the split integral with the incomplete gamma functions defined as "
                    "integrals (weibull_bilinear_closed_form); that scipy's gammainc/gammaincc compute those integrals is assumed",
                    "closed form == limit of arbitrarily fine discretisation: Riemann-sum convergence is measured, not proved"]
    rng = chk.rng
    drv = core.Driver()
    pub = lambda c: {k: v for k, v in c.items() if not k.startswith("_")}
    N = 150 if chk.quick else 2000
    lines, meta = [], []
    corpus = core.load_corpus("C06")
    fixed = [c for c in corpus if c.get("kind") == "minersum"]
    for i in range(len(fixed) + N):
        if i < len(fixed):
            f = fixed[i]
            c = dict(f["curve"])
            sn, kw = build(c)
            sr, cnt, td, scf, th = [float(x) for x in f["srange"]], [float(x) for x in f["count"]], f["td"], f["scf"], f["th"]
            chk.count("corpus")
        else:
            c = gen_curve(rng)
            sn, kw = build(c)
            nb = rng.choice([1, 2, 3, 5, 8, 20, 40])
            sr = [10 ** rng.uniform(0, 2.7) for _ in range(nb)]
            cnt = [float(rng.choice([0.5, 1.0, 2.0, rng.randint(1, 10 ** 6)])) for _ in range(nb)]
            td = rng.choice([1.0, 1.0, 3600.0, 1 / 3600.0])
            scf = rng.choice([1.0, 1.0, 1.15, 2.0, round(rng.uniform(1, 3), 3)])
            th = None
            if c["t_ref"] is not None and rng.random() < 0.7:
                th = rng.choice([c["t_ref"], 0.5 * c["t_ref"], 2 * c["t_ref"], 100.0])
            elif c["t_ref"] is None and rng.random() < 0.1:
                th = 30.0   # must be refused
        hist = " ".join(fbits(a) + " " + fbits(b) for a, b in zip(sr, cnt))
        lines.append("sn.minersum %s %s %s %s %s" % (curve_tokens(c, sn), fbits(td), fbits(scf), "-" if th is None else fbits(th), hist))
        meta.append((c, sn, kw, sr, cnt, td, scf, th))
    outs = drv.run(lines)
    for (c, sn, kw, sr, cnt, td, scf, th), o in zip(meta, outs):
        chk.count("sn.minersum")
        inp = dict(curve=pub(c), srange=sr, count=cnt, td=td, scf=scf, th=th)
        if c["m2"] is not None or scf > 1 or (th and c["t_ref"] and th > c["t_ref"]):
            chk.nontriv(repr(inp))
        chk.dist("%s:scf%s:%s" % ("bilinear" if c["m2"] else "single", ">1" if scf > 1 else "=1",
                                  "th=None" if th is None else "th"))
        try:
            d = float(minersum(sr, cnt, sn, td=td, scf=scf, th=th))
        except ValueError:
            d = "err value"
        if not close(val(o), d, 1e-9):
            chk.disagree("sn.minersum", inp, val(o), d)
        if isinstance(d, str):
            continue
        if len(chk.samples) < 3 and len(sr) <= 3:
            chk.sample(dict(inp, damage=d))
        # --- oracles --------------------------------------------------------------------------------------------
        d_dict = float(minersum(sr, cnt, dict(kw), td=td, scf=scf, th=th))
        if not close(d_dict, d, 1e-12):
            chk.fail("curve given as parameters (dict) or object gives identical damage", inp, d, d_dict)
        if th is None:
            d_call = float(minersum(sr, cnt, sn.n, td=td, scf=scf))
            if not close(d_call, d, 1e-12):
                chk.fail("curve given as function gives identical damage", inp, d, d_call)
        # every documented form of the curve argument (thickness through th / args / kwds), each with the scf clause
        via = rng.choice(["args", "kwds"])
        for text, label, e_, o_ in check_forms(minersum, sn, kw, sr, cnt, td, scf, th, via, d):
            chk.fail(text, dict(inp, form=label, th_via=via), e_, o_)
        chk.count("sn.minersum-forms", len(FORMS))
        chk.dist("forms:scf%s:%s" % (">1" if scf > 1 else "=1", "th=None" if th is None else "th via " + via))
        dd, bins = minersum(sr, cnt, sn, td=td, scf=scf, th=th, retbins=True)
        exp_bins = [td * k / float(sn.n(s * scf, t=th)) for s, k in zip(sr, cnt)]
        if not all(close(float(a), b, 1e-12) for a, b in zip(bins, exp_bins)) or not close(float(sum(bins)), d, 1e-12):
            chk.fail("damage per bin == td*count/N(s*scf, t) and total == their sum", inp, exp_bins[:3], [float(b) for b in bins[:3]])
        k = rng.randint(0, len(sr))
        parts = (float(minersum(sr[:k], cnt[:k], sn, td=td, scf=scf, th=th)) if k else 0.0) + \
                (float(minersum(sr[k:], cnt[k:], sn, td=td, scf=scf, th=th)) if k < len(sr) else 0.0)
        if not close(parts, d, 1e-11):
            chk.fail("additive over any split of the histogram", dict(inp, split=k), d, parts)
        lin = float(minersum(sr, [3.0 * x for x in cnt], sn, td=2.0 * td, scf=scf, th=th))
        if not close(lin, 6.0 * d, 1e-11):
            chk.fail("linear in counts and duration", inp, 6.0 * d, lin)
        arr_s, arr_c = np.array(sr, dtype=float), np.array(cnt, dtype=float)
        d_a1 = float(minersum(arr_s, arr_c, sn, td=td, scf=scf, th=th))
        d_a2 = float(minersum(arr_s, arr_c, sn, td=td, scf=scf, th=th))
        if not (np.array_equal(arr_s, np.array(sr, dtype=float)) and np.array_equal(arr_c, np.array(cnt, dtype=float)) and
                close(d_a1, d, 1e-12) and close(d_a2, d, 1e-12)):
            chk.fail("damage of a histogram given as float arrays equals that of the lists, on every call (inputs are not modified)",
                     inp, d, [d_a1, d_a2])
        sc = float(minersum([s * scf for s in sr], cnt, sn, td=td, scf=1.0, th=th))
        if not close(sc, d, 1e-11):
            chk.fail("scf equivalent to scaling the stress ranges", inp, d, sc)
    # ---- closed form -----------------------------------------------------------------------------------------------
    M = 40 if chk.quick else 400
    glines, gmeta = [], []
    wfixed = [c for c in corpus if c.get("kind") == "weibull"]
    for i in range(len(wfixed) + M):
        if i < len(wfixed):
            f = wfixed[i]
            c = dict(f["curve"])
            sn, kw = build(c)
            q, h, v0, td, scf, th = f["q"], f["h"], f["v0"], f["td"], f["scf"], f["th"]
            chk.count("corpus")
        else:
            c = gen_curve(rng)
            sn, kw = build(c)
            q = 10 ** rng.uniform(0.3, 1.6)
            h = rng.choice([0.8, 1.0, 1.2, round(rng.uniform(0.6, 2.0), 3)])
            v0 = rng.choice([0.1, 0.125, 1.0])
            td = rng.choice([None, 3600.0, 1.0])
            scf = rng.choice([1.0, 1.25, 2.0])
            # thickness: none / above / at / below the reference (below: the correction is 1 by definition) / a fixed plate
            th = rng.choice([None, 2 * c["t_ref"], c["t_ref"], 0.5 * c["t_ref"], round(rng.uniform(0.2, 1.0) * c["t_ref"], 2), 100.0]) \
                if c["t_ref"] is not None else None
        try:
            d = float(minersum_weibull(q, h, sn, v0, td=td, scf=scf, th=th))
        except Exception as e:
            d = "err:" + type(e).__name__
        tdv = 3600. * 24 * 365 if td is None else td
        tc = 1.0 if th is None else float(sn.thickness_correction(th))
        qq = q * scf * tc
        inp = dict(curve=pub(c), q=q, h=h, v0=v0, td=td, scf=scf, th=th)
        if c["m2"] is None:
            glines.append("gen.sn_mw_single %s" % " ".join(fbits(x) for x in (float(sn.a1), h, c["m1"], qq, tdv, v0)))
        else:
            x = (float(sn.sswitch) / qq) ** h
            a1_, a2_ = 1 + c["m1"] / h, 1 + c["m2"] / h
            g1 = gammaincc(a1_, x) * gamma(a1_)
            g2 = gammainc(a2_, x) * gamma(a2_)
            glines.append("gen.sn_mw_bilinear %s" % " ".join(fbits(v) for v in (float(sn.a1), float(sn.a2), g1, g2, c["m1"], c["m2"], qq, tdv, v0)))
        gmeta.append((inp, c, sn, d, qq, h, v0, tdv, scf, th, q, kw))
    gouts = drv.run(glines)
    for (inp, c, sn, d, qq, h, v0, tdv, scf, th, q, kw), o in zip(gmeta, gouts):
        chk.count("sn.minersum_weibull")
        chk.nontriv(repr(inp))
        chk.dist("closed-form:%s:%s" % ("bilinear" if c["m2"] else "single", "th=None" if th is None or c["t_ref"] is None else
                                        "th<ref" if th < c["t_ref"] else "th=ref" if th == c["t_ref"] else "th>ref"))
        if not close(val(o), d, 1e-9):
            chk.disagree("sn.minersum_weibull", inp, val(o), d)
        if isinstance(d, str):
            chk.fail("minersum_weibull must not raise for valid input", inp, "damage", d)
            continue
        for text, e_, o_ in weibull_clauses(minersum_weibull, sn, kw, q, h, v0, inp["td"], tdv, scf, th, d):
            chk.fail(text, inp, e_, o_)
        # measurement: histogram damage of a fine discretisation of the Weibull distribution (cdf differences as counts)
        smax = q * (-math.log(1e-14)) ** (1 / h)
        nb = 40000
        edges = np.linspace(0.0, smax, nb + 1)
        cdf = 1 - np.exp(-(edges / q) ** h)
        counts = v0 * tdv * np.diff(cdf)
        mids = 0.5 * (edges[:-1] + edges[1:])
        dh = float(minersum(mids, counts, sn, td=1.0, scf=scf, th=th))
        if not close(dh, d, 2e-3):
            chk.fail("closed-form Weibull damage == histogram damage of a fine discretisation (40000 bins, rel 2e-3)", inp, dh, d)
    # ---- Goodman-Haigh -----------------------------------------------------------------------------------------------
    G = 300 if chk.quick else 5000
    gl, gm = [], []
    for _ in range(G):
        uts = 10 ** rng.uniform(1.5, 3.2)
        n = rng.choice([1, 2, 5])
        rows = [(10 ** rng.uniform(-1, 2.5), rng.choice([0.0, rng.uniform(-0.9, 0.9) * uts])) for _ in range(n)]
        for r, m in rows:
            gl.append("gen.gh_corrected %s %s %s" % (fbits(m), fbits(r), fbits(uts)))
        gm.append((uts, rows))
    go = drv.run(gl)
    i = 0
    for uts, rows in gm:
        arr = np.array(rows, dtype=float)
        got = goodman_haigh(arr, uts)
        again = goodman_haigh(arr, uts)          # same (float) array passed again, as with count_cycles(...)[:, :2]
        if not (np.array_equal(arr, np.array(rows, dtype=float)) and np.array_equal(got, again)):
            chk.fail("effective range == range*uts/(uts-mean) on every call (the input table is not modified)",
                     dict(cycles=rows, uts=uts), [float(v) for v in got], [float(v) for v in again])
        chk.count("gh")
        inp = dict(cycles=rows, uts=uts)
        for j, (r, m) in enumerate(rows):
            mv = val(go[i])
            i += 1
            g = float(got[j])
            if not close(mv, g, 1e-12):
                chk.disagree("gh_corrected", inp, mv, g)
            if m == 0.0 and not close(g, r, 1e-14):
                chk.fail("zero-mean cycles unchanged", inp, r, g)
            if not close(g, r * uts / (uts - m), 1e-12):
                chk.fail("effective range == range*uts/(uts-mean)", inp, r * uts / (uts - m), g)
            if m > 0 and not g > r:
                chk.fail("tensile mean stress enlarges the effective range", inp, "> %r" % r, g)
            chk.count("gh-row")
            if m != 0.0:
                chk.nontriv((r, m, uts))
        k = 1000.0
        got2 = goodman_haigh(np.array([(r * k, m * k) for r, m in rows]), uts * k)
        if not all(close(float(a), float(b) * k, 1e-12) for a, b in zip(got2, got)):
            chk.fail("independent of the stress unit", inp, [float(b) * k for b in got], [float(a) for a in got2])
        if got.shape != (len(rows),):
            chk.fail("one corrected range per cycle", inp, (len(rows),), got.shape)
    # integer cycle tables (whole MPa) are corrected like float ones
    for _ in range(30 if chk.quick else 300):
        uts = float(rng.randint(200, 900))
        rows = [(rng.randint(1, 150), rng.choice([0, rng.randint(-100, 150)])) for _ in range(rng.choice([1, 2, 4]))]
        gi = goodman_haigh(np.array(rows), int(uts))
        gf = goodman_haigh(np.array(rows, dtype=float), uts)
        gl = goodman_haigh([list(r) for r in rows], uts)
        chk.count("gh-int")
        exp = [r * uts / (uts - m) for r, m in rows]
        if not (np.allclose(np.asarray(gi, dtype=float), exp, rtol=1e-12) and np.allclose(gf, exp, rtol=1e-12) and np.allclose(np.asarray(gl, dtype=float), exp, rtol=1e-12)):
            chk.fail("effective range == range*uts/(uts-mean) also for integer-valued cycle tables", dict(cycles=rows, uts=uts), exp,
                     [np.asarray(gi, dtype=float).tolist(), np.asarray(gf).tolist()])
    chk.sample(dict(cycles=gm[0][1], uts=gm[0][0]))


def replay(rp):
    from qats.fatigue.sn import minersum, minersum_weibull
    inp = rp["input"]
    bad = 0
    if "srange" in inp:
        sn, kw = build(inp["curve"])
        sr, cnt = inp["srange"], inp["count"]
        d = float(minersum(sr, cnt, sn, td=inp["td"], scf=inp["scf"], th=inp["th"]))
        exp = sum(inp["td"] * k / float(sn.n(s * inp["scf"], t=inp["th"])) for s, k in zip(sr, cnt))
        print("minersum =", d, " sum of td*count/N =", exp)
        if not close(d, exp, 1e-11):
            bad += 1
        sc = float(minersum([s * inp["scf"] for s in sr], cnt, sn, td=inp["td"], scf=1.0, th=inp["th"]))
        if not close(sc, d, 1e-11):
            print("FAILS: scf as scaling")
            bad += 1
        for text, label, e_, o_ in check_forms(minersum, sn, kw, sr, cnt, inp["td"], inp["scf"], inp["th"], inp.get("th_via", "args"), d):
            print("FAILS: %s [sn given as %s]: expected %r observed %r" % (text, label, e_, o_))
            bad += 1
    elif "q" in inp:
        sn, kw = build(inp["curve"])
        d = float(minersum_weibull(inp["q"], inp["h"], sn, inp["v0"], td=inp["td"], scf=inp["scf"], th=inp["th"]))
        tdv = 3600. * 24 * 365 if inp["td"] is None else inp["td"]
        q, h = inp["q"], inp["h"]
        edges = np.linspace(0.0, q * (-math.log(1e-14)) ** (1 / h), 40001)
        counts = inp["v0"] * tdv * np.diff(1 - np.exp(-(edges / q) ** h))
        dh = float(minersum(0.5 * (edges[:-1] + edges[1:]), counts, sn, td=1.0, scf=inp["scf"], th=inp["th"]))
        print("closed form", d, "discretised", dh)
        if not close(dh, d, 2e-3):
            print("FAILS: closed form == histogram damage of a fine discretisation")
            bad += 1
        for text, e_, o_ in weibull_clauses(minersum_weibull, sn, kw, q, h, inp["v0"], inp["td"], tdv, inp["scf"], inp["th"], d):
            print("FAILS: %s: expected %r observed %r" % (text, e_, o_))
            bad += 1
    print("replay: %d failing clause(s)" % bad)
    return 1 if bad else 0
