"""
C06 — Miner damage is additive and agrees between histogram and closed form.

Tie: translator (minersum_weibull closed forms, goodman_haigh) + Float correspondence of `minersum` (dict / object /
callable, retbins), `minersum_weibull` (model fed with scipy's Γ, P, Q values) and `goodman_haigh`.
Search: additivity, linearity, scf-as-scaling, closed form vs finely discretised Weibull histogram (a measurement of
the Riemann-sum limit, labelled as such), Goodman–Haigh laws.
"""
import math

import numpy as np

from .. import core
from ..core import fbits, unfbits
from .c05 import build, close, curve_tokens, gen_curve, val

USES_TRANSLATOR = True
ANCHOR_PREFIX = ("sn_", "gh_")
RULE = ("seeded S-N curves x random histograms (1-40 bins) x scf in [1,3] x thickness; Weibull (q,h) x curves for the closed form; "
        "random cycle tables for Goodman-Haigh; non-trivial = bilinear curve or scf>1 or thickness above reference; "
        "distinct by full input")


def run(chk):
    from qats.fatigue.sn import SNCurve, minersum, minersum_weibull
    from qats.fatigue.corrections import goodman_haigh
    from scipy.special import gamma, gammainc, gammaincc
    chk.extra["rule"] = RULE
    chk.partial += ["bilinear closed form: proved equal to the split integral with the incomplete gamma functions defined as "
                    "integrals (weibull_bilinear_closed_form); that scipy's gammainc/gammaincc compute those integrals is assumed",
                    "closed form == limit of arbitrarily fine discretisation: Riemann-sum convergence is measured, not proved"]
    rng = chk.rng
    drv = core.Driver()
    pub = lambda c: {k: v for k, v in c.items() if not k.startswith("_")}
    N = 150 if chk.quick else 2000
    lines, meta = [], []
    for _ in range(N):
        c = gen_curve(rng)
        sn, kw = build(c)
        nb = rng.choice([1, 2, 3, 5, 8, 20, 40])
        sr = [10 ** rng.uniform(0, 2.7) for _ in range(nb)]
        cnt = [float(rng.choice([0.5, 1.0, 2.0, rng.randint(1, 10 ** 6)])) for _ in range(nb)]
        td = rng.choice([1.0, 1.0, 3600.0, 1 / 3600.0])
        scf = rng.choice([1.0, 1.0, 1.15, 2.0, round(rng.uniform(1, 3), 3)])
        th = None
        if c["t_ref"] is not None and rng.random() < 0.7:
            th = rng.choice([c["t_ref"], 0.5 * c["t_ref"], 2 * c["t_ref"], 100.0])
        elif c["t_ref"] is None and rng.random() < 0.1:
            th = 30.0   # must be refused
        hist = " ".join(fbits(a) + " " + fbits(b) for a, b in zip(sr, cnt))
        lines.append("sn.minersum %s %s %s %s %s" % (curve_tokens(c, sn), fbits(td), fbits(scf), "-" if th is None else fbits(th), hist))
        meta.append((c, sn, kw, sr, cnt, td, scf, th))
    outs = drv.run(lines)
    for (c, sn, kw, sr, cnt, td, scf, th), o in zip(meta, outs):
        chk.count("sn.minersum")
        inp = dict(curve=pub(c), srange=sr, count=cnt, td=td, scf=scf, th=th)
        if c["m2"] is not None or scf > 1 or (th and c["t_ref"] and th > c["t_ref"]):
            chk.nontriv(repr(inp))
        chk.dist("%s:scf%s:%s" % ("bilinear" if c["m2"] else "single", ">1" if scf > 1 else "=1",
                                  "th=None" if th is None else "th"))
        try:
            d = float(minersum(sr, cnt, sn, td=td, scf=scf, th=th))
        except ValueError:
            d = "err value"
        if not close(val(o), d, 1e-9):
            chk.disagree("sn.minersum", inp, val(o), d)
        if isinstance(d, str):
            continue
        if len(chk.samples) < 3 and len(sr) <= 3:
            chk.sample(dict(inp, damage=d))
        # --- oracles --------------------------------------------------------------------------------------------
        d_dict = float(minersum(sr, cnt, dict(kw), td=td, scf=scf, th=th))
        if not close(d_dict, d, 1e-12):
            chk.fail("curve given as parameters (dict) or object gives identical damage", inp, d, d_dict)
        if th is None:
            d_call = float(minersum(sr, cnt, sn.n, td=td, scf=scf))
            if not close(d_call, d, 1e-12):
                chk.fail("curve given as function gives identical damage", inp, d, d_call)
        dd, bins = minersum(sr, cnt, sn, td=td, scf=scf, th=th, retbins=True)
        exp_bins = [td * k / float(sn.n(s * scf, t=th)) for s, k in zip(sr, cnt)]
        if not all(close(float(a), b, 1e-12) for a, b in zip(bins, exp_bins)) or not close(float(sum(bins)), d, 1e-12):
            chk.fail("damage per bin == td*count/N(s*scf, t) and total == their sum", inp, exp_bins[:3], [float(b) for b in bins[:3]])
        k = rng.randint(0, len(sr))
        parts = (float(minersum(sr[:k], cnt[:k], sn, td=td, scf=scf, th=th)) if k else 0.0) + \
                (float(minersum(sr[k:], cnt[k:], sn, td=td, scf=scf, th=th)) if k < len(sr) else 0.0)
        if not close(parts, d, 1e-11):
            chk.fail("additive over any split of the histogram", dict(inp, split=k), d, parts)
        lin = float(minersum(sr, [3.0 * x for x in cnt], sn, td=2.0 * td, scf=scf, th=th))
        if not close(lin, 6.0 * d, 1e-11):
            chk.fail("linear in counts and duration", inp, 6.0 * d, lin)
        arr_s, arr_c = np.array(sr, dtype=float), np.array(cnt, dtype=float)
        d_a1 = float(minersum(arr_s, arr_c, sn, td=td, scf=scf, th=th))
        d_a2 = float(minersum(arr_s, arr_c, sn, td=td, scf=scf, th=th))
        if not (np.array_equal(arr_s, np.array(sr, dtype=float)) and np.array_equal(arr_c, np.array(cnt, dtype=float)) and
                close(d_a1, d, 1e-12) and close(d_a2, d, 1e-12)):
            chk.fail("damage of a histogram given as float arrays equals that of the lists, on every call (inputs are not modified)",
                     inp, d, [d_a1, d_a2])
        sc = float(minersum([s * scf for s in sr], cnt, sn, td=td, scf=1.0, th=th))
        if not close(sc, d, 1e-11):
            chk.fail("scf equivalent to scaling the stress ranges", inp, d, sc)
    # ---- closed form -----------------------------------------------------------------------------------------------
    M = 40 if chk.quick else 400
    glines, gmeta = [], []
    for _ in range(M):
        c = gen_curve(rng)
        sn, kw = build(c)
        q = 10 ** rng.uniform(0.3, 1.6)
        h = rng.choice([0.8, 1.0, 1.2, round(rng.uniform(0.6, 2.0), 3)])
        v0 = rng.choice([0.1, 0.125, 1.0])
        td = rng.choice([None, 3600.0, 1.0])
        scf = rng.choice([1.0, 1.25, 2.0])
        th = rng.choice([None, 2 * c["t_ref"], c["t_ref"]]) if c["t_ref"] is not None else None
        try:
            d = float(minersum_weibull(q, h, sn, v0, td=td, scf=scf, th=th))
        except Exception as e:
            d = "err:" + type(e).__name__
        tdv = 3600. * 24 * 365 if td is None else td
        tc = 1.0 if th is None else float(sn.thickness_correction(th))
        qq = q * scf * tc
        inp = dict(curve=pub(c), q=q, h=h, v0=v0, td=td, scf=scf, th=th)
        if c["m2"] is None:
            glines.append("gen.sn_mw_single %s" % " ".join(fbits(x) for x in (float(sn.a1), h, c["m1"], qq, tdv, v0)))
        else:
            x = (float(sn.sswitch) / qq) ** h
            a1_, a2_ = 1 + c["m1"] / h, 1 + c["m2"] / h
            g1 = gammaincc(a1_, x) * gamma(a1_)
            g2 = gammainc(a2_, x) * gamma(a2_)
            glines.append("gen.sn_mw_bilinear %s" % " ".join(fbits(v) for v in (float(sn.a1), float(sn.a2), g1, g2, c["m1"], c["m2"], qq, tdv, v0)))
        gmeta.append((inp, c, sn, d, qq, h, v0, tdv, scf, th, q))
    gouts = drv.run(glines)
    for (inp, c, sn, d, qq, h, v0, tdv, scf, th, q), o in zip(gmeta, gouts):
        chk.count("sn.minersum_weibull")
        chk.nontriv(repr(inp))
        chk.dist("closed-form:%s" % ("bilinear" if c["m2"] else "single"))
        if not close(val(o), d, 1e-9):
            chk.disagree("sn.minersum_weibull", inp, val(o), d)
        if isinstance(d, str):
            chk.fail("minersum_weibull must not raise for valid input", inp, "damage", d)
            continue
        # measurement: histogram damage of a fine discretisation of the Weibull distribution (cdf differences as counts)
        smax = q * (-math.log(1e-14)) ** (1 / h)
        nb = 40000
        edges = np.linspace(0.0, smax, nb + 1)
        cdf = 1 - np.exp(-(edges / q) ** h)
        counts = v0 * tdv * np.diff(cdf)
        mids = 0.5 * (edges[:-1] + edges[1:])
        dh = float(minersum(mids, counts, sn, td=1.0, scf=scf, th=th))
        if not close(dh, d, 2e-3):
            chk.fail("closed-form Weibull damage == histogram damage of a fine discretisation (40000 bins, rel 2e-3)", inp, dh, d)
    # ---- Goodman-Haigh -----------------------------------------------------------------------------------------------
    G = 300 if chk.quick else 5000
    gl, gm = [], []
    for _ in range(G):
        uts = 10 ** rng.uniform(1.5, 3.2)
        n = rng.choice([1, 2, 5])
        rows = [(10 ** rng.uniform(-1, 2.5), rng.choice([0.0, rng.uniform(-0.9, 0.9) * uts])) for _ in range(n)]
        for r, m in rows:
            gl.append("gen.gh_corrected %s %s %s" % (fbits(m), fbits(r), fbits(uts)))
        gm.append((uts, rows))
    go = drv.run(gl)
    i = 0
    for uts, rows in gm:
        arr = np.array(rows, dtype=float)
        got = goodman_haigh(arr, uts)
        again = goodman_haigh(arr, uts)          # same (float) array passed again, as with count_cycles(...)[:, :2]
        if not (np.array_equal(arr, np.array(rows, dtype=float)) and np.array_equal(got, again)):
            chk.fail("effective range == range*uts/(uts-mean) on every call (the input table is not modified)",
                     dict(cycles=rows, uts=uts), [float(v) for v in got], [float(v) for v in again])
        chk.count("gh")
        inp = dict(cycles=rows, uts=uts)
        for j, (r, m) in enumerate(rows):
            mv = val(go[i])
            i += 1
            g = float(got[j])
            if not close(mv, g, 1e-12):
                chk.disagree("gh_corrected", inp, mv, g)
            if m == 0.0 and not close(g, r, 1e-14):
                chk.fail("zero-mean cycles unchanged", inp, r, g)
            if not close(g, r * uts / (uts - m), 1e-12):
                chk.fail("effective range == range*uts/(uts-mean)", inp, r * uts / (uts - m), g)
            if m > 0 and not g > r:
                chk.fail("tensile mean stress enlarges the effective range", inp, "> %r" % r, g)
            chk.count("gh-row")
            if m != 0.0:
                chk.nontriv((r, m, uts))
        k = 1000.0
        got2 = goodman_haigh(np.array([(r * k, m * k) for r, m in rows]), uts * k)
        if not all(close(float(a), float(b) * k, 1e-12) for a, b in zip(got2, got)):
            chk.fail("independent of the stress unit", inp, [float(b) * k for b in got], [float(a) for a in got2])
        if got.shape != (len(rows),):
            chk.fail("one corrected range per cycle", inp, (len(rows),), got.shape)
    # integer cycle tables (whole MPa) are corrected like float ones
    for _ in range(30 if chk.quick else 300):
        uts = float(rng.randint(200, 900))
        rows = [(rng.randint(1, 150), rng.choice([0, rng.randint(-100, 150)])) for _ in range(rng.choice([1, 2, 4]))]
        gi = goodman_haigh(np.array(rows), int(uts))
        gf = goodman_haigh(np.array(rows, dtype=float), uts)
        gl = goodman_haigh([list(r) for r in rows], uts)
        chk.count("gh-int")
        exp = [r * uts / (uts - m) for r, m in rows]
        if not (np.allclose(np.asarray(gi, dtype=float), exp, rtol=1e-12) and np.allclose(gf, exp, rtol=1e-12) and np.allclose(np.asarray(gl, dtype=float), exp, rtol=1e-12)):
            chk.fail("effective range == range*uts/(uts-mean) also for integer-valued cycle tables", dict(cycles=rows, uts=uts), exp,
                     [np.asarray(gi, dtype=float).tolist(), np.asarray(gf).tolist()])
    chk.sample(dict(cycles=gm[0][1], uts=gm[0][0]))


def replay(rp):
    from qats.fatigue.sn import minersum, minersum_weibull
    inp = rp["input"]
    bad = 0
    if "srange" in inp:
        sn, kw = build(inp["curve"])
        sr, cnt = inp["srange"], inp["count"]
        d = float(minersum(sr, cnt, sn, td=inp["td"], scf=inp["scf"], th=inp["th"]))
        exp = sum(inp["td"] * k / float(sn.n(s * inp["scf"], t=inp["th"])) for s, k in zip(sr, cnt))
        print("minersum =", d, " sum of td*count/N =", exp)
        if not close(d, exp, 1e-11):
            bad += 1
        sc = float(minersum([s * inp["scf"] for s in sr], cnt, sn, td=inp["td"], scf=1.0, th=inp["th"]))
        if not close(sc, d, 1e-11):
            print("FAILS: scf as scaling")
            bad += 1
    elif "q" in inp:
        sn, kw = build(inp["curve"])
        d = float(minersum_weibull(inp["q"], inp["h"], sn, inp["v0"], td=inp["td"], scf=inp["scf"], th=inp["th"]))
        tdv = 3600. * 24 * 365 if inp["td"] is None else inp["td"]
        q, h = inp["q"], inp["h"]
        edges = np.linspace(0.0, q * (-math.log(1e-14)) ** (1 / h), 40001)
        counts = inp["v0"] * tdv * np.diff(1 - np.exp(-(edges / q) ** h))
        dh = float(minersum(0.5 * (edges[:-1] + edges[1:]), counts, sn, td=1.0, scf=inp["scf"], th=inp["th"]))
        print("closed form", d, "discretised", dh)
        if not close(dh, d, 2e-3):
            bad += 1
    print("replay: %d failing clause(s)" % bad)
    return 1 if bad else 0
