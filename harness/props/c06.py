"""
C06 — Miner damage is additive and agrees between histogram and closed form.

Tie: translator (minersum_weibull closed forms, goodman_haigh) + Float correspondence of `minersum` (dict / object /
callable, retbins), `minersum_weibull` (model fed with scipy's Γ, P, Q values) and `goodman_haigh`.
Search: additivity, linearity, scf-as-scaling, closed form vs finely discretised Weibull histogram (a measurement of
the Riemann-sum limit, labelled as such), Goodman–Haigh laws.

Audit additions (input classes inside the quantifier that the first generators did not reach):
* spelling: histograms / curve parameters / td / scf / thickness as int, float, numpy scalars; lists, tuples, int and float
  ndarrays, non-contiguous and reversed views, read-only arrays; positional and keyword calls (`spell`, `wspell`, `gh`);
* boundaries: empty histogram, bins of zero range or zero count, bins next to the transition stress, duration / rate 0,
  Weibull shapes 0.5 … 5 and scales far below / above the transition, means next to uts, empty cycle table, other stress
  units (2^±200, 1e±6);
* histories on ONE curve object / dict / pair of arrays (`history`): other settings between identical calls, rejected calls
  followed by valid ones, closed form and histogram damage interleaved;
* references computed independently of qats (`ref_bins`, `ref_weibull`);
* every exception raised by the implementation becomes a failing clause.

Audit round 8 (size-conditioned code paths): `long` / `gh-long` = histograms and cycle tables of 999 ... 131073 bins / rows
(c06_long.py), clauses evaluated exactly per bin; failing inputs carry (n, seed, events), not the data.
"""
import math

import numpy as np

from .. import core
from ..core import fbits, unfbits
from .c05 import build, close, curve_tokens, gen_curve, model_loga1, val

USES_TRANSLATOR = True
ANCHOR_PREFIX = ("sn_", "gh_")
RULE = ("seeded S-N curves x random histograms (1-40 bins) x scf in [1,3] x thickness (none / below / at / above reference) x every "
        "documented form of the `sn` argument (dict, SNCurve, bound method, lambda, callable object, plain object exposing n(); "
        "thickness passed through th / args / kwds); Weibull (q,h) x curves x thickness below/at/above reference for the closed "
        "form (curve as object and as dict, repeated calls); random cycle tables for Goodman-Haigh; corpus cases first; "
        "non-trivial = bilinear curve or scf>1 or thickness above reference; distinct by full input. "
        "Audit streams: `spell` = integer-valued histograms / curves / td / scf / thickness x container (list, tuple, int / float "
        "ndarray, column view, reversed view, read-only, list of numpy scalars) x scalar type (int, float, np.float64, np.int64) x "
        "keyword / positional call, bins of zero range / zero count / next to the transition stress, empty histogram; `history` = "
        "6-12 calls on one SNCurve / dict / array pair with 2-3 settings recurring (all six forms, closed form interleaved, "
        "rejected calls, direct queries of the curve in between); `wspell` = closed form with int / numpy-scalar / positional "
        "arguments, duration or rate 0, shape 0.5-5, scale 0.01-100 x transition stress; `gh` = cycle tables as views of an (n,3) "
        "rainflow table, tuples, lists, int / read-only / Fortran arrays, uts as int / numpy scalar, means up to 0.999 uts, "
        "zero ranges, empty table, units 2^+-200 / 1e+-6 / ksi, a second ultimate strength in between; `gh-signal` = "
        "count_cycles(signal)[:, :2] as documented; `long` / `gh-long` = histograms / cycle tables of 999, 1000, 1001, 1023, 1024, "
        "1025, 4095, 4096, 4097, 9999, 10000, 10001 and 65535 ... 131073 bins / rows (flat, spread over both branches, or the "
        "graded Weibull discretisation), dominant / transition-stress / zero-count / zero-range bins and near-uts / zero-mean "
        "rows in the first and last elements, at multiples of 1000 / 1024 / 4096 / 10000 / 65536 and in pairs spanning them; "
        "counts as float / int32 / int64, views, lists, read-only")


class _CapObj(object):
    """user-defined capacity model: NOT an SNCurve, NOT callable, exposes n() (third documented form of `sn`)"""
    def __init__(self, sn):
        self._sn = sn

    def n(self, s, t=None):
        return self._sn.n(s, t=t)


class _CapCall(object):
    """user-defined capacity model given as a callable object"""
    def __init__(self, sn):
        self._sn = sn

    def __call__(self, s, t=None):
        return self._sn.n(s, t=t)


FORMS = ("dict", "SNCurve", "bound method", "lambda", "callable object", "object with n()")


def sn_forms(sn, kw, th, via):
    """every documented way of handing the same curve to minersum: (label, sn argument, extra keyword arguments).
    dict / SNCurve take the thickness as `th`; the other forms take it through `args` or `kwds` (as documented)."""
    thx = {} if th is None else (dict(args=(th,)) if via == "args" else dict(kwds=dict(t=th)))
    return [("dict", dict(kw), dict(th=th)),
            ("SNCurve", sn, dict(th=th)),
            ("bound method", sn.n, thx),
            ("lambda", (lambda s, t=None: sn.n(s, t=t)), thx),
            ("callable object", _CapCall(sn), thx),
            ("object with n()", _CapObj(sn), thx)]


def weibull_clauses(minersum_weibull, sn, kw, q, h, v0, td, tdv, scf, th, d):
    """closed-form clauses that need no discretisation: curve as dict or object, repeated call on the same curve object,
    scf == scaling the stress ranges (i.e. the Weibull scale), linear in cycle rate and duration."""
    bad = []
    try:
        d_dict = float(minersum_weibull(q, h, dict(kw), v0, td=td, scf=scf, th=th))
        d_again = float(minersum_weibull(q, h, sn, v0, td=td, scf=scf, th=th))
        d_scaled = float(minersum_weibull(q * scf, h, sn, v0, td=td, scf=1.0, th=th))
        d_lin = float(minersum_weibull(q, h, sn, 3.0 * v0, td=2.0 * tdv, scf=scf, th=th))
    except Exception as e:      # noqa
        return [("minersum_weibull must not raise for valid input", "damage", "raised %s: %s" % (type(e).__name__, e))]
    if not close(d_dict, d, 1e-12):
        bad.append(("closed form: curve given as parameters (dict) or object gives identical damage", d, d_dict))
    if not close(d_again, d, 1e-12):
        bad.append(("closed form: same damage on every call with the same curve object", d, d_again))
    if not close(d_scaled, d, 1e-10):
        bad.append(("closed form: scf equivalent to scaling the stress ranges (Weibull scale q*scf)", d_scaled, d))
    if not close(d_lin, 6.0 * d, 1e-11):
        bad.append(("closed form: linear in cycle rate and duration", 6.0 * d, d_lin))
    return bad


def check_forms(minersum, sn, kw, sr, cnt, td, scf, th, via, d):
    """clauses 'identical whether the curve is given as parameters, object or function' and 'scf equivalent to scaling the
    stress ranges', for every form. Returns list of (oracle text, form, expected, observed)."""
    bad = []
    scaled = [x * scf for x in sr]
    for label, arg, extra in sn_forms(sn, kw, th, via):
        try:
            d_f = float(minersum(sr, cnt, arg, td=td, scf=scf, **extra))
            d_s = float(minersum(scaled, cnt, arg, td=td, scf=1.0, **extra))
            tot, bins = minersum(sr, cnt, arg, td=td, scf=scf, retbins=True, **extra)
            d_b = float(sum(float(b) for b in bins)) if len(sr) else 0.0
            tot = float(tot)
        except Exception as e:      # noqa
            bad.append(("curve given as parameters, object or function gives identical damage (no form may be refused)", label, d,
                        "raised %s: %s" % (type(e).__name__, e)))
            continue
        if not close(d_f, d, 1e-12):
            bad.append(("curve given as parameters, object or function gives identical damage", label, d, d_f))
        if not close(d_s, d_f, 1e-11):
            bad.append(("scf equivalent to scaling the stress ranges, for every form of the curve argument", label, d_s, d_f))
        if not (close(tot, d, 1e-12) and close(d_b, d, 1e-11) and len(bins) == len(sr)):
            bad.append(("damage per bin (retbins) sums to the total, for every form of the curve argument", label, d, [tot, d_b]))
    return bad


# ======================================================================================================================
# audit additions: independent references, spelling, histories
# ======================================================================================================================
def _isnum(v):
    return isinstance(v, (int, float)) and not isinstance(v, bool)


def _raised(e):
    return "raised %s: %s" % (type(e).__name__, e)


def ref_tcorr(c, th):
    """thickness correction of DNV-RP-C203 eq. 2.4.3, computed without qats"""
    if th is None:
        return 1.0
    t = float(th) if float(th) >= float(c["t_ref"]) else float(c["t_ref"])
    return (t / float(c["t_ref"])) ** float(c["t_exp"])


def ref_capacity(c, S):
    """N(S) of the (bi)linear S-N curve for the effective stress range S, computed without qats (S == 0: no damage)"""
    if S == 0:
        return math.inf
    m1, la1 = float(c["m1"]), float(model_loga1(c))
    try:
        if c["m2"] is None:
            return 10 ** (la1 - m1 * math.log10(S))
        m2, ln = float(c["m2"]), math.log10(c["nswitch"])
        if S >= 10 ** ((la1 - ln) / m1):
            return 10 ** (la1 - m1 * math.log10(S))
        return 10 ** (m2 / m1 * la1 + (1 - m2 / m1) * ln - m2 * math.log10(S))
    except OverflowError:
        return math.inf


def ref_bins(c, sr, cnt, td, scf, th):
    tc = ref_tcorr(c, th)
    return [float(td) * float(k) / ref_capacity(c, float(s) * float(scf) * tc) for s, k in zip(sr, cnt)]


def ref_weibull(c, q, h, v0, td, scf, th):
    """closed form of DNV-RP-C203 eq. F.12-1 from the curve parameters (scipy's gamma functions, nothing from qats)"""
    from scipy.special import gamma, gammainc, gammaincc
    q, h, v0 = float(q), float(h), float(v0)
    tdv = 3600. * 24 * 365 if td is None else float(td)
    qq = q * float(scf) * ref_tcorr(c, th)
    m1, la1 = float(c["m1"]), float(model_loga1(c))
    if c["m2"] is None:
        return float(v0 * tdv * qq ** m1 / 10 ** la1 * gamma(1 + m1 / h))
    m2, ln = float(c["m2"]), math.log10(c["nswitch"])
    sw = 10 ** ((la1 - ln) / m1)
    a2 = 10 ** (m2 / m1 * la1 + (1 - m2 / m1) * ln)
    x = (sw / qq) ** h
    return float(v0 * tdv * (qq ** m1 / 10 ** la1 * gammaincc(1 + m1 / h, x) * gamma(1 + m1 / h) +
                             qq ** m2 / a2 * gammainc(1 + m2 / h, x) * gamma(1 + m2 / h)))


def fine_histogram(q, h, v0, tdv, nb=40000):
    """graded discretisation of the Weibull distribution of stress ranges: edges s = smax*u^3 (u uniform), smax at
    (s/q)^h = 200, counts from differences of the survival function (accurate in the tail). Measured against the closed
    form over h in [0.5, 5], q in [0.01, 100] x transition stress, all curve kinds, scf and thickness: relative
    difference < 5e-7 (tolerance used: 1e-5)."""
    smax = q * 200.0 ** (1.0 / h)
    edges = smax * np.linspace(0.0, 1.0, nb + 1) ** 3
    sf = np.exp(-(edges / q) ** h)
    return 0.5 * (edges[:-1] + edges[1:]), v0 * tdv * (sf[:-1] - sf[1:])


FINE_REL = 1e-5


def as_scalar(v, how):
    if v is None:
        return None
    whole = float(v).is_integer()
    if how == "np.float64":
        return np.float64(v)
    if how == "np.int64":
        return np.int64(v) if whole else np.float64(v)
    if how == "int":
        return int(v) if whole else v
    if how == "float":
        return float(v)
    return v


CONTAINERS = ("list", "tuple", "ndarray", "int-ndarray", "view-col", "view-rev", "readonly", "np-scalar-list")


def as_container(vals, how):
    """the same numbers in another container. Returns (argument, function returning a snapshot of what the caller owns)"""
    vals = list(vals)
    whole = all(float(v).is_integer() for v in vals)
    if how == "tuple":
        arg = tuple(vals)
    elif how == "ndarray":
        arg = np.array(vals, dtype=float)
    elif how == "int-ndarray":
        arg = np.array([int(v) for v in vals], dtype=np.int64) if whole else np.array(vals, dtype=float)
    elif how == "view-col":
        base = np.zeros((len(vals), 3))
        base[:, 1] = vals
        arg = base[:, 1]
    elif how == "view-rev":
        arg = np.array(vals[::-1], dtype=float)[::-1]
    elif how == "readonly":
        arg = np.array(vals, dtype=float)
        arg.setflags(write=False)
    elif how == "np-scalar-list":
        arg = [np.int64(v) if (whole and isinstance(v, int)) else np.float64(v) for v in vals]
    else:
        arg = list(vals)
    return arg, (lambda: (type(arg).__name__, str(getattr(arg, "dtype", "")), [repr(x) for x in arg]))


def floatcurve(c):
    """the same curve with every parameter a python float (c05.build spells the parameters as c["num"] says)"""
    return dict({k: (float(v) if _isnum(v) else v) for k, v in c.items()}, num="float")


def eval_spell(inp):
    """kind 'spell': the same histogram / curve / factors written with other number and container types and passed
    positionally or by keyword. Returns [(oracle text, expected, observed)]."""
    from qats.fatigue.sn import minersum
    bad = []
    c = inp["curve"]
    sr, cnt, td, scf, th = inp["srange"], inp["count"], inp["td"], inp["scf"], inp["th"]
    ref = ref_bins(c, sr, cnt, td, scf, th)
    try:
        snf, _ = build(floatcurve(c))
        d0 = float(minersum([float(x) for x in sr], [float(x) for x in cnt], snf, td=float(td), scf=float(scf),
                            th=None if th is None else float(th)))
        sn, kw = build(c)
        a_s, snap_s = as_container(sr, inp["container"])
        a_c, snap_c = as_container(cnt, inp["container_count"])
        before = (snap_s(), snap_c(), dict(kw))
        curve = dict(kw) if inp["sn_as"] == "dict" else sn
        kwd = curve if inp["sn_as"] == "dict" else None
        td_, scf_, th_ = (as_scalar(v, inp["scalar"]) for v in (td, scf, th))
        res = []
        for _ in range(2):
            if inp["call"] == "pos":
                tot, bins = minersum(a_s, a_c, curve, td_, scf_, th_, True)
                d1 = float(minersum(a_s, a_c, curve, td_, scf_, th_))
            else:
                tot, bins = minersum(a_s, a_c, curve, td=td_, scf=scf_, th=th_, retbins=True)
                d1 = float(minersum(a_s, a_c, curve, td=td_, scf=scf_, th=th_))
            res.append((d1, float(tot), [float(b) for b in bins]))
        after = (snap_s(), snap_c(), dict(kw) if kwd is None else dict(kwd))
    except Exception as e:      # noqa
        return [("minersum must not raise for a valid histogram however the numbers are spelled (int / float / numpy scalars, "
                 "list / tuple / ndarray / view / read-only array, positional / keyword)", "damage %r" % sum(ref), _raised(e))]
    (d1, tot, bins), (d2, tot2, bins2) = res
    if not close(d1, sum(ref), 1e-9):
        bad.append(("damage == sum over bins of td*count/N(s*scf, t) (capacity computed independently of qats)", sum(ref), d1))
    if len(bins) != len(sr) or not all(close(a, b, 1e-9) for a, b in zip(bins, ref)) or not close(tot, d1, 1e-12) or \
            not close(float(sum(bins)) if bins else 0.0, d1, 1e-11):
        bad.append(("damage per bin == td*count/N(s*scf, t) and total == their sum (capacity computed independently of qats)",
                    ref[:4], bins[:4]))
    if not close(d1, d0, 1e-12):
        bad.append(("same damage however the same numbers are spelled (int / float / numpy scalars, list / tuple / ndarray / "
                    "view, positional / keyword)", d0, d1))
    if before != after or not (close(d2, d1, 1e-15) and bins2 == bins and close(tot2, tot, 1e-15)):
        bad.append(("same damage on every call with the same arguments (histogram containers and the curve dict are not modified)",
                    [d1, before], [d2, after]))
    return bad


def gen_spell(rng):
    m1 = rng.choice([3, 4, 5, 3.0])
    bil = rng.random() < 0.7
    thick = rng.random() < 0.7
    c = dict(m1=m1, loga1=rng.choice([12, 12.164, 15.117, 11, 13]),
             m2=rng.choice([5, m1 + 2, m1, 5.0]) if bil else None, nswitch=rng.choice([10 ** 7, 10 ** 6, 2 * 10 ** 6, 1e7]) if bil else None,
             t_exp=rng.choice([0, 0.2, 0.25, 1, 0.1]) if thick else None, t_ref=rng.choice([25, 32, 25.0]) if thick else None,
             ctor=rng.choice(["loga1", "a1", "dict"]), num=rng.choice(["int", "int", "float", "np", "npint"]))
    scf = rng.choice([1, 2, 3, 1.0, 1.5, 1.15])
    th = rng.choice([None, c["t_ref"], 16, 40, 50, 100, 40.0, 12.5]) if thick else None
    nb = rng.choice([0, 1, 2, 3, 6, 12])
    sr = [rng.choice([0, rng.randint(1, 30), rng.randint(1, 400), rng.randint(1, 400)]) for _ in range(nb)]
    if bil and nb and rng.random() < 0.6:
        # bins at / next to the transition stress (after scf and thickness correction); exact ties belong to either branch
        sw = 10 ** ((float(model_loga1(c)) - math.log10(c["nswitch"])) / float(c["m1"])) / (float(scf) * ref_tcorr(c, th))
        for _ in range(rng.choice([1, 2])):
            sr[rng.randrange(nb)] = sw * (1 + rng.choice([0.0, 2.0 ** -50, -2.0 ** -50, 2.0 ** -20, -2.0 ** -20, 0.125, -0.125]))
    if nb > 1 and rng.random() < 0.3:
        sr[rng.randrange(nb)] = sr[rng.randrange(nb)]        # duplicate bin
    cnt = [rng.choice([0, 1, 2, rng.randint(1, 10 ** 6), 0.5]) for _ in range(nb)]
    return dict(kind="spell", curve=c, srange=sr, count=cnt, td=rng.choice([1, 2, 3600, 0, 1.0, 31536000, 0.25]), scf=scf, th=th,
                container=rng.choice(CONTAINERS), container_count=rng.choice(CONTAINERS), sn_as=rng.choice(["SNCurve", "dict"]),
                scalar=rng.choice(["py", "np.float64", "np.int64", "int", "float"]), call=rng.choice(["kw", "kw", "pos"]))


# ---- histories on one curve object -------------------------------------------------------------------------------------
def eval_history(inp):
    """kind 'history': a sequence of calls on ONE SNCurve object, ONE parameter dict and ONE pair of float arrays. After
    every step: damage vs the independent reference, vs the first result for the same setting (whatever form / container was
    used then), closed form vs fine discretisation; the caller's dict / arrays / kwds must stay as they were.
    Returns [(oracle text, step index, expected, observed, is_tie)]."""
    from qats.fatigue.sn import minersum, minersum_weibull
    bad = []
    c = inp["curve"]
    sr, cnt = inp["srange"], inp["count"]
    try:
        sn, kw = build(c)
    except Exception as e:      # noqa
        return [("a valid S-N curve must be accepted", -1, "SNCurve", _raised(e), False)]
    kwd = dict(kw)
    arr_s, arr_c = np.array(sr, dtype=float), np.array(cnt, dtype=float)
    forms = {"SNCurve": sn, "dict": kwd, "bound method": sn.n, "lambda": (lambda s, t=None: sn.n(s, t=t)),
             "callable object": _CapCall(sn), "object with n()": _CapObj(sn)}
    owned = lambda: (dict(kwd), arr_s.tolist(), arr_c.tolist())
    snap = owned()
    first = {}
    for i, st in enumerate(inp["steps"]):
        op = st["op"]
        try:
            if op == "minersum":
                td, scf, th, form = st["td"], st["scf"], st["th"], st["form"]
                if form in ("SNCurve", "dict"):
                    extra = dict(th=th)
                elif th is None:
                    extra = {}
                else:
                    extra = dict(args=(th,)) if st.get("via") == "args" else dict(kwds=dict(t=th))
                kwds_before = repr(extra)
                a_s, a_c = (arr_s, arr_c) if st.get("arrays") else (list(sr), list(cnt))
                if st.get("retbins"):
                    d, bins = minersum(a_s, a_c, forms[form], td=td, scf=scf, retbins=True, **extra)
                    d = float(d)
                    if len(bins) != len(sr) or not close(float(sum(bins)) if len(sr) else 0.0, d, 1e-11):
                        bad.append(("damage per bin (retbins) sums to the total", i, d, [float(b) for b in bins][:4], False))
                else:
                    d = float(minersum(a_s, a_c, forms[form], td=td, scf=scf, **extra))
                ref = sum(ref_bins(c, sr, cnt, td, scf, th))
                if not close(d, ref, 1e-9):
                    bad.append(("damage == sum over bins of td*count/N(s*scf, t) at every call on the same curve object "
                                "(capacity computed independently of qats)", i, ref, d, False))
                key = ("m", td, scf, th)
                if key in first and not close(d, first[key][0], 1e-12):
                    bad.append(("identical damage whether the curve is given as parameters, object or function, on every call "
                                "(step %d gave the curve as %s)" % (first[key][1], first[key][2]), i, first[key][0], d, False))
                first.setdefault(key, (d, i, form))
                if repr(extra) != kwds_before:
                    bad.append(("args / kwds of the caller are not modified", i, kwds_before, repr(extra), False))
            elif op == "weibull":
                q, h, v0, td, scf, th = st["q"], st["h"], st["v0"], st["td"], st["scf"], st["th"]
                d = float(minersum_weibull(q, h, kwd if st.get("as") == "dict" else sn, v0, td=td, scf=scf, th=th))
                tdv = 3600. * 24 * 365 if td is None else td
                key = ("w", q, h, v0, td, scf, th)
                if key in first and not close(d, first[key][0], 1e-12):
                    bad.append(("closed form: same damage on every call with the same arguments (curve as dict or object)", i,
                                first[key][0], d, False))
                first.setdefault(key, (d, i, st.get("as")))
                mids, counts = fine_histogram(float(q), float(h), float(v0), float(tdv))
                dh = float(minersum(mids, counts, sn, td=1.0, scf=scf, th=th))
                if not close(dh, d, FINE_REL):
                    bad.append(("closed-form Weibull damage == histogram damage of a fine discretisation (40000 graded bins, rel 1e-5), "
                                "at every call on the same curve object", i, dh, d, False))
                r = ref_weibull(c, q, h, v0, td, scf, th)
                if not close(d, r, 1e-9):
                    bad.append(("closed form vs DNV-RP-C203 F.12-1 evaluated from the curve parameters", i, r, d, True))
            elif op == "query":
                # other uses of the same curve object between damage calculations
                sn.n(np.array(st["s"], dtype=float), t=st["th"])
                sn.fatigue_strength(st["n"], t=st["th"])
                if st["th"] is not None:
                    sn.thickness_correction(st["th"])
            elif op == "reject":
                # calls that must be refused (whether they are is not part of this property); what follows must be unaffected
                try:
                    if st["what"] == "shape":
                        minersum(arr_s, np.append(arr_c, 1.0), forms[st["form"]])
                    elif st["what"] == "th-with-function":
                        minersum(arr_s, arr_c, sn.n, th=st["th"])
                    elif st["what"] == "th-without-thickness-parameters":
                        minersum(arr_s, arr_c, forms[st["form"]], th=st["th"])
                    else:
                        minersum_weibull(st["q"], st["h"], forms[st["form"]], 1.0, th=st["th"])
                except Exception:       # noqa
                    pass
        except Exception as e:      # noqa
            bad.append(("valid calls on one curve object must not raise, whatever was computed before", i, "damage", _raised(e), False))
        now = owned()
        if now != snap:
            bad.append(("the caller's curve dict and histogram arrays are not modified by a damage calculation", i, snap, now, False))
            snap = now
    return bad


def gen_history(rng):
    c = gen_curve(rng)
    thick = c["t_ref"] is not None
    nb = rng.choice([1, 2, 3, 5, 8])
    sr = [10 ** rng.uniform(0, 2.7) for _ in range(nb)]
    cnt = [float(rng.choice([0.5, 1.0, 2.0, rng.randint(1, 10 ** 6)])) for _ in range(nb)]
    ths = [None] + ([rng.choice([c["t_ref"], 0.5 * c["t_ref"]]), rng.choice([2 * c["t_ref"], 100.0, 1.5 * c["t_ref"]])] if thick else [])
    settings = []
    for _ in range(rng.choice([2, 3])):
        settings.append(dict(td=rng.choice([1.0, 3600.0, 2.0]), scf=rng.choice([1.0, 1.15, 2.0, round(rng.uniform(1, 3), 3)]),
                             th=rng.choice(ths)))
    wsettings = []
    for _ in range(2):
        wsettings.append(dict(q=10 ** rng.uniform(0.3, 1.8), h=rng.choice([0.8, 1.0, 1.2, round(rng.uniform(0.6, 2.0), 3)]),
                              v0=rng.choice([0.1, 0.125, 1.0]), td=rng.choice([None, 3600.0, 1.0]), scf=rng.choice([1.0, 1.25, 2.0]),
                              th=rng.choice(ths)))
    if rng.random() < 0.5:      # same Weibull parameters, another factor / thickness
        wsettings[1] = dict(wsettings[0], scf=rng.choice([1.0, 1.5, 3.0]), th=rng.choice(ths))
    steps = []
    for _ in range(rng.choice([6, 8, 12])):
        r = rng.random()
        if r < 0.55:
            steps.append(dict(op="minersum", form=rng.choice(FORMS), via=rng.choice(["args", "kwds"]), arrays=rng.random() < 0.5,
                              retbins=rng.random() < 0.3, **rng.choice(settings)))
        elif r < 0.8:
            steps.append(dict(op="weibull", **dict(rng.choice(wsettings), **{"as": rng.choice(["object", "dict"])})))
        elif r < 0.9:
            steps.append(dict(op="query", s=[10 ** rng.uniform(0, 2.7) for _ in range(3)], n=10 ** rng.uniform(4, 9), th=rng.choice(ths)))
        else:
            what = rng.choice(["shape", "th-with-function"] + ([] if thick else ["th-without-thickness-parameters", "weibull-th-without-thickness-parameters"]))
            steps.append(dict(op="reject", what=what, form=rng.choice(["SNCurve", "dict"]), th=30.0, q=12.0, h=1.1))
    return dict(kind="history", curve={k: v for k, v in c.items() if not k.startswith("_")}, srange=sr, count=cnt, steps=steps)


# ---- closed form: spelling and boundary values -------------------------------------------------------------------------
def eval_wspell(inp):
    """kind 'wspell': closed form with int / numpy-scalar / positional arguments, duration or cycle rate 0, extreme shapes and
    scales. Returns [(oracle text, expected, observed, is_tie)]."""
    from qats.fatigue.sn import minersum, minersum_weibull
    bad = []
    c = inp["curve"]
    q, h, v0, td, scf, th = inp["q"], inp["h"], inp["v0"], inp["td"], inp["scf"], inp["th"]
    tdv = 3600. * 24 * 365 if td is None else td
    try:
        snf, _ = build(floatcurve(c))
        f = lambda v: None if v is None else float(v)
        d0 = float(minersum_weibull(float(q), float(h), snf, float(v0), td=f(td), scf=float(scf), th=f(th)))
        sn, kw = build(c)
        curve = dict(kw) if inp["sn_as"] == "dict" else sn
        args = [as_scalar(v, inp["scalar"]) for v in (q, h, v0, td, scf, th)]
        shown = repr(args)
        if inp["call"] == "pos":
            d1 = float(minersum_weibull(args[0], args[1], curve, *args[2:]))
            d2 = float(minersum_weibull(args[0], args[1], curve, *args[2:]))
        else:
            d1 = float(minersum_weibull(args[0], args[1], curve, args[2], td=args[3], scf=args[4], th=args[5]))
            d2 = float(minersum_weibull(q=args[0], h=args[1], sn=curve, v0=args[2], td=args[3], scf=args[4], th=args[5]))
        mids, counts = fine_histogram(float(q), float(h), float(v0), float(tdv))
        dh = float(minersum(mids, counts, sn, td=1.0, scf=scf, th=th))
    except Exception as e:      # noqa
        return [("minersum_weibull must not raise for valid input however the numbers are spelled (int / float / numpy scalars, "
                 "positional / keyword)", "damage", _raised(e), False)]
    if not close(d1, d0, 1e-12):
        bad.append(("closed form: same damage however the same numbers are spelled (int / float / numpy scalars, positional / keyword)",
                    d0, d1, False))
    if not close(d2, d1, 1e-15) or repr(args) != shown or (inp["sn_as"] == "dict" and curve != kw):
        bad.append(("closed form: same damage on every call with the same arguments (arguments are not modified)", [d1, shown], [d2, repr(args)], False))
    if float(tdv) == 0 or float(v0) == 0:
        if d1 != 0:
            bad.append(("closed form: linear in cycle rate and duration, hence no damage for duration 0 or rate 0", 0.0, d1, False))
    if not close(dh, d1, FINE_REL):
        bad.append(("closed-form Weibull damage == histogram damage of a fine discretisation (40000 graded bins, rel 1e-5)", dh, d1, False))
    r = ref_weibull(c, q, h, v0, td, scf, th)
    if not close(d1, r, 1e-9):
        bad.append(("closed form vs DNV-RP-C203 F.12-1 evaluated from the curve parameters", r, d1, True))
    return bad


def gen_wspell(rng):
    inp = gen_spell(rng)
    c = inp["curve"]
    sw = 10 ** ((float(model_loga1(c)) - math.log10(c["nswitch"])) / float(c["m1"])) if c["m2"] is not None else 50.0
    whole = rng.random() < 0.5
    if whole:
        q = max(1, int(round(sw * rng.choice([0.1, 0.5, 1, 2, 10]))))
        h = rng.choice([1, 2, 3, 1.0])
    else:
        q = sw * rng.choice([0.01, 0.1, 0.5, 1.0, 2.0, 10.0, 100.0]) * rng.uniform(0.8, 1.25)
        h = rng.choice([0.5, 0.6, 0.8, 1.0, 1.5, 2.0, 3.0, 5.0, round(rng.uniform(0.5, 5.0), 3)])
    scalar = inp["scalar"]
    if (scalar == "np.int64" or c["num"] == "npint") and (float(q) * float(inp["scf"])) ** float(max(c["m1"], c["m2"] or 0)) >= 2.0 ** 62:
        # numpy integers of fixed width overflow silently in q**m when scale, factor and slope all are integers (scales of
        # thousands of MPa only; reported as an observation, not as a violation: the documented type of q is float).
        # Python integers are exact.
        scalar = "int"
        c["num"] = "int"
    return dict(kind="wspell", curve=c, q=q, h=h, v0=rng.choice([1, 0.1, 0.125, 2, 0]), td=rng.choice([None, 0, 1, 3600, 31536000, 2.5]),
                scf=inp["scf"], th=inp["th"], sn_as=inp["sn_as"], scalar=scalar, call=inp["call"])


# ---- Goodman-Haigh: spelling, boundaries, second use ------------------------------------------------------------------
GH_CONTAINERS = ("ndarray", "view3", "list-of-tuples", "tuple-of-tuples", "list-of-lists", "int-ndarray", "readonly", "fortran",
                 "np-scalar-rows")
GH_UNITS = (1000.0, 1e-6, 1e6, 2.0 ** 200, 2.0 ** -200, 0.1450377377, 9.80665)


def gh_container(rows, how):
    whole = all(float(v).is_integer() for r in rows for v in r)
    n = len(rows)
    if how == "view3":
        base = np.zeros((n, 3))
        base[:, 2] = 0.5
        if n:
            base[:, :2] = rows
        arg = base[:, :2]
        return arg, lambda: base.tolist()
    if how == "list-of-tuples":
        arg = [tuple(r) for r in rows]
    elif how == "tuple-of-tuples":
        arg = tuple(tuple(r) for r in rows)
    elif how == "list-of-lists":
        arg = [list(r) for r in rows]
    elif how == "np-scalar-rows":
        arg = [(np.float64(r), np.float64(m)) for r, m in rows]
    elif how == "int-ndarray" and whole:
        arg = np.array([[int(v) for v in r] for r in rows], dtype=np.int64).reshape(n, 2)
    elif how == "fortran":
        arg = np.asfortranarray(np.array(rows, dtype=float).reshape(n, 2))
    else:
        arg = np.array(rows, dtype=float).reshape(n, 2)
        if how == "readonly":
            arg.setflags(write=False)
    if n == 0 and not isinstance(arg, np.ndarray):
        arg = np.empty((0, 2))          # an empty table has shape (0, 2) only as an array
    return arg, (lambda: (str(getattr(arg, "dtype", "")), [[repr(v) for v in r] for r in arg]))


def eval_gh(inp):
    """kind 'gh': the Goodman-Haigh clauses on one cycle table given in some container, with a second ultimate strength used
    in between, and in other stress units. Returns [(oracle text, expected, observed)]."""
    from qats.fatigue.corrections import goodman_haigh
    bad = []
    rows, uts = [tuple(r) for r in inp["cycles"]], inp["uts"]
    n = len(rows)
    exp = [float(r) * float(uts) / (float(uts) - float(m)) for r, m in rows]
    try:
        arg, snap = gh_container(rows, inp.get("container", "ndarray"))
        before = snap()
        u = as_scalar(uts, inp.get("uts_as", "py"))
        got = goodman_haigh(arg, u)
        shape = tuple(np.shape(got))
        got = [float(v) for v in np.asarray(got, dtype=float).ravel()]
        other = goodman_haigh(arg, as_scalar(inp["uts2"], inp.get("uts_as", "py"))) if inp.get("uts2") is not None else None
        again = [float(v) for v in np.asarray(goodman_haigh(arg, u), dtype=float).ravel()]
        after = snap()
        scaled = {}
        for k in inp.get("units", []):
            a2, _ = gh_container([(float(r) * k, float(m) * k) for r, m in rows], "ndarray" if inp.get("container") == "int-ndarray" else inp.get("container", "ndarray"))
            scaled[k] = [float(v) for v in np.asarray(goodman_haigh(a2, float(uts) * k), dtype=float).ravel()]
    except Exception as e:      # noqa
        return [("goodman_haigh must not raise for a cycle table of shape (n, 2) and uts above the largest mean", exp[:4], _raised(e))]
    if shape != (n,):
        bad.append(("one corrected range per cycle", (n,), shape))
        return bad
    if not all(close(g, e, 1e-12) for g, e in zip(got, exp)):
        bad.append(("effective range == range*uts/(uts-mean)", exp[:6], got[:6]))
    if not all(close(g, float(r), 1e-14) for g, (r, m) in zip(got, rows) if float(m) == 0.0):
        bad.append(("zero-mean cycles unchanged", [float(r) for r, m in rows][:6], got[:6]))
    if not all(g > float(r) for g, (r, m) in zip(got, rows) if float(m) > 0 and float(r) > 0):
        bad.append(("tensile mean stress enlarges the effective range", [float(r) for r, m in rows][:6], got[:6]))
    if before != after or again != got:
        bad.append(("effective range == range*uts/(uts-mean) on every call (the input table is not modified, another ultimate "
                    "strength may be used in between)", [got[:6], before], [again[:6], after]))
    if other is not None:
        e2 = [float(r) * float(inp["uts2"]) / (float(inp["uts2"]) - float(m)) for r, m in rows]
        o2 = [float(v) for v in np.asarray(other, dtype=float).ravel()]
        if len(o2) != n or not all(close(g, e, 1e-12) for g, e in zip(o2, e2)):
            bad.append(("effective range == range*uts/(uts-mean) for a second ultimate strength on the same table", e2[:6], o2[:6]))
    for k, sc in scaled.items():
        if len(sc) != n or not all(close(a, b * k, 1e-12) for a, b in zip(sc, got)):
            bad.append(("independent of the stress unit (ranges, means and uts times %r)" % k, [b * k for b in got][:6], sc[:6]))
    return bad


def gen_gh(rng):
    whole = rng.random() < 0.35
    n = rng.choice([0, 1, 2, 3, 5, 9])
    if whole:
        uts = rng.randint(200, 900)
        rows = [(rng.choice([0, rng.randint(1, 150)]), rng.choice([0, 0, rng.randint(-150, 150), uts - 1])) for _ in range(n)]
    else:
        uts = 10 ** rng.uniform(1.5, 3.2)
        rows = [(rng.choice([0.0, 10 ** rng.uniform(-1, 2.5), 10 ** rng.uniform(-1, 2.5)]),
                 rng.choice([0.0, -0.0, rng.uniform(-0.9, 0.9) * uts, 0.999 * uts, -3.0 * uts, uts * 2.0 ** -30])) for _ in range(n)]
    top = max([float(m) for r, m in rows] + [0.0])
    uts2 = rng.choice([None, uts * 2, top + 1.0, uts + 0.5])
    return dict(kind="gh", cycles=[list(r) for r in rows], uts=uts, uts2=uts2, container=rng.choice(GH_CONTAINERS),
                uts_as=rng.choice(["py", "np.float64", "np.int64", "int", "float"]),
                units=rng.sample(GH_UNITS, 2))


def eval_gh_signal(inp):
    """kind 'gh-signal': the documented use, goodman_haigh(count_cycles(series)[:, :2], uts).
    Returns (skipped?, [(oracle text, expected, observed)])"""
    from qats.fatigue.corrections import goodman_haigh
    from qats.fatigue.rainflow import count_cycles
    try:
        cyc = count_cycles(np.array(inp["signal"], dtype=float))
    except Exception:       # noqa  (cycle counting is the subject of C02, not of this property)
        return True, []
    if cyc.ndim != 2 or cyc.shape[1] != 3 or len(cyc) == 0:
        return True, []
    uts = float(np.max(cyc[:, 1])) + inp["margin"]
    keep = cyc.copy()
    exp = [float(r) * uts / (uts - float(m)) for r, m, _ in keep]
    try:
        got = goodman_haigh(cyc[:, :2], uts)
        again = goodman_haigh(cyc[:, :2], uts)
    except Exception as e:      # noqa
        return False, [("goodman_haigh(count_cycles(series)[:, :2], uts) must not raise for uts above the largest mean", exp[:4], _raised(e))]
    bad = []
    if np.shape(got) != (len(keep),) or not all(close(float(g), e, 1e-12) for g, e in zip(got, exp)):
        bad.append(("effective range == range*uts/(uts-mean) for the first two columns of a rainflow cycle table", exp[:6],
                    [float(g) for g in np.ravel(got)][:6]))
    if not np.array_equal(cyc, keep) or not np.array_equal(np.asarray(got), np.asarray(again)):
        bad.append(("effective range on every call (the rainflow cycle table is not modified)", keep.tolist()[:4], cyc.tolist()[:4]))
    return False, bad


AUDIT_EVAL = dict(spell=eval_spell, history=eval_history, wspell=eval_wspell, gh=eval_gh)


def run_audit(chk, corpus):
    """the audit streams; corpus cases of each kind first"""
    rng = chk.rng
    quick = chk.quick
    spelled = []
    plan = (("spell", gen_spell, 400 if quick else 5000), ("history", gen_history, 80 if quick else 800),
            ("wspell", gen_wspell, 120 if quick else 1500), ("gh", gen_gh, 400 if quick else 5000))
    for kind, gen, n in plan:
        cases = [dict(c) for c in corpus if c.get("kind") == kind]
        chk.count("corpus", len(cases))
        cases += [gen(rng) for _ in range(n)]
        for inp in cases:
            inp.pop("note", None)
            try:
                res = AUDIT_EVAL[kind](inp)
            except Exception as e:      # noqa  (anything that escapes the evaluators is reported on this input, never as a crash)
                res = [("the damage calculation must not raise for valid input", "a result", _raised(e))]
            chk.count(kind, len(inp["steps"]) if kind == "history" else 1)
            chk.nontriv(repr(inp))
            if kind == "spell":
                spelled.append(inp)
                chk.dist("spell:%s/%s:%s:%s:%s" % (inp["container"], inp["container_count"], inp["scalar"], inp["call"], inp["sn_as"]))
                chk.dist("spell-bins:%d" % min(len(inp["srange"]), 3))
            elif kind == "history":
                for st in inp["steps"]:
                    chk.dist("history-step:%s" % (st["op"] + (":" + st["form"] if st["op"] == "minersum" else "")))
            elif kind == "wspell":
                chk.dist("wspell:%s:%s:td=%s" % (inp["scalar"], inp["call"], "None" if inp["td"] is None else "0" if inp["td"] == 0 else ">0"))
            else:
                chk.dist("gh:%s:uts %s:n=%d" % (inp.get("container", "ndarray"), inp.get("uts_as", "py"), min(len(inp["cycles"]), 3)))
            for r in res:
                if kind == "history":
                    text, step, e_, o_, tie = r
                    if tie:
                        chk.disagree("sn.minersum_weibull", dict(inp, step=step), e_, o_)
                    else:
                        chk.fail(text, dict(inp, step=step), e_, o_)
                elif kind == "wspell":
                    text, e_, o_, tie = r
                    if tie:
                        chk.disagree("sn.minersum_weibull", inp, e_, o_)
                    else:
                        chk.fail(text, inp, e_, o_)
                else:
                    chk.fail(r[0], inp, r[1], r[2])
    skipped = 0
    for _ in range(30 if quick else 300):
        n = rng.choice([8, 15, 40])
        sig = [float(rng.randint(-60, 120)) for _ in range(n)] if rng.random() < 0.5 else [rng.uniform(-60, 120) for _ in range(n)]
        inp = dict(kind="gh-signal", signal=sig, margin=rng.choice([1.0, 0.001, 500.0]))
        try:
            skip, res = eval_gh_signal(inp)
        except Exception as e:      # noqa
            skip, res = False, [("goodman_haigh(count_cycles(series)[:, :2], uts) must not raise", "corrected ranges", _raised(e))]
        skipped += bool(skip)
        chk.count("gh-signal")
        for text, e_, o_ in res:
            chk.fail(text, inp, e_, o_)
    if skipped:
        chk.notes.append("gh-signal: %d signals skipped (count_cycles raised or returned no cycle; subject of C02)" % skipped)
    return spelled


def shared_dict_clauses(minersum, sn, kw, sr, cnt, td, scf, th, d):
    """the caller's parameter dict and kwds dict are passed twice (not copies of them) and must come back unchanged"""
    bad = []
    shared, kwds = dict(kw), (None if th is None else dict(t=th))
    r1 = float(minersum(sr, cnt, shared, td=td, scf=scf, th=th))
    r2 = float(minersum(sr, cnt, shared, td=td, scf=scf, th=th))
    r3 = float(minersum(sr, cnt, sn.n, td=td, scf=scf, kwds=kwds))
    r4 = float(minersum(sr, cnt, _CapObj(sn), td=td, scf=scf, kwds=kwds))
    if not (shared == kw and (kwds is None or kwds == dict(t=th))):
        bad.append(("the caller's parameter dict / kwds dict are not modified by a damage calculation", [kw, None if th is None else dict(t=th)],
                    [shared, kwds]))
    if not all(close(r, d, 1e-12) for r in (r1, r2, r3, r4)):
        bad.append(("identical damage when the same parameter dict / kwds dict is passed again", d, [r1, r2, r3, r4]))
    return bad


def _minersum_oracles(chk, rng, minersum, c, sn, kw, sr, cnt, td, scf, th, inp, d):
    if len(chk.samples) < 3 and len(sr) <= 3:
        chk.sample(dict(inp, damage=d))
    # --- oracles --------------------------------------------------------------------------------------------
    d_dict = float(minersum(sr, cnt, dict(kw), td=td, scf=scf, th=th))
    if not close(d_dict, d, 1e-12):
        chk.fail("curve given as parameters (dict) or object gives identical damage", inp, d, d_dict)
    if th is None:
        d_call = float(minersum(sr, cnt, sn.n, td=td, scf=scf))
        if not close(d_call, d, 1e-12):
            chk.fail("curve given as function gives identical damage", inp, d, d_call)
    # every documented form of the curve argument (thickness through th / args / kwds), each with the scf clause
    via = rng.choice(["args", "kwds"])
    for text, label, e_, o_ in check_forms(minersum, sn, kw, sr, cnt, td, scf, th, via, d):
        chk.fail(text, dict(inp, form=label, th_via=via), e_, o_)
    chk.count("sn.minersum-forms", len(FORMS))
    chk.dist("forms:scf%s:%s" % (">1" if scf > 1 else "=1", "th=None" if th is None else "th via " + via))
    dd, bins = minersum(sr, cnt, sn, td=td, scf=scf, th=th, retbins=True)
    exp_bins = [td * k / float(sn.n(s * scf, t=th)) for s, k in zip(sr, cnt)]
    if not all(close(float(a), b, 1e-12) for a, b in zip(bins, exp_bins)) or not close(float(sum(bins)), d, 1e-12):
        chk.fail("damage per bin == td*count/N(s*scf, t) and total == their sum", inp, exp_bins[:3], [float(b) for b in bins[:3]])
    k = rng.randint(0, len(sr))
    parts = (float(minersum(sr[:k], cnt[:k], sn, td=td, scf=scf, th=th)) if k else 0.0) + \
            (float(minersum(sr[k:], cnt[k:], sn, td=td, scf=scf, th=th)) if k < len(sr) else 0.0)
    if not close(parts, d, 1e-11):
        chk.fail("additive over any split of the histogram", dict(inp, split=k), d, parts)
    lin = float(minersum(sr, [3.0 * x for x in cnt], sn, td=2.0 * td, scf=scf, th=th))
    if not close(lin, 6.0 * d, 1e-11):
        chk.fail("linear in counts and duration", inp, 6.0 * d, lin)
    arr_s, arr_c = np.array(sr, dtype=float), np.array(cnt, dtype=float)
    d_a1 = float(minersum(arr_s, arr_c, sn, td=td, scf=scf, th=th))
    d_a2 = float(minersum(arr_s, arr_c, sn, td=td, scf=scf, th=th))
    if not (np.array_equal(arr_s, np.array(sr, dtype=float)) and np.array_equal(arr_c, np.array(cnt, dtype=float)) and
            close(d_a1, d, 1e-12) and close(d_a2, d, 1e-12)):
        chk.fail("damage of a histogram given as float arrays equals that of the lists, on every call (inputs are not modified)",
                 inp, d, [d_a1, d_a2])
    sc = float(minersum([s * scf for s in sr], cnt, sn, td=td, scf=1.0, th=th))
    if not close(sc, d, 1e-11):
        chk.fail("scf equivalent to scaling the stress ranges", inp, d, sc)
    # audit: capacity computed independently of SNCurve.n (a fault shared by minersum and the curve object would cancel above)
    ref = ref_bins(c, sr, cnt, td, scf, th)
    if not all(close(float(a), b, 1e-9) for a, b in zip(bins, ref)) or not close(d, sum(ref), 1e-9):
        chk.fail("damage per bin == td*count/N(s*scf, t) (capacity computed independently of qats)", inp, ref[:3], [float(b) for b in bins[:3]])
    # audit: the caller's parameter dict and kwds are reused, not copied, and must come back unchanged
    for text, e_, o_ in shared_dict_clauses(minersum, sn, kw, sr, cnt, td, scf, th, d):
        chk.fail(text, inp, e_, o_)


def run(chk):
    from qats.fatigue.sn import SNCurve, minersum, minersum_weibull
    from qats.fatigue.corrections import goodman_haigh
    from scipy.special import gamma, gammainc, gammaincc
    chk.extra["rule"] = RULE
    chk.partial += ["bilinear closed form: proved equal to the split integral with the incomplete gamma functions defined as "
                    "integrals (weibull_bilinear_closed_form); that scipy's gammainc/gammaincc compute those integrals is assumed",
                    "closed form == limit of arbitrarily fine discretisation: Riemann-sum convergence is measured, not proved"]
    rng = chk.rng
    drv = core.Driver()
    pub = lambda c: {k: v for k, v in c.items() if not k.startswith("_")}
    N = 150 if chk.quick else 2000
    lines, meta = [], []
    corpus = core.load_corpus("C06")
    fixed = [c for c in corpus if c.get("kind") == "minersum"]
    for i in range(len(fixed) + N):
        if i < len(fixed):
            f = fixed[i]
            c = dict(f["curve"])
            sn, kw = build(c)
            sr, cnt, td, scf, th = [float(x) for x in f["srange"]], [float(x) for x in f["count"]], f["td"], f["scf"], f["th"]
            chk.count("corpus")
        else:
            c = gen_curve(rng)
            sn, kw = build(c)
            nb = rng.choice([1, 2, 3, 5, 8, 20, 40])
            sr = [10 ** rng.uniform(0, 2.7) for _ in range(nb)]
            cnt = [float(rng.choice([0.5, 1.0, 2.0, rng.randint(1, 10 ** 6)])) for _ in range(nb)]
            td = rng.choice([1.0, 1.0, 3600.0, 1 / 3600.0])
            scf = rng.choice([1.0, 1.0, 1.15, 2.0, round(rng.uniform(1, 3), 3)])
            th = None
            if c["t_ref"] is not None and rng.random() < 0.7:
                th = rng.choice([c["t_ref"], 0.5 * c["t_ref"], 2 * c["t_ref"], 100.0])
            elif c["t_ref"] is None and rng.random() < 0.1:
                th = 30.0   # must be refused
        hist = " ".join(fbits(a) + " " + fbits(b) for a, b in zip(sr, cnt))
        lines.append("sn.minersum %s %s %s %s %s" % (curve_tokens(c, sn), fbits(td), fbits(scf), "-" if th is None else fbits(th), hist))
        meta.append((c, sn, kw, sr, cnt, td, scf, th))
    outs = drv.run(lines)
    for (c, sn, kw, sr, cnt, td, scf, th), o in zip(meta, outs):
        chk.count("sn.minersum")
        inp = dict(curve=pub(c), srange=sr, count=cnt, td=td, scf=scf, th=th)
        if c["m2"] is not None or scf > 1 or (th and c["t_ref"] and th > c["t_ref"]):
            chk.nontriv(repr(inp))
        chk.dist("%s:scf%s:%s" % ("bilinear" if c["m2"] else "single", ">1" if scf > 1 else "=1",
                                  "th=None" if th is None else "th"))
        try:
            d = float(minersum(sr, cnt, sn, td=td, scf=scf, th=th))
        except ValueError:
            d = "err value"
        except Exception as e:      # noqa
            d = "err " + type(e).__name__
        if not close(val(o), d, 1e-9):
            chk.disagree("sn.minersum", inp, val(o), d)
        if isinstance(d, str):
            if th is None or c["t_ref"] is not None:
                chk.fail("minersum must not raise for a valid histogram", inp, "damage %r" % sum(ref_bins(c, sr, cnt, td, scf, th)), d)
            continue
        try:
            _minersum_oracles(chk, rng, minersum, c, sn, kw, sr, cnt, td, scf, th, inp, d)
        except Exception as e:      # noqa
            chk.fail("minersum must not raise for a valid histogram (additivity / linearity / scf / form clauses)", inp, d, _raised(e))
    # ---- closed form -----------------------------------------------------------------------------------------------
    M = 40 if chk.quick else 400
    glines, gmeta = [], []
    wfixed = [c for c in corpus if c.get("kind") == "weibull"]
    for i in range(len(wfixed) + M):
        if i < len(wfixed):
            f = wfixed[i]
            c = dict(f["curve"])
            sn, kw = build(c)
            q, h, v0, td, scf, th = f["q"], f["h"], f["v0"], f["td"], f["scf"], f["th"]
            chk.count("corpus")
        else:
            c = gen_curve(rng)
            sn, kw = build(c)
            q = 10 ** rng.uniform(0.3, 1.6)
            h = rng.choice([0.8, 1.0, 1.2, round(rng.uniform(0.6, 2.0), 3)])
            v0 = rng.choice([0.1, 0.125, 1.0])
            td = rng.choice([None, 3600.0, 1.0])
            scf = rng.choice([1.0, 1.25, 2.0])
            # thickness: none / above / at / below the reference (below: the correction is 1 by definition) / a fixed plate
            th = rng.choice([None, 2 * c["t_ref"], c["t_ref"], 0.5 * c["t_ref"], round(rng.uniform(0.2, 1.0) * c["t_ref"], 2), 100.0]) \
                if c["t_ref"] is not None else None
        try:
            d = float(minersum_weibull(q, h, sn, v0, td=td, scf=scf, th=th))
        except Exception as e:
            d = "err:" + type(e).__name__
        tdv = 3600. * 24 * 365 if td is None else td
        tc = 1.0 if th is None else float(sn.thickness_correction(th))
        qq = q * scf * tc
        inp = dict(curve=pub(c), q=q, h=h, v0=v0, td=td, scf=scf, th=th)
        if c["m2"] is None:
            glines.append("gen.sn_mw_single %s" % " ".join(fbits(x) for x in (float(sn.a1), h, c["m1"], qq, tdv, v0)))
        else:
            x = (float(sn.sswitch) / qq) ** h
            a1_, a2_ = 1 + c["m1"] / h, 1 + c["m2"] / h
            g1 = gammaincc(a1_, x) * gamma(a1_)
            g2 = gammainc(a2_, x) * gamma(a2_)
            glines.append("gen.sn_mw_bilinear %s" % " ".join(fbits(v) for v in (float(sn.a1), float(sn.a2), g1, g2, c["m1"], c["m2"], qq, tdv, v0)))
        gmeta.append((inp, c, sn, d, qq, h, v0, tdv, scf, th, q, kw))
    gouts = drv.run(glines)
    for (inp, c, sn, d, qq, h, v0, tdv, scf, th, q, kw), o in zip(gmeta, gouts):
        chk.count("sn.minersum_weibull")
        chk.nontriv(repr(inp))
        chk.dist("closed-form:%s:%s" % ("bilinear" if c["m2"] else "single", "th=None" if th is None or c["t_ref"] is None else
                                        "th<ref" if th < c["t_ref"] else "th=ref" if th == c["t_ref"] else "th>ref"))
        if not close(val(o), d, 1e-9):
            chk.disagree("sn.minersum_weibull", inp, val(o), d)
        if isinstance(d, str):
            chk.fail("minersum_weibull must not raise for valid input", inp, "damage", d)
            continue
        for text, e_, o_ in weibull_clauses(minersum_weibull, sn, kw, q, h, v0, inp["td"], tdv, scf, th, d):
            chk.fail(text, inp, e_, o_)
        # measurement: histogram damage of a fine discretisation of the Weibull distribution (cdf differences as counts)
        smax = q * (-math.log(1e-14)) ** (1 / h)
        nb = 40000
        edges = np.linspace(0.0, smax, nb + 1)
        cdf = 1 - np.exp(-(edges / q) ** h)
        counts = v0 * tdv * np.diff(cdf)
        mids = 0.5 * (edges[:-1] + edges[1:])
        try:
            dh = float(minersum(mids, counts, sn, td=1.0, scf=scf, th=th))
        except Exception as e:      # noqa
            dh = _raised(e)
        if not close(dh, d, 2e-3):
            chk.fail("closed-form Weibull damage == histogram damage of a fine discretisation (40000 bins, rel 2e-3)", inp, dh, d)
    # ---- Goodman-Haigh -----------------------------------------------------------------------------------------------
    G = 300 if chk.quick else 5000
    gl, gm = [], []
    for _ in range(G):
        uts = 10 ** rng.uniform(1.5, 3.2)
        n = rng.choice([1, 2, 5])
        rows = [(10 ** rng.uniform(-1, 2.5), rng.choice([0.0, rng.uniform(-0.9, 0.9) * uts])) for _ in range(n)]
        for r, m in rows:
            gl.append("gen.gh_corrected %s %s %s" % (fbits(m), fbits(r), fbits(uts)))
        gm.append((uts, rows))
    go = drv.run(gl)
    i = 0
    for uts, rows in gm:
        arr = np.array(rows, dtype=float)
        try:
            got = goodman_haigh(arr, uts)
            again = goodman_haigh(arr, uts)          # same (float) array passed again, as with count_cycles(...)[:, :2]
            got2 = goodman_haigh(np.array([(r * 1000.0, m * 1000.0) for r, m in rows]), uts * 1000.0)
            float(got[len(rows) - 1]), float(got2[len(rows) - 1])
        except Exception as e:      # noqa
            chk.fail("goodman_haigh must not raise for a cycle table of shape (n, 2) and uts above the largest mean",
                     dict(cycles=rows, uts=uts), [r * uts / (uts - m) for r, m in rows], _raised(e))
            i += len(rows)
            continue
        if not (np.array_equal(arr, np.array(rows, dtype=float)) and np.array_equal(got, again)):
            chk.fail("effective range == range*uts/(uts-mean) on every call (the input table is not modified)",
                     dict(cycles=rows, uts=uts), [float(v) for v in got], [float(v) for v in again])
        chk.count("gh")
        inp = dict(cycles=rows, uts=uts)
        for j, (r, m) in enumerate(rows):
            mv = val(go[i])
            i += 1
            g = float(got[j])
            if not close(mv, g, 1e-12):
                chk.disagree("gh_corrected", inp, mv, g)
            if m == 0.0 and not close(g, r, 1e-14):
                chk.fail("zero-mean cycles unchanged", inp, r, g)
            if not close(g, r * uts / (uts - m), 1e-12):
                chk.fail("effective range == range*uts/(uts-mean)", inp, r * uts / (uts - m), g)
            if m > 0 and not g > r:
                chk.fail("tensile mean stress enlarges the effective range", inp, "> %r" % r, g)
            chk.count("gh-row")
            if m != 0.0:
                chk.nontriv((r, m, uts))
        k = 1000.0
        if not all(close(float(a), float(b) * k, 1e-12) for a, b in zip(got2, got)):
            chk.fail("independent of the stress unit", inp, [float(b) * k for b in got], [float(a) for a in got2])
        if got.shape != (len(rows),):
            chk.fail("one corrected range per cycle", inp, (len(rows),), got.shape)
    # integer cycle tables (whole MPa) are corrected like float ones
    for _ in range(30 if chk.quick else 300):
        uts = float(rng.randint(200, 900))
        rows = [(rng.randint(1, 150), rng.choice([0, rng.randint(-100, 150)])) for _ in range(rng.choice([1, 2, 4]))]
        chk.count("gh-int")
        exp = [r * uts / (uts - m) for r, m in rows]
        try:
            gi = goodman_haigh(np.array(rows), int(uts))
            gf = goodman_haigh(np.array(rows, dtype=float), uts)
            gl = goodman_haigh([list(r) for r in rows], uts)
        except Exception as e:      # noqa
            chk.fail("goodman_haigh must not raise for an integer-valued cycle table", dict(cycles=rows, uts=uts), exp, _raised(e))
            continue
        try:
            same = (np.allclose(np.asarray(gi, dtype=float), exp, rtol=1e-12) and np.allclose(gf, exp, rtol=1e-12) and
                    np.allclose(np.asarray(gl, dtype=float), exp, rtol=1e-12))
        except Exception:       # noqa  (shapes that do not match)
            same = False
        if not same:
            chk.fail("effective range == range*uts/(uts-mean) also for integer-valued cycle tables", dict(cycles=rows, uts=uts), exp,
                     [np.asarray(gi, dtype=float).tolist(), np.asarray(gf).tolist()])
    chk.sample(dict(cycles=gm[0][1], uts=gm[0][0]))
    # ---- audit streams (spelling / boundaries / histories), with the Lean model on the spelled histograms --------------------
    spelled = run_audit(chk, corpus)
    slines = []
    for inp in spelled:
        c = floatcurve(inp["curve"])
        snf, _ = build(c)
        hist = " ".join(fbits(a) + " " + fbits(b) for a, b in zip(inp["srange"], inp["count"]))
        slines.append("sn.minersum %s %s %s %s %s" % (curve_tokens(c, snf), fbits(inp["td"]), fbits(inp["scf"]),
                                                       "-" if inp["th"] is None else fbits(inp["th"]), hist))
    for inp, o in zip(spelled, drv.run(slines)):
        chk.count("sn.minersum-spelled")
        try:
            sn, _ = build(inp["curve"])
            a_s, _ = as_container(inp["srange"], inp["container"])
            a_c, _ = as_container(inp["count"], inp["container_count"])
            d = float(minersum(a_s, a_c, sn, td=as_scalar(inp["td"], inp["scalar"]), scf=as_scalar(inp["scf"], inp["scalar"]),
                               th=as_scalar(inp["th"], inp["scalar"])))
        except Exception as e:      # noqa
            d = "err " + type(e).__name__
        if not close(val(o), d, 1e-9):
            chk.disagree("sn.minersum", inp, val(o), d)
    # ---- audit round 8: LONG histograms / cycle tables (exact per-bin reference), the Lean model on those up to MODEL_MAX bins
    from . import c06_long
    longs = [inp for inp in c06_long.run_long(chk, corpus) if inp["n"] <= c06_long.MODEL_MAX or (inp["n"] == 65537 and not chk.quick)]
    longs = [inp for inp in longs if inp["n"] <= c06_long.MODEL_MAX][:9 if chk.quick else 40] + [inp for inp in longs if inp["n"] > c06_long.MODEL_MAX][:1]
    llines, ldam = [], []
    for inp in longs:
        c = floatcurve(inp["curve"])
        snf, _ = build(c)
        sr, cnt = c06_long.long_hist(inp)
        hist = " ".join(fbits(float(a)) + " " + fbits(float(b)) for a, b in zip(sr, cnt))
        llines.append("sn.minersum %s %s %s %s %s" % (curve_tokens(c, snf), fbits(inp["td"]), fbits(inp["scf"]),
                                                       "-" if inp["th"] is None else fbits(inp["th"]), hist))
        try:
            ldam.append(float(minersum(sr, cnt, snf, td=inp["td"], scf=inp["scf"], th=inp["th"])))
        except Exception as e:      # noqa
            ldam.append("err " + type(e).__name__)
    for inp, d, o in zip(longs, ldam, drv.run(llines)):
        chk.count("sn.minersum-long")
        if not close(val(o), d, 1e-9):
            chk.disagree("sn.minersum", inp, val(o), d)


def replay(rp):
    from qats.fatigue.sn import minersum, minersum_weibull
    inp = rp["input"]
    bad = 0
    if inp.get("kind") in ("long", "gh-long"):
        from . import c06_long
        bad = c06_long.replay_long(inp)
        print("replay: %d failing clause(s)" % bad)
        return 1 if bad else 0
    if "srange" in inp and inp.get("kind") not in AUDIT_EVAL:
        sn, kw = build(inp["curve"])
        sr, cnt = inp["srange"], inp["count"]
        ref = ref_bins(inp["curve"], sr, cnt, inp["td"], inp["scf"], inp["th"])
        try:
            d = float(minersum(sr, cnt, sn, td=inp["td"], scf=inp["scf"], th=inp["th"]))
            bins = [float(b) for b in minersum(sr, cnt, sn, td=inp["td"], scf=inp["scf"], th=inp["th"], retbins=True)[1]]
        except Exception as e:      # noqa
            print("FAILS: minersum must not raise for a valid histogram: %s (expected damage %r)" % (_raised(e), sum(ref)))
            print("replay: 1 failing clause(s)")
            return 1
        if not close(d, sum(ref), 1e-9) or not all(close(a, b, 1e-9) for a, b in zip(bins, ref)):
            print("FAILS: damage per bin == td*count/N(s*scf, t) (capacity computed independently of qats): expected %r observed %r" % (ref[:4], bins[:4]))
            bad += 1
        k = inp.get("split")
        if k is not None:
            parts = sum(float(minersum(a, b, sn, td=inp["td"], scf=inp["scf"], th=inp["th"])) for a, b in ((sr[:k], cnt[:k]), (sr[k:], cnt[k:])) if len(a))
            if not close(parts, d, 1e-11):
                print("FAILS: additive over the split at bin %d: whole %r parts %r" % (k, d, parts))
                bad += 1
        lin = float(minersum(sr, [3.0 * x for x in cnt], sn, td=2.0 * inp["td"], scf=inp["scf"], th=inp["th"]))
        if not close(lin, 6.0 * d, 1e-11):
            print("FAILS: linear in counts and duration: expected %r observed %r" % (6.0 * d, lin))
            bad += 1
        for text, e_, o_ in shared_dict_clauses(minersum, sn, kw, sr, cnt, inp["td"], inp["scf"], inp["th"], d):
            print("FAILS: %s: expected %r observed %r" % (text, e_, o_))
            bad += 1
        exp = sum(inp["td"] * k / float(sn.n(s * inp["scf"], t=inp["th"])) for s, k in zip(sr, cnt))
        print("minersum =", d, " sum of td*count/N =", exp)
        if not close(d, exp, 1e-11):
            bad += 1
        sc = float(minersum([s * inp["scf"] for s in sr], cnt, sn, td=inp["td"], scf=1.0, th=inp["th"]))
        if not close(sc, d, 1e-11):
            print("FAILS: scf as scaling")
            bad += 1
        for text, label, e_, o_ in check_forms(minersum, sn, kw, sr, cnt, inp["td"], inp["scf"], inp["th"], inp.get("th_via", "args"), d):
            print("FAILS: %s [sn given as %s]: expected %r observed %r" % (text, label, e_, o_))
            bad += 1
    elif "q" in inp and inp.get("kind") not in AUDIT_EVAL:
        sn, kw = build(inp["curve"])
        d = float(minersum_weibull(inp["q"], inp["h"], sn, inp["v0"], td=inp["td"], scf=inp["scf"], th=inp["th"]))
        tdv = 3600. * 24 * 365 if inp["td"] is None else inp["td"]
        q, h = inp["q"], inp["h"]
        edges = np.linspace(0.0, q * (-math.log(1e-14)) ** (1 / h), 40001)
        counts = inp["v0"] * tdv * np.diff(1 - np.exp(-(edges / q) ** h))
        dh = float(minersum(0.5 * (edges[:-1] + edges[1:]), counts, sn, td=1.0, scf=inp["scf"], th=inp["th"]))
        print("closed form", d, "discretised", dh)
        if not close(dh, d, 2e-3):
            print("FAILS: closed form == histogram damage of a fine discretisation")
            bad += 1
        for text, e_, o_ in weibull_clauses(minersum_weibull, sn, kw, q, h, inp["v0"], inp["td"], tdv, inp["scf"], inp["th"], d):
            print("FAILS: %s: expected %r observed %r" % (text, e_, o_))
            bad += 1
    elif inp.get("kind") in AUDIT_EVAL:
        one = dict(inp)
        step = one.pop("step", None)
        for r in AUDIT_EVAL[inp["kind"]](one):
            tie = (inp["kind"] in ("history", "wspell")) and r[-1]
            where = " [step %d: %r]" % (r[1], one["steps"][r[1]] if 0 <= r[1] < len(one["steps"]) else None) if inp["kind"] == "history" else ""
            e_, o_ = (r[2], r[3]) if inp["kind"] == "history" else (r[1], r[2])
            print("%s: %s%s: expected %r observed %r" % ("MODEL/IMPLEMENTATION DIFFER" if tie else "FAILS", r[0], where, e_, o_))
            bad += 0 if tie else 1
    elif inp.get("kind") == "gh-signal":
        skip, res = eval_gh_signal(inp)
        for text, e_, o_ in res:
            print("FAILS: %s: expected %r observed %r" % (text, e_, o_))
            bad += 1
    elif "cycles" in inp:
        # tables of the first Goodman-Haigh streams (float / integer-valued): all clauses through the audit evaluator
        rows = [list(r) for r in inp["cycles"]]
        whole = all(float(v).is_integer() for r in rows for v in r)
        for cont in ("ndarray", "list-of-lists") + (("int-ndarray",) if whole else ()):
            for text, e_, o_ in eval_gh(dict(kind="gh", cycles=rows, uts=inp["uts"], uts2=None, container=cont,
                                             uts_as="int" if cont == "int-ndarray" else "py", units=[1000.0])):
                print("FAILS: %s [table as %s]: expected %r observed %r" % (text, cont, e_, o_))
                bad += 1
    print("replay: %d failing clause(s)" % bad)
    return 1 if bad else 0
