"""C12, long records: the property's clauses on records whose LENGTH is chosen (999 .. 262145 samples: just below / at / above 1000, 1024, 4096,
10000, 65536, and beyond the 80000 samples the other streams never exceed) instead of following from the cut-offs; the cut-offs are then drawn
so that the end transients (~ 60 / min(edge distance, band width) samples, the rule of the other streams) stay well inside the outer fifths.

Besides the clauses of the other streams (steady-state gain from a fit on the central 60 %, mean, purity, linearity on the WHOLE record,
complementary pair, TimeSeries.filter == TimeSeries.get) one clause is evaluated sample by sample: everywhere except the first and last
100 / min(edge, width) samples the filtered sinusoid is  mean*G0 + G A sin(2 pi f t + ph)  (G = squared 5th-order Butterworth magnitude) to
8 TOL — so a block-wise / chunked variant that is wrong at a block boundary (multiples of 1024 / 4096 / 65536 inside the record), or a variant
that switches algorithm beyond a length, is seen wherever in the record it errs.  A failing input is the case's parameters only."""
import math

import numpy as np

SIZES = (999, 1000, 1001, 1023, 1024, 1025, 4095, 4096, 4097, 9999, 10000, 10001, 65535, 65536, 65537, 100001, 131073, 262145)
QUICK = ((1000, 1001, 1023, 1024, 1025), (4095, 4096, 4097, 9999, 10000, 10001), (65535, 65536, 65537), (100001, 131073, 262145))
O_WHOLE = ("away from the ends (everywhere except the first and last 100 / min(edge distance, band width) samples) the filtered sinusoid is, "
           "sample by sample, the input sinusoid times the squared magnitude response of the 5th-order Butterworth filter, with no phase "
           "shift, on the filtered mean (long records)")


def gen_long_case(rng, n, kinds, vias):
    kind = rng.choice(kinds)
    dt = rng.choice([1.0, 0.5, 0.25, 0.1, 0.05, 0.01, 2.0, 10 ** rng.uniform(-3, 1)])
    nyq = 0.5 / dt
    m0 = max(300.0 / n, 0.02) * 1.05
    if kind in ("lp", "hp"):
        fr = [10 ** rng.uniform(math.log10(m0), math.log10(1.0 - m0))]
    else:
        a = rng.uniform(m0, 1.0 - 2.0 * m0 - 1e-3)
        fr = [a, rng.uniform(a + m0, 1.0 - m0)]
    fcs = [nyq * v for v in fr]
    u = rng.random()
    f = rng.choice(fcs) if u < 0.3 else (rng.choice(fcs) * 10 ** rng.uniform(-0.3, 0.3) if u < 0.7 else rng.uniform(0.01, 0.985) * nyq)
    if f not in fcs:
        f = min(0.985 * nyq, max(0.01 * nyq, f))
    level = rng.choice(["signal", "signal", "ts"])
    case = dict(level=level, long=1, kind=kind, dt=dt, fcs=fcs, f=f, A=10 ** rng.uniform(-1, 1), ph=rng.uniform(-math.pi, math.pi),
                mean=rng.choice([0.0, rng.uniform(-5, 5)]), n=n)
    if level == "signal":
        case["extra"] = [rng.uniform(-2, 2), rng.uniform(-2, 2), rng.uniform(0.02, 0.9) * nyq, rng.uniform(-3, 3)]
        if rng.random() < 0.3:
            case["twice"] = True
    else:
        case.update(variant=rng.choice(["plain", "plain", "window"]), k=1, t0=rng.choice([0.0, 0.0, 100.0, -7.5]), via=rng.choice(vias))
    return case


def margin(case, dt, n):
    nyq = 0.5 / dt
    fr = [c / nyq for c in case["fcs"]]
    mf = min(fr[0], 1.0 - fr[-1])
    if len(fr) == 2:
        mf = min(mf, fr[1] - fr[0])
    return int(math.ceil(100.0 / mf))


def whole(case, t, y, H):
    """the sample-by-sample clause on a returned (time, data)"""
    t, y = np.asarray(t, dtype=float), np.asarray(y, dtype=float)
    if t.ndim != 1 or t.shape != y.shape or len(t) < 8:
        return [(H["O_RETURNS"], "time and data of equal length", "%s / %s" % (t.shape, y.shape))]
    dt = float(t[1] - t[0])
    M = margin(case, dt, len(t))
    if 2 * M >= len(t) - 4:
        return []
    G = H["ref_gain"](case["kind"], dt, case["fcs"], case["f"])
    G0 = 1.0 if case["kind"] in ("lp", "bs") else 0.0
    exp = case["mean"] * G0 + G * case["A"] * np.sin(2 * np.pi * case["f"] * t + case["ph"])
    sc = case["A"] + abs(case["mean"])
    d = np.abs(y - exp)[M:len(t) - M]
    if not np.all(d <= 8 * H["TOL"] * sc):          # (also false for nan)
        j = int(np.argmax(np.where(np.isnan(d), np.inf, d))) + M
        return [(O_WHOLE, "sample %d of %d (margin %d): %r" % (j, len(t), M, float(exp[j])), float(y[j]))]
    return []


def long_clauses(case, H):
    """-> [(oracle, expected, observed)]"""
    import qats.signal as qs
    fails = []
    if case["level"] == "signal":
        fl, meas, rec = H["sig_clauses"](case)
        fails += fl
        n, dt = case["n"], case["dt"]
        t = np.arange(n) * dt
        x = case["mean"] + case["A"] * np.sin(2 * np.pi * case["f"] * t + case["ph"])
        x0 = x.copy()
        y, err = H["call"](getattr(qs, H["FUNC"][case["kind"]]), x, dt, *case["fcs"])
        if err is not None:
            return fails + [(H["O_RETURNS"], "array", err)]
        fails += whole(case, t, y, H)
        if not np.array_equal(x, x0):
            fails.append(("the input array is not changed by filtering (long records)", "unchanged", "changed"))
        if case.get("extra"):
            fails += H["extra_clauses"](case, tuple(case["extra"]))[0]
        return fails
    fl, meas, rec, dt2 = H["ts_clauses"](case)
    fails += fl
    built, err = H["call"](lambda: H["ts_build"](case))
    if err is not None:
        return fails + [(H["O_RETURNS"], "a TimeSeries", err)]
    ts, kw = built
    out, err = H["call"](H["ts_route"], ts, case.get("via", "get"), H["ts_fargs"](case), kw)
    if err is not None or not (isinstance(out, (tuple, list)) and len(out) == 2):
        return fails + [(H["O_RETURNS"], "(time, data)", err or type(out).__name__)]
    return fails + whole(case, out[0], out[1], H)


def run_long(chk, H, kinds, vias):
    import os
    if os.environ.get("VERIF_SKIP_LONG"):        # the check as it was before this stream (to compare what each one notices)
        return
    rng = chk.rng
    sizes = [rng.choice(g) for g in QUICK] * 2 + [rng.choice(QUICK[3]) for _ in range(3)] if chk.quick else list(SIZES) * 6
    for n in sizes:
        case = gen_long_case(rng, n, kinds, vias)
        chk.count("long-records")
        chk.nontriv(repr(case))
        chk.dist("long record: %d samples, %s, %s" % (n, case["level"], case["kind"]))
        try:
            fails = long_clauses(case, H)
        except Exception as e:
            fails = [(H["O_RETURNS"], "a filtered signal the clauses can be evaluated on", "%s: %s" % (type(e).__name__, str(e)[:120]))]
        for oracle, exp, obs in fails:
            chk.fail(oracle, case, exp, obs)
