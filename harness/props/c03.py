"""
C03 — cycle counts transform with the signal as physics demands.

Tie: C02's model correspondence (reversals / cycles / count_cycles) on the transformed inputs, plus correspondence of
`signal.find_reversals` with Qats.FindReversals.
Search: metamorphic oracles on the implementation alone, with transformations that are exact in floating point:
shift by an integer, scale by ±2^k, repeat samples, insert in-between samples, recount from the turning points
(`rainflow.reversals` and `signal.find_reversals`).
"""
from fractions import Fraction

import numpy as np

from .. import core
from ..core import rat
from . import c02

RULE = ("seeded random dyadic series (plateaus, ties, random walks) and all words over {0,1,2,3} of length <= 6 (7 thorough); "
        "for each: shift, positive scale, negation, sample repetition, in-between insertion, recount from turning points; "
        "non-trivial = original series has at least one cycle; distinct by series")


def table(x, ep=False):
    from qats.fatigue.rainflow import count_cycles
    c = count_cycles(np.array([float(v) for v in x]), endpoints=ep)
    return sorted(tuple(Fraction(float(v)) for v in row) for row in c)


def is_f8b_shape(seq):
    """F8b: `find_reversals` treats a plateau as ascending, so a plateau next to a descent gets flagged although it is no
    turning point.  `reversals(…, endpoints=True)` drops such points again unless one of them is the first or last
    element of the finder's output, where it is kept as an end point.  The finding matches exactly when
    (i) the finder's output contains flagged samples that are not true turning points, all of them on plateaus
    (equal to a neighbouring sample), (ii) one of them is first or last, and (iii) with those samples removed the recount
    is correct — so any other error of the finder is still reported."""
    from qats.signal import find_reversals
    x = [Fraction(v) for v in seq]
    n = len(x)
    fr, idx = find_reversals(np.array([float(v) for v in x]))
    idx = [int(i) for i in idx]
    # true turning plateaus: maximal runs of equal samples whose neighbours lie strictly on the same side
    runs, i = [], 0
    while i < n:
        j = i
        while j + 1 < n and x[j + 1] == x[i]:
            j += 1
        runs.append((i, j))
        i = j + 1
    true_pos = set()
    for k in range(1, len(runs) - 1):
        a, b, c = x[runs[k - 1][0]], x[runs[k][0]], x[runs[k + 1][0]]
        if (b - a) * (c - b) < 0:
            true_pos.update(range(runs[k][0], runs[k][1] + 1))
    spurious = [i for i in idx if i not in true_pos]
    if not spurious:
        return False
    on_plateau = all((i > 0 and x[i - 1] == x[i]) or (i + 1 < n and x[i + 1] == x[i]) for i in spurious)
    at_end = idx[0] in spurious or idx[-1] in spurious
    cleaned = [x[i] for i in idx if i in true_pos]
    if not (on_plateau and at_end) or len(cleaned) < 2:
        return False
    try:
        return table(cleaned, True) == table(x)
    except Exception:
        return False


def run(chk):
    from qats.signal import find_reversals
    from qats.fatigue.rainflow import reversals
    chk.extra["rule"] = RULE
    chk.assumptions += ["shifts are integers, scale factors ±2^k, samples small dyadic rationals: every transformation and every "
                        "difference/mean in the implementation is exact in binary floating point",
                        "recount clauses are evaluated when at least two turning points exist (fewer points are outside "
                        "count_cycles' domain of >= 2 samples)"]
    chk.partial += ["find_reversals_spec_partial / recount_find_reversals_partial: proved for signals without plateaus; with "
                    "plateaus the finder's extra points are validated by search only (known finding F8b)"]
    chk.matchers["F8b"] = lambda f: f.get("clause") == "recount-find_reversals" and is_f8b_shape(f["input"]["series"])
    drv = core.Driver()
    rng = chk.rng
    cases = [[Fraction(v) for v in c["series"]] for c in core.load_corpus("C03")]
    import itertools
    for n in range(2, (6 if chk.quick else 7) + 1):
        for w in itertools.product([0, 1, 2, 3], repeat=n):
            cases.append([Fraction(v) for v in w])
    for seq, ep in c02.gen_cases(chk):
        if len(seq) >= 2 and len(seq) > 6:
            cases.append(seq)
    # ---- correspondence: find_reversals -------------------------------------------------------------------
    lines = ["sig.find_reversals " + " ".join(rat(v) for v in s) for s in cases]
    outs = drv.run(lines)
    for s, o in zip(cases, outs):
        rev, idx = find_reversals(np.array([float(v) for v in s]))
        got = ";".join("%d:%s" % (i, rat(Fraction(float(v)))) for i, v in zip(idx, rev))
        chk.count("sig.find_reversals")
        if o != ("ok " + got).rstrip() and o.strip() != ("ok " + got).strip():
            chk.disagree("sig.find_reversals", dict(series=[str(v) for v in s]), o, "ok " + got)
    # ---- correspondence of the counting itself on transformed inputs (model = C02's) --------------------------
    tlines, tmeta = [], []
    for s in cases:
        a = Fraction(rng.choice([1, 2, 4, -1, -2]), rng.choice([1, 2, 4]))
        b = Fraction(rng.choice([rng.randint(-8, 8), rng.randint(-8, 8), 2 ** 31, -2 ** 35, 2 ** 40 + 3]))   # all exact in binary64
        t = [a * v + b for v in s]
        tlines.append("rf.count 0 " + " ".join(rat(v) for v in t))
        tmeta.append((s, a, b, t))
    touts = drv.run(tlines)
    for (s, a, b, t), o in zip(tmeta, touts):
        chk.count("rf.count(a*x+b)")
        mt = c02.parse_table(o)
        try:
            it = table(t)
        except Exception as e:
            it = "err:" + type(e).__name__
        if isinstance(mt, str) or isinstance(it, str):
            if isinstance(mt, str) != isinstance(it, str):
                chk.disagree("rf.count(a*x+b)", dict(series=[str(v) for v in t]), str(mt), str(it))
            continue
        if sorted(mt) != it:
            chk.disagree("rf.count(a*x+b)", dict(series=[str(v) for v in t]), str(mt)[:300], str(it)[:300])
        # ---- metamorphic oracles on the implementation ---------------------------------------------------
        inp = dict(series=[str(v) for v in s], a=str(a), b=str(b))
        try:
            base = table(s)
        except Exception as e:
            chk.fail("count_cycles must not raise", inp, "table", type(e).__name__, clause="base")
            continue
        if base:
            chk.nontriv(tuple(s))
        chk.dist("cycles=%s" % ("0" if not base else "1-3" if len(base) <= 3 else ">3"))
        exp = sorted((abs(a) * r, a * m + b, c) for r, m, c in base)
        if it != exp:
            chk.fail("count(a*x+b): ranges |a|*r, means a*m+b, same counts", inp, [list(map(str, r)) for r in exp],
                     [list(map(str, r)) for r in it], clause="affine")
        # repetition / in-between insertion
        t2 = []
        for i, v in enumerate(s):
            t2.append(v)
            k = rng.random()
            if k < 0.3:
                t2.append(v)                       # repeat
            elif k < 0.6 and i + 1 < len(s):
                w = s[i + 1]
                lam = Fraction(rng.choice([0, 1, 2, 3, 4]), 4)
                t2.append(v + lam * (w - v))       # weakly between (dyadic)
        inp2 = dict(series=[str(v) for v in s], refined=[str(v) for v in t2])
        for ep in (False, True):
            try:
                if table(t2, ep) != table(s, ep):
                    chk.fail("inserting repeated / in-between samples changes nothing", dict(inp2, endpoints=ep),
                             [list(map(str, r)) for r in table(s, ep)], [list(map(str, r)) for r in table(t2, ep)],
                             clause="refine")
            except Exception as e:
                chk.fail("inserting repeated / in-between samples changes nothing", dict(inp2, endpoints=ep), "table",
                         type(e).__name__, clause="refine")
        # recount from rainflow.reversals
        xs = [float(v) for v in s]
        rv = list(reversals(xs))
        if len(rv) >= 2:
            r1 = table(rv, True)
            if r1 != base:
                chk.fail("count_cycles(reversals(x), endpoints=True) == count_cycles(x)", inp,
                         [list(map(str, r)) for r in base], [list(map(str, r)) for r in r1], clause="recount-reversals")
        fr, _ = find_reversals(np.array(xs))
        chk.dist("find_reversals:%s" % ("same" if list(fr) == rv else "extra-plateau-points"))
        if len(fr) >= 2 and len(rv) >= 2:
            r2 = table(fr, True)
            if r2 != base:
                chk.fail("count_cycles(find_reversals(x)[0], endpoints=True) == count_cycles(x)", inp,
                         [list(map(str, r)) for r in base], [list(map(str, r)) for r in r2], clause="recount-find_reversals")
        if len(chk.samples) < 4 and base and len(s) > 5:
            chk.sample(dict(series=[str(v) for v in s], a=str(a), b=str(b), refined=[str(v) for v in t2]))


def replay(rp):
    from qats.signal import find_reversals
    from qats.fatigue.rainflow import reversals
    inp = rp["input"]
    s = [Fraction(v) for v in inp["series"]]
    base = table(s)
    bad = 0
    if "a" in inp:
        a, b = Fraction(inp["a"]), Fraction(inp["b"])
        if table([a * v + b for v in s]) != sorted((abs(a) * r, a * m + b, c) for r, m, c in base):
            print("FAILS: affine clause")
            bad += 1
    if "refined" in inp:
        ep = inp.get("endpoints", False)
        if table([Fraction(v) for v in inp["refined"]], ep) != table(s, ep):
            print("FAILS: refinement clause")
            bad += 1
    xs = [float(v) for v in s]
    rv = list(reversals(xs))
    fr, _ = find_reversals(np.array(xs))
    if len(rv) >= 2 and table(rv, True) != base:
        print("FAILS: recount from reversals")
        bad += 1
    if len(rv) >= 2 and len(fr) >= 2 and table(fr, True) != base:
        print("FAILS: recount from find_reversals", "(F8b shape)" if is_f8b_shape(inp["series"]) else "")
        bad += 1
    print("replay: %d failing clause(s)" % bad)
    return 1 if bad else 0
