"""
C03 — cycle counts transform with the signal as physics demands.

Tie: C02's model correspondence (reversals / cycles / count_cycles) on the transformed inputs, plus correspondence of
`signal.find_reversals` with Qats.FindReversals.
Search: metamorphic oracles on the implementation alone, with transformations that are exact in floating point:
shift by an integer, scale by ±2^k, repeat samples, insert in-between samples, recount from the turning points
(`rainflow.reversals` and `signal.find_reversals`).
The same clauses are evaluated through every entry point that counts the cycles of a time series object
(`TimeSeries.rfc()` plain / with a time window spanning the series / second call on the same object and on a second
object built from the same arrays, and the GUI helper `app.funcs.calculate_rfc`), where in-between insertion is also
produced by the library itself (`rfc(resample=dt/2)`: linear interpolation at the half steps, exact for dyadic data);
each entry point is additionally tied to `count_cycles` on the raw samples (correspondence stream `entry==count_cycles`).

Audit extensions (classes of inputs inside the quantifier that the first version did not reach):
* spellings of a series: list / tuple / lists of ints, mixed and numpy scalars / int64, int32, float32 arrays / strided, reversed,
  2-D-column and read-only views / a generator handed to `cycles`; `endpoints` positional or by keyword; the generator of
  `reversals` handed straight to `count_cycles`; `find_reversals` on each kind of array;
* scales that are not powers of two (3, 10, 1000), other units (2^+-100, 2^+-200), shifts 1/2, 2^50; corpus: 2^-540 (slope product
  underflows: finding F8u); fixed-width integer arrays whose steps / slope products leave the type's range (repaired in
  `reversals` by 5e8f9db; `find_reversals` still subtracts in the array's type: finding F8w); `endpoints` as numpy bool / 0, 1;
* insertion patterns with several repeated / in-between samples per gap, long plateaus, zero-order hold and linear up-sampling;
* more entry points (integer samples, irregular time grid, window wider than the series, options that are given but do nothing,
  resampling to the stored times, re-binned GUI result, a database container, two series in one container, the plotting
  wrappers of TimeSeries and TsDB);
* histories: one TimeSeries object queried several ways, then its data replaced / overwritten in place, queried again; one
  caller-owned ndarray handed to every function in a row, then overwritten in place, counted again;
* transformations that are NOT exact in floating point (unit conversions such as 9.81, 1e-3, -273.15) on generic float series
  that are free of range ties, with a rounding-error tolerance and a tie margin computed per case;
* every call of the implementation is wrapped: an exception is a failing clause, never a harness crash.

Round-5 extension: (a) the plotting data paths with SEVERAL series of different amplitude / level in one call
(`TsDB.plot_cycle_range`, `TsDB.plot_cycle_rangemean` with a list of names in a seeded order; `TimeSeries.plot_cycle_range` /
`plot_cycle_rangemean` of several series into one figure; number of bins, default bins, bin width, bar width options): the data handed
to `matplotlib.pyplot.bar` / `scatter` are captured and the scaling / shift clause is evaluated PER SERIES against the data drawn for
x in the same call.  (b) long records (1001 … 2600 samples in the quick tier, up to 20000 in the thorough tier; also as the part of a
longer record selected by a time window) that start / end on a falling or rising flank with the first / last sample repeated, through
`TimeSeries.rfc()` and the GUI wrapper: affine, negation and refinement clauses (the refinement repeats the first / last sample).

Round-4 extension (time grids): the property quantifies over series, and a time series object need not have a constant time step.
Every entry point is therefore also evaluated on seeded NON-UNIFORM time grids (steps dt*m_i, m_i cycling through a seeded pattern),
and the refinement clause is additionally evaluated with the redundant samples stamped IN BETWEEN the time stamps of their
neighbours (original samples keep their time stamps, so a uniform series becomes a non-uniform one) -- in particular through the GUI
wrapper `app.funcs.calculate_rfc`, with a time window spanning the series and with `twin=None`.
"""
from fractions import Fraction

import numpy as np

from .. import core
from ..core import rat
from . import c02

RULE = ("seeded random dyadic series (plateaus, ties, random walks) and all words over {0,1,2,3} of length <= 6 (7 thorough); "
        "for each: shift, positive scale, negation, sample repetition, in-between insertion, recount from turning points, "
        "and the same clauses (plus resampling to half the time step) through the TimeSeries.rfc()/calculate_rfc entry points "
        "with seeded time origin and dyadic time step (thorough: one seeded entry point per series longer than 6); "
        "the refinement clause also with the redundant samples time-stamped in between their neighbours (varying time step) through "
        "the GUI wrapper and one seeded entry point; on a seeded 20 % of the cases all clauses through the GUI wrapper (with / "
        "without time window) or one seeded entry point with the series stored on a seeded non-uniform time grid; "
        "on the corpus, all words of length <= 4 and a seeded subset of the rest additionally: the clauses through two seeded "
        "spellings of the series (containers / dtypes / views), heavier insertion patterns, thirteen more entry points (a seeded "
        "selection of them also on a non-uniform time grid), object and ndarray histories with in-place replacement of the data, "
        "model correspondence of the refined series with end points; "
        "separately seeded generic float series (gaussian / decimal data) with inexact unit conversions a*x+b under a per-case "
        "rounding tolerance, skipped unless every slope and every pair of candidate ranges is separated by 100x that tolerance; "
        "separately seeded: 16 (thorough 300) plotting calls drawing 2..4 series a_k*x+b_k (a_k = 2^j, j in -3..5) of one seeded series "
        "in ONE call of TsDB.plot_cycle_range / plot_cycle_rangemean or of the TimeSeries methods into one figure (n in 2..50, default, "
        "or a bin width with shifts only), per-series scaling clause on the captured bar / scatter data; 3 (thorough 37) long "
        "records of 1001..2600 (thorough ..20000) samples starting / ending on falling / rising flanks with repeated end samples, "
        "clauses through rfc() plain / windowed / inside a longer record / GUI wrapper; "
        "non-trivial = original series has at least one cycle; distinct by series")


_FR = {}


def fr_(v):
    """exact Fraction of a float (memoised: tables repeat few values)"""
    v = float(v)
    r = _FR.get(v)
    if r is None:
        if len(_FR) > 200000:
            _FR.clear()
        r = _FR[v] = Fraction(v)
    return r


def table(x, ep=False):
    from qats.fatigue.rainflow import count_cycles
    c = count_cycles(np.array([float(v) for v in x]), endpoints=ep)
    return [tuple(fr_(v) for v in row) for row in sorted(map(tuple, c.tolist()))]


def exactbits(vals, bits=53, emax=900):
    """every value, and the sum / difference / mean of any two values, is exact in a binary format with `bits` significant bits"""
    vals = [v if isinstance(v, Fraction) else Fraction(v) for v in vals]
    den = 1
    for v in vals:
        d = v.denominator
        if d & (d - 1):
            return False
        if d > den:
            den = d
    ints = [abs(v.numerator) * (den // v.denominator) for v in vals if v.numerator]
    if not ints:
        return True
    low = min(n & -n for n in ints)         # largest 2^k (in units of 1/den) dividing every value
    top = max(ints)
    return 4 * top < low << bits and den < low << emax and top < den << emax


def exact64(vals):
    """every value, and the sum / difference / mean of any two values, is exact in binary64"""
    return exactbits(vals, 53, 900)


def frac(s):
    """'3/4', '-5', '2^-540', '-2^200' -> Fraction (corpus files write huge / tiny powers of two as 2^k)"""
    s = str(s).strip()
    if "^" in s:
        base, ex = s.split("^")
        return Fraction(base) ** int(ex) if not base.startswith("-") else -(Fraction(base[1:]) ** int(ex))
    return Fraction(s)


def fl(vals):
    return [float(v) for v in vals]


def call(f, *a, **k):
    """result of the implementation, or 'err:<Exception>' (an exception is a value to be compared, never a harness crash)"""
    try:
        return f(*a, **k)
    except Exception as e:
        return "err:" + type(e).__name__


def is_f8b_shape(seq):
    """F8b: `find_reversals` treats a plateau as ascending, so a plateau next to a descent gets flagged although it is no
    turning point.  `reversals(…, endpoints=True)` drops such points again unless one of them is the first or last
    element of the finder's output, where it is kept as an end point.  The finding matches exactly when
    (i) the finder's output contains flagged samples that are not true turning points, all of them on plateaus
    (equal to a neighbouring sample), (ii) one of them is first or last, and (iii) with those samples removed the recount
    is correct — so any other error of the finder is still reported."""
    from qats.signal import find_reversals
    x = [Fraction(v) for v in seq]
    n = len(x)
    try:
        fr, idx = find_reversals(np.array([float(v) for v in x]))
        idx = [int(i) for i in idx]
        if any(i < 0 or i >= n for i in idx):
            return False
    except Exception:
        return False
    # true turning plateaus: maximal runs of equal samples whose neighbours lie strictly on the same side
    runs, i = [], 0
    while i < n:
        j = i
        while j + 1 < n and x[j + 1] == x[i]:
            j += 1
        runs.append((i, j))
        i = j + 1
    true_pos = set()
    for k in range(1, len(runs) - 1):
        a, b, c = x[runs[k - 1][0]], x[runs[k][0]], x[runs[k + 1][0]]
        if (b - a) * (c - b) < 0:
            true_pos.update(range(runs[k][0], runs[k][1] + 1))
    spurious = [i for i in idx if i not in true_pos]
    if not spurious:
        return False
    on_plateau = all((i > 0 and x[i - 1] == x[i]) or (i + 1 < n and x[i + 1] == x[i]) for i in spurious)
    at_end = idx[0] in spurious or idx[-1] in spurious
    cleaned = [x[i] for i in idx if i in true_pos]
    if not (on_plateau and at_end) or len(cleaned) < 2:
        return False
    try:
        return table(cleaned, True) == table(x)
    except Exception:
        return False


# ---- entry points that count the cycles of a time series object ----------------------------------------------------
def _norm(c):
    # sorted as floats (the conversion to Fraction is exact, hence monotone: the same order, without Fraction comparisons)
    return [tuple(fr_(v) for v in row) for row in sorted(map(tuple, np.asarray(c).tolist()))]


def _nominal(dt):
    """nominal time step of a grid (the step itself for a uniform grid)"""
    return Fraction(dt[1]) if isinstance(dt, tuple) else Fraction(dt)


def grid_times(n, t0, dt):
    """time stamps (float ndarray) of n samples.  `dt` is a number (constant step), ("steps", dt, mults): non-uniform grid with
    steps dt*mults[i % len(mults)], or ("times", dt, stamps): explicit stamps (one per sample; dt is the nominal step).
    Origins, steps and multipliers are small dyadic numbers, so the float arithmetic below is exact."""
    if isinstance(dt, tuple) and dt[0] == "times":
        if len(dt[2]) != n:
            raise ValueError("harness: %d time stamps for %d samples" % (len(dt[2]), n))
        return np.array(dt[2], dtype=float)
    if isinstance(dt, tuple):
        m = np.resize(np.array([float(v) for v in dt[2]]), max(n - 1, 0)) if n > 1 else np.array([])
        return float(t0) + float(dt[1]) * np.concatenate(([0.0], np.cumsum(m)))[:n]
    return float(t0) + float(dt) * np.arange(n, dtype=float)


def _mkts(x, t0, dt, name="signal"):
    from qats import TimeSeries
    xa = np.array([float(v) for v in x])
    ta = grid_times(xa.size, t0, dt)
    return TimeSeries(name, ta, xa), ta, xa


def _e_plain(x, t0, dt):
    ts, _, _ = _mkts(x, t0, dt)
    return _norm(ts.rfc())


def _e_twin(x, t0, dt):
    ts, ta, _ = _mkts(x, t0, dt)
    return _norm(ts.rfc(twin=(float(ta[0]), float(ta[-1]))))


def _e_history(x, t0, dt):
    """history on one object and aliasing: count, query the object, count again; then a second object built from the
    same arrays; the last count is the result"""
    from qats import TimeSeries
    ts, ta, xa = _mkts(x, t0, dt)
    ts.rfc()
    ts.get(twin=(float(ta[0]), float(ta[-1])))
    ts.rfc()
    ts2 = TimeSeries("signal-b", ta, xa)
    return _norm(ts2.rfc())


def _e_app(x, t0, dt):
    """GUI helper: ranges and counts only (no rebinning)"""
    from qats.app.funcs import calculate_rfc
    ts, ta, _ = _mkts(x, t0, dt)
    r, c = calculate_rfc({"signal": ts}, (float(ta[0]), float(ta[-1])), None, None)["signal"]
    return sorted((Fraction(float(a)), Fraction(float(b))) for a, b in zip(r, c))


def _e_app_notwin(x, t0, dt):
    """GUI helper without a time window (what the GUI passes before the user narrows the window)"""
    from qats.app.funcs import calculate_rfc
    ts, _, _ = _mkts(x, t0, dt)
    r, c = calculate_rfc({"signal": ts}, None, None, None)["signal"]
    return _rc(r, c)


ENTRIES = {
    "TimeSeries.rfc()": _e_plain,
    "TimeSeries.rfc(twin=whole series)": _e_twin,
    "TimeSeries.rfc() after earlier calls on the same object / on a second object of the same arrays": _e_history,
    "app.funcs.calculate_rfc(nbins=None)": _e_app,
}


# ---- further entry points (evaluated on the corpus, the short words and a seeded subset) -----------------------------------------
def _mkts_int(x, t0, dt, name="signal"):
    """integer-valued samples / times are handed to TimeSeries as int64 arrays (float arrays otherwise)"""
    from qats import TimeSeries
    xs = [Fraction(v) for v in x]
    tt = [Fraction(float(v)) for v in grid_times(len(xs), t0, dt)]

    def arr(vals):
        if all(v.denominator == 1 and abs(v) < 2 ** 62 for v in vals):
            return np.array([int(v) for v in vals], dtype=np.int64)
        return np.array(fl(vals))
    return TimeSeries(name, arr(tt), arr(xs))


def _e_int(x, t0, dt):
    return _norm(_mkts_int(x, t0, dt).rfc())


def _e_irregular(x, t0, dt):
    from qats import TimeSeries
    xa = np.array(fl(x))
    steps = [float(_nominal(dt)) * ((i * i) % 3 + 1) for i in range(max(xa.size - 1, 0))]
    ta = float(t0) + np.concatenate(([0.0], np.cumsum(steps))) if xa.size else np.array([])
    return _norm(TimeSeries("signal", ta, xa).rfc())


def _e_wide(x, t0, dt):
    ts, ta, _ = _mkts(x, t0, dt)
    h = float(_nominal(dt))
    return _norm(ts.rfc(twin=[float(ta[0]) - h, float(ta[-1]) + 3 * h]))


def _same_samples(ts, xa, opts):
    """the options leave the samples as they are (otherwise the entry is no spelling of `count the series`: skipped)"""
    _, xr = ts.get(**opts)
    return np.asarray(xr).shape == xa.shape and np.array_equal(np.asarray(xr), xa)


def _e_noop(x, t0, dt):
    """options that are given but do nothing: resampling to the stored step, no taper, one-sample smoothing window"""
    ts, ta, xa = _mkts(x, t0, dt)
    opts = dict(twin=None, resample=float(_nominal(dt)), taperfrac=0.0, window_len=1, filterargs=None)
    if not _same_samples(ts, xa, opts):
        return None
    return _norm(ts.rfc(**opts))


def _e_times(x, t0, dt):
    """resampling to the stored time array (as ndarray for even, as list for odd lengths)"""
    ts, ta, xa = _mkts(x, t0, dt)
    opts = dict(resample=ta.copy() if xa.size % 2 == 0 else [float(v) for v in ta])
    if not _same_samples(ts, xa, opts):
        return None
    return _norm(ts.rfc(**opts))


def _rc(r, c):
    return sorted((Fraction(float(a)), Fraction(float(b))) for a, b in zip(r, c))


def _e_app_bins(k):
    def f(x, t0, dt):
        from qats.app.funcs import calculate_rfc
        ts, ta, _ = _mkts(x, t0, dt)
        r, c = calculate_rfc({"signal": ts}, (float(ta[0]), float(ta[-1])), None, k)["signal"]
        return _rc(r, c)
    return f


def _mkdb(x, t0, dt):
    """a database holding the series between two other series"""
    from qats import TimeSeries, TsDB
    ts, ta, xa = _mkts(x, t0, dt)
    db = TsDB()
    db.add(TimeSeries("aaa", ta, xa[::-1].copy()))
    db.add(ts)
    db.add(TimeSeries("zzz", ta, 2.0 * xa))
    return db, ta


def _e_db_get(x, t0, dt):
    db, _ = _mkdb(x, t0, dt)
    return _norm(db.get(name="signal").rfc())


def _e_db_app(x, t0, dt):
    """what the GUI does: container from the database, then the helper"""
    from qats.app.funcs import calculate_rfc
    db, ta = _mkdb(x, t0, dt)
    out = calculate_rfc(db.getm(names=["zzz", "signal"], store=False), (float(ta[0]), float(ta[-1])), None, None)
    r, c = out["signal"]
    return _rc(r, c)


def _scatter(num, label):
    """(range, mean, count) rows read back from the scatter plot labelled `label` of figure `num`"""
    import matplotlib.pyplot as plt
    try:
        ax = plt.figure(num).gca()
        col = [c for c in ax.collections if c.get_label() == label]
        if len(col) != 1:
            raise LookupError("no scatter plot labelled %r" % label)
        off, sz = np.asarray(col[0].get_offsets(), dtype=float), np.asarray(col[0].get_sizes(), dtype=float)
        return sorted((Fraction(float(o[1])), Fraction(float(o[0])), Fraction(float(s)) / 2) for o, s in zip(off, sz))
    finally:
        plt.close(num)


def _e_plot_ts(x, t0, dt):
    ts, _, _ = _mkts(x, t0, dt)
    try:
        ts.plot_cycle_rangemean(show=False, num=9931)
    except Exception:
        import matplotlib.pyplot as plt
        plt.close(9931)
        raise
    return _scatter(9931, "signal")


def _e_plot_db(x, t0, dt):
    db, _ = _mkdb(x, t0, dt)
    try:
        db.plot_cycle_rangemean(names=["signal", "aaa"], show=False, num=9932)
    except Exception:
        import matplotlib.pyplot as plt
        plt.close(9932)
        raise
    return _scatter(9932, "signal")


BINS = {"app.funcs.calculate_rfc(nbins=1)": 1, "app.funcs.calculate_rfc(nbins=3)": 3, "app.funcs.calculate_rfc(nbins=8)": 8}
ENTRIES2 = {
    "TimeSeries.rfc() of integer sample / time arrays": _e_int,
    "TimeSeries.rfc() on an irregular time grid": _e_irregular,
    "TimeSeries.rfc(twin=[wider than the series])": _e_wide,
    "TimeSeries.rfc(resample=dt, taperfrac=0.0, window_len=1, filterargs=None, twin=None)": _e_noop,
    "TimeSeries.rfc(resample=<the stored times>)": _e_times,
    "TsDB.get(name).rfc()": _e_db_get,
    "app.funcs.calculate_rfc(TsDB.getm(names, store=False), nbins=None)": _e_db_app,
}
ENTRIES2.update({k: _e_app_bins(v) for k, v in BINS.items()})
ENTRIES2["app.funcs.calculate_rfc(twin=None, nbins=None)"] = _e_app_notwin
# entry points whose options presuppose a constant time step (on another grid they are not a spelling of `count the series`)
UNIFORM_ONLY = ("TimeSeries.rfc(resample=dt, taperfrac=0.0, window_len=1, filterargs=None, twin=None)",
                "TimeSeries.rfc() on an irregular time grid")
APP_PLAIN = ("app.funcs.calculate_rfc(nbins=None)", "app.funcs.calculate_rfc(twin=None, nbins=None)")
PLOTS = {
    "TimeSeries.plot_cycle_rangemean(show=False) scatter data": _e_plot_ts,
    "TsDB.plot_cycle_rangemean(names, show=False) scatter data": _e_plot_db,
}
ALL_ENTRIES = dict(ENTRIES)
ALL_ENTRIES.update(ENTRIES2)
ALL_ENTRIES.update(PLOTS)
# entry points that cannot unpack an empty cycle table (recorded observation, DESIGN 9.4): the tie is not evaluated there
EMPTY_RAISES = tuple(n for n in ALL_ENTRIES if n.startswith("app.") or n.startswith("TsDB.plot"))


def entry(name, x, t0, dt):
    """table of the entry point, 'err:<Exception>' (e.g. calculate_rfc cannot unpack an empty cycle table), or None when the
    entry point's options do not leave the samples as they are (not applicable)"""
    try:
        return ALL_ENTRIES[name](x, t0, dt)
    except Exception as e:
        return "err:" + type(e).__name__


def project(name, tab):
    """what the entry point reports of a (range, mean, count) table"""
    if isinstance(tab, str):
        return tab
    if name in BINS:
        if not tab:
            return "err:ValueError"
        from qats.fatigue.rainflow import rebin
        out = call(rebin, np.array([[float(v) for v in row] for row in sorted(tab)]), binby="range", n=BINS[name])
        return out if isinstance(out, str) else _rc(out[:, 0], out[:, 2])
    if name.startswith("app."):
        return sorted((r, c) for r, _, c in tab)
    return sorted(tab)

# ---- round-5 extension: several series of different amplitude in ONE plotting call ----------------------------------------------
PLOT_CALLS = ("TsDB.plot_cycle_range(names=[several series])", "TsDB.plot_cycle_rangemean(names=[several series])",
              "TimeSeries.plot_cycle_range() of several series into one figure",
              "TimeSeries.plot_cycle_rangemean() of several series into one figure")


class _PlotCapture(object):
    """records the data handed to matplotlib.pyplot.bar / scatter (and hands them on, so the figure is drawn as usual)"""

    def __enter__(self):
        import matplotlib.pyplot as plt
        self.plt, self.bar, self.scatter, self.data = plt, plt.bar, plt.scatter, {}

        def bar(x, height, width=0.8, *args, **kwargs):
            self.data.setdefault(kwargs.get("label"), []).append(
                ("bar", np.array(x, dtype=float), np.array(height, dtype=float), float(width)))
            return self.bar(x, height, width, *args, **kwargs)

        def scatter(x, y, s=None, *args, **kwargs):
            self.data.setdefault(kwargs.get("label"), []).append(
                ("scatter", np.array(y, dtype=float), np.array(x, dtype=float), np.array(s, dtype=float) / 2.0))
            return self.scatter(x, y, s, *args, **kwargs)
        plt.bar, plt.scatter = bar, scatter
        return self

    def __exit__(self, *exc):
        self.plt.bar, self.plt.scatter = self.bar, self.scatter
        return False


def plot_data(callname, s, t0, dt, maps, order, opts):
    """the bar / scatter data drawn for each of the series a_k*x+b_k (k = 0, 1, …; named s0, s1, …) by ONE call of a TsDB
    plotting method on a database holding all of them (requested in the order `order`), or by one TimeSeries plotting call per
    series into the same figure.  Returns [data of s0, data of s1, …], each ("bar", ranges, counts, width) or ("scatter", ranges,
    means, counts) or 'err:…'"""
    from qats import TimeSeries, TsDB
    import matplotlib.pyplot as plt
    ta = grid_times(len(s), t0, dt)
    tss = [TimeSeries("s%d" % k, ta.copy(), np.array(fl([a * v + b for v in s]))) for k, (a, b) in enumerate(maps)]
    kw = dict((k, (float(v) if k in ("w", "bw") else int(v))) for k, v in opts.items())
    num = 9940
    try:
        with _PlotCapture() as cap:
            if callname.startswith("TsDB."):
                db = TsDB()
                for one in tss:
                    db.add(one)
                f = db.plot_cycle_range if "plot_cycle_range(" in callname else db.plot_cycle_rangemean
                f(names=["s%d" % k for k in order], show=False, num=num, **kw)
            else:
                for k in order:
                    f = tss[k].plot_cycle_range if "plot_cycle_range(" in callname else tss[k].plot_cycle_rangemean
                    f(show=False, num=num, **kw)
    finally:
        plt.close(num)
    out = []
    for k in range(len(tss)):
        d = cap.data.get("s%d" % k, [])
        out.append(d[0] if len(d) == 1 else "err:%d data sets drawn for the series" % len(d))
    return out


def _same_arr(p, q):
    return p.shape == q.shape and bool(np.array_equal(p, q, equal_nan=True))


def _show_plot(d):
    return d if isinstance(d, str) else [d[0]] + [v.tolist() if isinstance(v, np.ndarray) else v for v in d[1:]]


def plot_multi_clauses(callname, s, t0, dt, maps, order, opts, report):
    """scaling / shift clause PER SERIES on the data one plotting call draws for x and a_k*x+b_k (a_k = 2^j > 0, so the bin edges
    `max range * i / n`, the bin mid points and the bar widths scale exactly; with a bin width `w` given only shifts are used;
    with re-binned means only scalings).  Returns the data of x (None if the call raised)."""
    inp = dict(kind="plot-multi", call=callname, series=[str(v) for v in s], t0=str(t0), dt=str(dt),
               maps=[[str(a), str(b)] for a, b in maps], order=list(order), opts=dict((k, str(v)) for k, v in opts.items()))
    got = call(plot_data, callname, s, t0, dt, maps, order, opts)
    if isinstance(got, str):
        # a series without cycles (or with a single bin) cannot be drawn by these methods: recorded observation, no clause
        alone = call(plot_data, callname, s, t0, dt, maps[:1], [0], opts)
        if not isinstance(alone, str) and not isinstance(alone[0], str):
            report("%s raises although the first series alone is drawn" % callname, inp, "data of every series", got, "plot-multi")
        return None
    ref = got[0]
    for k in range(1, len(maps)):
        a, b = maps[k]
        if isinstance(ref, str) or isinstance(got[k], str):
            ok, exp = ref == got[k], ref
        elif ref[0] == "bar":
            exp = ("bar", float(a) * ref[1], ref[2], float(a) * ref[3])
            ok = got[k][0] == "bar" and _same_arr(exp[1], got[k][1]) and _same_arr(exp[2], got[k][2]) and exp[3] == got[k][3]
        else:
            exp = ("scatter", float(a) * ref[1], float(a) * ref[2] + float(b), ref[3])
            ok = got[k][0] == "scatter" and all(_same_arr(exp[i], got[k][i]) for i in (1, 2, 3))
        if not ok:
            report("%s: the data drawn for a*x+b (a = %s, b = %s; series s%d of the call) are those drawn for x (series s0 of the "
                   "same call) with ranges%s scaled by a%s, same counts" % (
                       callname, a, b, k, " and bar width" if "range(" in callname else "",
                       ", means a*m+b" if "rangemean" in callname else ""),
                   dict(inp, failing_series=k), _show_plot(exp), _show_plot(got[k]), "plot-multi")
    return ref


def gen_plot_case(rng, pool, callname=None):
    """a seeded series with cycles, 1..3 further series of other amplitude / level, a seeded request order and option set"""
    s = rng.choice(pool)
    callname = callname or rng.choice(PLOT_CALLS)
    binned = rng.random() < (0.5 if "rangemean" in callname else 1.0)
    opts = {}
    if binned:
        r = rng.random()
        if r < 0.7:
            opts["n"] = rng.choice([2, 3, 5, 8, 8, 16, 50])
        elif r < 0.8:
            pass                                            # the default number of bins (200; rangemean: unbinned)
        else:
            # a bin width in proportion to the spread of the samples (at most some 40 bins whatever the unit of the series)
            opts["w"] = _spread(s) * rng.choice([Fraction(1, 2), Fraction(1, 4), Fraction(3, 16), Fraction(1, 16)])
        if "plot_cycle_range(" in callname and rng.random() < 0.3:
            opts["bw"] = rng.choice([Fraction(1, 2), Fraction(1, 4)])
    maps = [(Fraction(1), Fraction(0))]
    for _ in range(rng.choice([1, 2, 2, 3])):
        a = Fraction(1) if "w" in opts else Fraction(2) ** rng.choice([-3, -2, -1, 1, 1, 2, 3, 5])
        b = Fraction(0) if ("rangemean" in callname and binned) else Fraction(rng.choice([0, 0, 3, -5, 16, Fraction(1, 2)]))
        if not (exact64(s) and exact64([a * v + b for v in s])):
            b = Fraction(0)                                 # (a scaling by 2^j alone is exact whatever the samples are)
        maps.append((a, b))
    order = list(range(len(maps)))
    rng.shuffle(order)
    t0, dt = Fraction(rng.choice([0, 10, -3])), Fraction(rng.choice([1, 2, Fraction(1, 2)]))
    return callname, s, t0, dt, maps, order, opts


# ---- round-5 extension: long records with repeated samples at the ends ----------------------------------------------------------
def _e_twin_inner(x, t0, dt):
    """the series inside a longer record, selected by the time window from its first to its last sample"""
    from qats import TimeSeries
    xa = np.array(fl(x))
    ta = grid_times(xa.size, t0, dt)
    h = float(_nominal(dt))
    pre, post = [7.5, -2.25, 4.0], [-10.0, 0.0]
    if xa.size:     # (a neighbour outside the window equal to the first sample: a plateau that the window cuts)
        pre[-1] = float(xa[0])
    tt = np.concatenate((ta[0] - h * np.arange(len(pre), 0, -1), ta, ta[-1] + h * np.arange(1, len(post) + 1)))
    ts = TimeSeries("signal", tt, np.concatenate((pre, xa, post)))
    return _norm(ts.rfc(twin=(float(ta[0]), float(ta[-1]))))


LONG_ENTRIES = {"TimeSeries.rfc(twin=[the series inside a longer record])": _e_twin_inner}
ALL_ENTRIES.update(LONG_ENTRIES)
LONG_NAMES = ["TimeSeries.rfc()", "TimeSeries.rfc(twin=whole series)", "TimeSeries.rfc(twin=[the series inside a longer record])",
              "TimeSeries.rfc() after earlier calls on the same object / on a second object of the same arrays",
              "app.funcs.calculate_rfc(nbins=None)", "app.funcs.calculate_rfc(twin=None, nbins=None)"]


def gen_long(seed, n, start, end, p0, p1, q0, q1):
    """a record of n samples (multiples of 1/8 in [-50, 50], some interior plateaus) that starts on a falling / rising flank
    (`start`) with its first sample p0 times and ends on a flank `end` with its last sample p1 times; and its refinement: the
    first / last sample q0 / q1 more times, a few interior repeats and in-between samples.  Everything from random.Random(seed)."""
    import random
    r = random.Random("C03 long %s" % seed)
    m = max(n - p0 - p1, 4)
    body = [Fraction(r.randint(-320, 320), 8)]
    while len(body) < m:
        if r.random() < 0.08:
            body.append(body[-1])
        else:
            body.append(Fraction(r.randint(-320, 320), 8))
    first = body[0] + (Fraction(r.randint(1, 80), 8) if start == "fall" else -Fraction(r.randint(1, 80), 8))
    last = body[-1] + (-Fraction(r.randint(1, 80), 8) if end == "fall" else Fraction(r.randint(1, 80), 8))
    s = [first] * p0 + body + [last] * p1
    t2, at2 = [], []
    for i, v in enumerate(s):
        t2.append(v)
        at2.append((i, Fraction(0)))
        k = q0 if i == 0 else q1 if i == len(s) - 1 else (1 if r.random() < 0.02 else 0)
        for j in range(k):
            if 0 < i < len(s) - 1 and r.random() < 0.5:
                lam = Fraction(r.choice([1, 2, 3]), 4)
                t2.append(v + lam * (s[i + 1] - v))
                at2.append((i, lam))
            else:
                t2.append(v)
                at2.append((i, Fraction(j + 1, k + 1)))
    return s, t2, at2


def _rows_diff(e, g):
    """(rows only in the expected table, rows only in the observed table) of two long tables, as short strings"""
    if not (isinstance(e, list) and isinstance(g, list)):
        return str(e)[:400], str(g)[:400]
    from collections import Counter
    ce, cg = Counter(map(tuple, e)), Counter(map(tuple, g))
    only_e, only_g = sorted((ce - cg).elements()), sorted((cg - ce).elements())
    return ("%d rows; not among the observed: %s" % (len(e), [list(r) for r in only_e[:8]]),
            "%d rows; not among the expected: %s" % (len(g), [list(r) for r in only_g[:8]]))


def long_clauses(spec, names, report, disagree=None, timed=False):
    """the clauses through the entry points `names` on the long record described by `spec` (see gen_long)"""
    s, t2, at2 = gen_long(spec["gen_seed"], spec["length"], spec["start"], spec["end"], spec["p0"], spec["p1"], spec["q0"], spec["q1"])
    a, b = frac(spec["a"]), frac(spec["b"])
    t0, dt = frac(spec["t0"]), frac(spec["dt"])
    base = call(table, s)
    for name in names:
        def rep(o, i, e, g, c, **kw):
            # the record is regenerated from its description on replay (thousands of samples are not written out)
            i = dict((k, v) for k, v in i.items() if k not in ("series", "refined", "refined_at"))
            report(o + " [long record: %d samples, first sample %d x then a %s, last sample %d x after a %s; refined: first / last "
                   "sample %d / %d more times]" % (len(s), spec["p0"], spec["start"], spec["p1"], spec["end"], spec["q0"], spec["q1"]),
                   dict(i, kind="long-record", spec=spec, head=[str(v) for v in s[:6]], tail=[str(v) for v in s[-6:]]),
                   *_rows_diff(e, g), c, **kw)
        eb = entry_clauses(name, s, t0, dt, a, b, t2, rep, factors=(2,), at2=at2 if timed else None)
        if disagree is not None and eb is not None and eb != project(name, base):
            disagree(name, s, eb, base)
    return s, base


# ---- round-8 extension: LONG records at the function level (size- and position-conditioned code paths) ---------------------------
def ftable(x, ep=False):
    """sorted rows of count_cycles as float tuples (the values of the big stream are small dyadic numbers: exact)"""
    from qats.fatigue.rainflow import count_cycles
    c = np.asarray(count_cycles(x, endpoints=ep))
    if c.ndim != 2 or c.shape[1] != 3:
        return "shape %s" % (c.shape,)
    return sorted(map(tuple, c.tolist()))


def big_signal(p):
    """c02.long_signal(p) (size, shape, seed, events at the ends and at / across multiples of 1000 / 1024 / 4096 / 10000 / 65536),
    with a strict turning point as second and as last-but-one sample (so that the first and the last point flagged by
    `find_reversals` are true turning points: known finding F8b is about plateaus there)"""
    x = np.array(c02.long_signal(dict(p, scale=1.0, offset=0.0)), dtype=float)
    if p.get("strict_ends", True):
        x[:3] = [x[3] - 1.0, x[3] + 11.0, x[3] - 12.0]
        x[-3:] = [x[-4] + 12.0, x[-4] - 11.0, x[-4] + 1.0]
    return x


def big_refine(p, x):
    """x with repeated samples and in-between samples inserted at the listed positions (`refine`: [kind, pos, count]): the refined
    record is longer (it crosses the next size threshold) and every later sample sits at a shifted position"""
    parts, last = [], 0
    for kind, pos, cnt in sorted(p.get("refine", ()), key=lambda r: r[1]):
        pos = min(max(int(pos), 0), len(x) - 2)
        if pos < last:
            continue
        parts.append(x[last:pos + 1])
        if kind == "repeat":
            parts.append(np.full(int(cnt), x[pos]))
        else:                                   # in-between: quarter points towards the next sample (dyadic: exact)
            parts.append(x[pos] + (x[pos + 1] - x[pos]) * np.array([0.25, 0.5, 0.5, 0.75, 1.0][:int(cnt)]))
        last = pos + 1
    parts.append(x[last:])
    return np.concatenate(parts)


def ftransform(tab, a, b):
    return tab if isinstance(tab, str) else sorted((abs(a) * r, a * m + b, c) for r, m, c in tab)


def big_clauses(p, report):
    """affine / negation / refinement / recount clauses on one long record, functions on ndarray or list"""
    from qats.signal import find_reversals
    from qats.fatigue.rainflow import reversals
    x = big_signal(p)
    a, b = float(Fraction(p["a"])), float(Fraction(p["b"]))
    as_list = p.get("as") == "list"
    inp = dict(p, kind="big", head=[float(v) for v in x[:5]], tail=[float(v) for v in x[-5:]])

    def give(v):
        return [float(u) for u in v] if as_list else np.array(v)

    def diff(e, g):
        return _rows_diff(e, g) if isinstance(e, list) and isinstance(g, list) else (str(e)[:300], str(g)[:300])
    nrows = None
    for ep in p["eps"]:
        base = call(ftable, give(x), ep)
        if isinstance(base, str):
            report("count_cycles of a long record must not raise", dict(inp, endpoints=ep), "table", base, "big-raises")
            continue
        nrows = len(base)
        for aa, bb in ((a, b), (-1.0, 0.0)):
            got = call(ftable, give(aa * x + bb), ep)
            if got != ftransform(base, aa, bb):
                report("count(a*x+b): ranges |a|*r, means a*m+b, same counts (negation mirrors the means) [long record]",
                       dict(inp, endpoints=ep, a_used=aa, b_used=bb), *diff(ftransform(base, aa, bb), got), "big-affine")
        x2 = big_refine(p, x)
        got = call(ftable, give(x2), ep)
        if got != base:
            report("inserting repeated / in-between samples changes nothing [long record, refined to %d samples]" % len(x2),
                   dict(inp, endpoints=ep), *diff(base, got), "big-refine")
    base = call(ftable, give(x), False)
    if isinstance(base, str):
        return nrows
    rv = call(lambda: [float(v) for v in reversals(give(x))])
    if isinstance(rv, str):
        report("reversals of a long record must not raise", inp, "turning points", rv, "big-raises")
    elif len(rv) >= 2:
        got = call(ftable, give(rv), True)
        if got != base:
            report("count_cycles(reversals(x), endpoints=True) == count_cycles(x) [long record]", inp, *diff(base, got),
                   "big-recount-reversals")
    fr = call(lambda: find_reversals(np.array(x))[0])
    if isinstance(fr, str):
        report("find_reversals of a long record must not raise", inp, "turning points", fr, "big-raises")
    elif len(fr) >= 2 and p.get("strict_ends", True):
        got = call(ftable, np.array(fr, dtype=float), True)
        if got != base:
            report("count_cycles(find_reversals(x)[0], endpoints=True) == count_cycles(x) [long record; its second and its "
                   "last-but-one sample are strict turning points]", inp, *diff(base, got), "big-recount-find_reversals")
        # the finder's points that are true turning points are all of the turning points
        if not isinstance(rv, str):
            keep = [float(v) for v in reversals([float(v) for v in fr], endpoints=True)]
            if keep != rv:
                k = next((i for i, (u, v) in enumerate(zip(keep, rv)) if u != v), min(len(keep), len(rv)))
                report("the turning points among find_reversals(x)[0] are the turning points of x [long record]", inp,
                       "%d points, from #%d: %s" % (len(rv), k, rv[k:k + 6]), "%d points, from #%d: %s" % (len(keep), k, keep[k:k + 6]),
                       "big-recount-find_reversals")
    return nrows


def gen_big(prng, quick):
    if quick:
        sizes = [prng.choice(gp) for gp in c02.LONG_GROUPS]
        shapes = [prng.choice(c02.LONG_SHAPES) for _ in sizes]
        shapes[prng.randrange(3)] = "zigzag"
        shapes[3] = prng.choice(["zigzag", "zigzag", "noise"])
    else:
        sizes = list(c02.LONG_SIZES) * 2
        shapes = [c02.LONG_SHAPES[k % 4] for k in range(len(sizes))]
        prng.shuffle(shapes)
    for k, (n, shape) in enumerate(zip(sizes, shapes)):
        bs = c02.long_boundaries(n)
        near_end = [3, 4, n - 6, n - 5]
        at_b = [b_ + d for b_ in bs for d in (-2, -1, 0, 1)] or near_end
        ev = [["swing", prng.choice(near_end if k % 2 else at_b)], ["peak", prng.choice([b_ + d for b_ in bs for d in (-1, 0)] + [5])]]
        for _ in range(prng.randint(1, 3)):
            ev.append(["plateau", prng.choice([b_ + d for b_ in bs for d in (-1, 0, 1)] + [6, n - 7])])
        for _ in range(prng.randint(0, 2)):
            ev.append(["tie", prng.choice([b_ + d for b_ in bs for d in (-3, -2, -1, 0)] + [4, n - 9])])
        prng.shuffle(ev)
        # refinement: the record grows past the next threshold; insertions in the first / last samples and at / across boundaries
        grow = next((t - n for t in (1000, 1024, 4096, 10000, 65536) if n < t <= n + 3), prng.randint(1, 5))
        rf_ = [["repeat", prng.choice([0, 1, n - 2, n - 1] + [b_ - 1 for b_ in bs] + bs), grow + prng.randint(0, 2)]]
        for _ in range(prng.randint(1, 4)):
            rf_.append([prng.choice(["repeat", "between"]), prng.choice([0, 1, n - 3, n - 2] + [b_ + d for b_ in bs for d in (-2, -1, 0)]),
                        prng.randint(1, 5)])
        eps = [False, True] if n < 20000 or not quick else [prng.random() < 0.5]
        yield dict(n=n, shape=shape, seed=prng.getrandbits(40), events=ev, refine=rf_, eps=eps,
                   a=str(Fraction(prng.choice([2, 4, 1, 3, -2, 8]), prng.choice([1, 2, 4]))), b=str(prng.choice([0, 5, -3, 16, 4096])),
                   **{"as": prng.choice(["ndarray", "ndarray", "list"])})


def pow2(a):
    a = abs(Fraction(a))
    return a > 0 and a.numerator & (a.numerator - 1) == 0 and a.denominator & (a.denominator - 1) == 0


def transform(tab, a, b):
    if isinstance(tab, str):
        return tab
    if a == -1 and b == 0:              # (the same values as below, without the Fraction products)
        return sorted((row[0], -row[1], row[2]) if len(row) == 3 else row for row in tab)
    return sorted((abs(a) * row[0], a * row[1] + b, row[2]) if len(row) == 3 else (abs(a) * row[0], row[1]) for row in tab)


def resampled(x, t0, dt, m=2):
    """`TimeSeries.rfc(resample=dt/m)`; None unless the library's resampled series is exactly the original samples with the
    in-between points inserted, each weakly between its two neighbouring samples (so that the clause 'inserting in-between samples changes nothing' applies literally)"""
    ts, ta, xa = _mkts(x, t0, dt)
    h = float(Fraction(dt) / m)
    _, xr = ts.get(resample=h)
    if xr.size != m * (xa.size - 1) + 1 or not np.array_equal(xr[::m], xa):
        return None
    for k in range(1, m):
        lo, hi = np.minimum(xa[:-1], xa[1:]), np.maximum(xa[:-1], xa[1:])
        if not (np.all(lo <= xr[k::m]) and np.all(xr[k::m] <= hi)):
            return None
    return _norm(ts.rfc(resample=h))


_VAR = {}


def show(tab):
    return tab if isinstance(tab, str) or tab is None else [list(map(str, r)) for r in tab]


def refined_times(n, t0, dt, at):
    """time stamps of a refined series whose k-th sample sits at `at[k] = (i, lam)`: the i-th original time stamp plus the
    fraction lam of the following time step (of the nominal step after the last sample); lam = 0 for the original samples"""
    T = grid_times(n, t0, dt)
    gap = np.append(np.diff(T), float(_nominal(dt)))
    idx = np.array([i for i, _ in at], dtype=int)
    return T[idx] + np.array([float(lam) for _, lam in at]) * gap[idx]


def entry_clauses(name, s, t0, dt, a, b, t2, report, skip=None, factors=(2, 4), at2=None, untimed=True):
    """the property's clauses evaluated through one entry point; `report(oracle, input, expected, observed, clause)`.
    `dt`: constant time step, or ("steps", dt, mults) for a non-uniform time grid (see grid_times).  `at2`: positions in time of
    the samples of the refined series `t2` (see refined_times); when given, the refinement clause is also evaluated with the
    redundant samples stamped in between their neighbours, the original samples keeping their time stamps (`untimed=False`: only
    so, without the evaluation on the grid continued over the longer series)."""
    common = dict(series=[str(v) for v in s], entry=name, t0=str(t0), dt=str(_nominal(dt)))
    if isinstance(dt, tuple):
        common["grid"] = [str(m) for m in dt[2]]
    if _VAR.get("s") is not s:          # float variants of this case are shared by all its entry points
        _VAR.clear()
        _VAR["s"] = s

    def var(aa, bb):
        key = (aa, bb)
        if key not in _VAR:
            _VAR[key] = fl(s) if (aa, bb) == (1, 0) else fl([aa * v + bb for v in s])
        return _VAR[key]
    if t2 is not None and _VAR.get("t2src") is not t2:
        _VAR["t2src"], _VAR["t2"] = t2, fl(t2)
    base = entry(name, var(Fraction(1), Fraction(0)), t0, dt)
    if base is None:
        if skip is not None:
            skip()
        return None
    if name in BINS and not pow2(a):
        a = Fraction(1 if a > 0 else -1)       # bin edges come from a division: only powers of two scale them exactly
    for aa, bb in ((a, b), (Fraction(-1), Fraction(0))):
        got = entry(name, var(aa, bb), t0, dt)
        exp = transform(base, aa, bb)
        if got is not None and got != exp:
            report("%s of a*x+b: ranges |a|*r, means a*m+b, same counts (negation mirrors the means)" % name,
                   dict(common, a=str(aa), b=str(bb)), show(exp), show(got), "entry-affine")
    if t2 is not None:
        got = entry(name, _VAR["t2"], t0, dt) if untimed or at2 is None else None
        if got is not None and got != base:
            report("%s: inserting repeated / in-between samples changes nothing" % name,
                   dict(common, refined=[str(v) for v in t2]), show(base), show(got), "entry-refine")
        if at2 is not None and len(at2) == len(t2):
            got = entry(name, _VAR["t2"], t0, ("times", _nominal(dt), refined_times(len(s), t0, dt, at2)))
            if got is not None and got != base:
                report("%s: inserting repeated / in-between samples, time-stamped in between their neighbours (the original "
                       "samples keep their time stamps), changes nothing" % name,
                       dict(common, refined=[str(v) for v in t2], refined_at=[[int(i), str(lam)] for i, lam in at2]),
                       show(base), show(got), "entry-refine-time")
    if name == "TimeSeries.rfc()" and len(s) >= 2 and not isinstance(dt, tuple):
        for m in factors:
            try:
                got = resampled(var(Fraction(1), Fraction(0)), t0, dt, m)
            except Exception as e:
                got = "err:" + type(e).__name__
            if got is None:
                if skip is not None:
                    skip()
            elif got != base:
                report("TimeSeries.rfc(resample=dt/%d) (exact in-between points inserted between consecutive samples) "
                       "changes nothing" % m, dict(common, resample="dt/%d" % m), show(base), show(got), "entry-resample")
    if name == "app.funcs.calculate_rfc(nbins=None)" and not isinstance(base, str):
        # several series in one container: each is counted for itself
        got = call(_container, s, [a * v + b for v in s], t0, dt)
        exp = (base, transform(base, a, b))
        if got != exp:
            report("calculate_rfc on a container {x, a*x+b}: every series gets its own cycles (ranges |a|*r, same counts)",
                   dict(common, a=str(a), b=str(b), container=2), [show(e) for e in exp],
                   got if isinstance(got, str) else [show(g) for g in got], "entry-container")
    return base


def _container(s, t, t0, dt):
    from qats.app.funcs import calculate_rfc
    ts1, ta, _ = _mkts(s, t0, dt, "x")
    ts2, _, _ = _mkts(t, t0, dt, "y")
    out = {}
    for k in (None, None):      # the same container twice (second use)
        out = calculate_rfc({"x": ts1, "y": ts2}, (float(ta[0]), float(ta[-1])), None, k)
    res = []
    for key in ("x", "y"):
        try:
            res.append(_rc(*out[key]))
        except Exception as e:
            res.append("err:" + type(e).__name__)
    return tuple(res)


# ---- spellings of one series ------------------------------------------------------------------------------------------------------
def _isint(vals):
    return all(Fraction(v).denominator == 1 for v in vals)


def _spread(vals):
    return max(vals) - min(vals) if len(vals) else 0


def spell(name, vals):
    """the series as the named kind of object; None when that kind cannot hold the values (and their differences, sums and slope
    products) exactly"""
    vals = [Fraction(v) for v in vals]
    f = fl(vals)
    n = len(f)
    if name == "ndarray float64":
        return np.array(f)
    if name == "list of float":
        return list(f)
    if name == "tuple of float":
        return tuple(f)
    if name == "list of numpy float64 scalars":
        return list(np.array(f))
    if name == "list of int":
        return [int(v) for v in vals] if _isint(vals) else None
    if name == "list mixing int and float":
        return [int(v) if v.denominator == 1 and i % 2 == 0 else float(v) for i, v in enumerate(vals)]
    if name in INT_DTYPES:
        # fixed-width integers of every width (the values themselves must fit; steps may exceed the type's range, where a
        # subtraction in that type would wrap around)
        info = np.iinfo(INT_DTYPES[name])
        ok = _isint(vals) and all(info.min <= v <= info.max for v in vals)
        return np.array([int(v) for v in vals], dtype=INT_DTYPES[name]) if ok else None
    if name == "ndarray float32":
        return np.array(f, dtype=np.float32) if exactbits(vals, 24, 60) else None     # (slope products stay normal in float32)
    if name == "strided view of a float64 ndarray":
        buf = np.full(2 * n, 777.25)
        buf[::2] = f
        return buf[::2]
    if name == "reversed view of a float64 ndarray":
        return np.array(f[::-1])[::-1]
    if name == "column of a 2-D float64 ndarray":
        return np.column_stack([np.full(n, -3.5), np.array(f), np.arange(n, dtype=float)])[:, 1]
    if name == "read-only float64 ndarray":
        arr = np.array(f)
        arr.flags.writeable = False
        return arr
    raise KeyError(name)


INT_DTYPES = {"ndarray int64": np.int64, "ndarray int32": np.int32, "ndarray int16": np.int16, "ndarray int8": np.int8,
              "ndarray uint8": np.uint8, "ndarray uint16": np.uint16, "ndarray uint64": np.uint64,
              "ndarray int32, large steps": np.int32}
ARRAY_SPELLINGS = ["ndarray int64", "ndarray int32", "ndarray int16", "ndarray int8", "ndarray uint8", "ndarray uint16",
                   "ndarray uint64", "ndarray float32", "strided view of a float64 ndarray",
                   "reversed view of a float64 ndarray", "column of a 2-D float64 ndarray", "read-only float64 ndarray"]
SPELLINGS = ["list of float", "tuple of float", "list of numpy float64 scalars", "list of int", "list mixing int and float",
             "cycles(generator)"] + ARRAY_SPELLINGS
HOWS = ["kw", "pos", "kw, numpy bool", "kw, int 0/1"]


def _ep(ep, how):
    return (np.True_ if ep else np.False_) if how == "kw, numpy bool" else int(ep) if how == "kw, int 0/1" else ep


def diff_wraps(vals, spelling):
    """some step of the series is not representable in the integer type of the array (np.diff wraps around there)"""
    if spelling not in INT_DTYPES:
        return False
    info = np.iinfo(INT_DTYPES[spelling])
    v = [int(Fraction(x)) for x in vals]
    return any(not (info.min <= q - p <= info.max) for p, q in zip(v, v[1:]))


def is_f8w(f):
    """narrow matcher of finding F8w: `signal.find_reversals` takes `np.diff(x) < 0` in the array's own integer type; the failing
    recount clause is on an integer array one of whose steps is not representable in that type (always the case for a
    descending step of an unsigned array), and on the float64 array of the same samples the clause holds (or has shape F8b)"""
    try:
        inp = f["input"]
        if f.get("clause") not in ("recount-find_reversals", "spelling-find_reversals") or inp.get("kind") != "spelling":
            return False
        s = [frac(v) for v in inp["series"]]
        if not diff_wraps(s, inp.get("spelling")):
            return False
        from qats.signal import find_reversals
        fr = find_reversals(np.array(fl(s)))[0]
        return len(fr) < 2 or table(fr, True) == table(s) or is_f8b_shape(inp["series"])
    except Exception:
        return False


def count_via(sp, vals, ep=False, how="kw"):
    """cycle table of the series handed over as spelling `sp`, `endpoints` passed by keyword / position / as numpy bool / as 0, 1;
    None = not applicable"""
    from qats.fatigue.rainflow import count_cycles, cycles
    e = _ep(ep, how)
    if sp == "cycles(generator)":
        gen = (float(v) for v in vals)
        full, half = cycles(gen, e) if how == "pos" else cycles(gen, endpoints=e)
        return sorted([(fr_(r), fr_(m), Fraction(1)) for r, m in full] + [(fr_(r), fr_(m), Fraction(1, 2)) for r, m in half])
    obj = spell(sp, vals)
    if obj is None:
        return None
    return _norm(count_cycles(obj, e) if how == "pos" else count_cycles(obj, endpoints=e))


def f8w_present():
    """probe of finding F8w (find_reversals subtracts in the array's integer type): while it is present the seeded integer-array
    cases with a wrapping step skip the find_reversals clause (the corpus inputs report it), once it is repaired they
    are evaluated like every other case"""
    from qats.signal import find_reversals
    try:
        return [int(v) for v in find_reversals(np.array([0, 2, 1, 3, 0], dtype=np.uint8))[0]] != [2, 1, 3]
    except Exception:
        return True


def spelling_clauses(sp, how, s, a, b, t2, report, skip_wrap=False):
    """the clauses with the (transformed) series handed over as another kind of object; the reference is the table of the float64
    ndarray of the original series, i.e. the same series in another container is the identity instance of the shift clause"""
    from qats.signal import find_reversals
    from qats.fatigue.rainflow import count_cycles, reversals
    inp = dict(kind="spelling", series=[str(v) for v in s], spelling=sp, endpoints_as=how, a=str(a), b=str(b))
    base = call(table, s)
    if isinstance(base, str):
        return
    for aa, bb, clause, text in ((Fraction(1), Fraction(0), "spelling-identity", "the same series"),
                                 (a, b, "spelling-affine", "a*x+b"), (Fraction(-1), Fraction(0), "spelling-affine", "-x")):
        got = call(count_via, sp, [aa * v + bb for v in s], False, how)
        exp = transform(base, aa, bb)
        if got is not None and got != exp:
            report("count_cycles of %s given as %s: ranges |a|*r, means a*m+b, same counts as for the float64 ndarray of x" % (text, sp),
                   dict(inp, a=str(aa), b=str(bb)), show(exp), show(got), clause)
    if t2 is not None:
        for ep in (False, True):
            exp = call(table, s, ep)
            got = call(count_via, sp, t2, ep, how)
            if got is not None and got != exp:
                report("inserting repeated / in-between samples changes nothing (refined series given as %s)" % sp,
                       dict(inp, refined=[str(v) for v in t2], endpoints=ep), show(exp), show(got), "spelling-refine")
    rv = call(lambda: list(reversals(fl(s))))
    if isinstance(rv, str) or len(rv) < 2 or sp == "cycles(generator)":
        return
    obj = spell(sp, s)
    if obj is None:
        return
    e = _ep(True, how)
    got = call(lambda: _norm(count_cycles(reversals(obj), e) if how == "pos" else count_cycles(reversals(obj), endpoints=e)))
    if got != base:
        report("count_cycles(reversals(x), endpoints=True) == count_cycles(x) (x given as %s, the generator handed on directly)" % sp,
               inp, show(base), show(got), "spelling-recount-reversals")
    if isinstance(obj, np.ndarray) and not (skip_wrap and diff_wraps(s, sp)):
        fr = call(lambda: find_reversals(obj)[0])
        if isinstance(fr, str):
            report("find_reversals must not raise (x given as %s)" % sp, inp, "turning points", fr, "spelling-find_reversals")
        elif len(fr) >= 2:
            got = call(lambda: _norm(count_cycles(fr, endpoints=e)))
            if got != base:
                report("count_cycles(find_reversals(x)[0], endpoints=True) == count_cycles(x)", inp, show(base), show(got),
                       "recount-find_reversals")
        else:
            report("find_reversals(x) finds the turning points of x given as %s (reversals(x) yields %d)" % (sp, len(rv)), inp,
                   [str(v) for v in rv], [str(v) for v in fr], "spelling-find_reversals")


# ---- histories ----------------------------------------------------------------------------------------------------------------------
def array_history(s, a, b, report):
    """one ndarray owned by the caller is handed to every function in a row, overwritten in place, and counted again"""
    from qats.signal import find_reversals
    from qats.fatigue.rainflow import count_cycles, cycles, reversals
    inp = dict(kind="array-history", series=[str(v) for v in s], a=str(a), b=str(b))
    base = call(table, s)
    if isinstance(base, str):
        return
    xa = np.array(fl(s))

    def steps():
        out = [_norm(count_cycles(xa))]
        find_reversals(xa)
        list(reversals(xa, endpoints=True))
        cycles(xa)
        count_cycles(xa, endpoints=True)
        call(count_cycles, xa[:1])                       # a rejected request (a single sample) in between
        out.append(_norm(count_cycles(xa)))
        out.append(_norm(count_cycles(xa, endpoints=True)))
        xa[:] = fl([a * v + b for v in s])               # the caller overwrites the data in place
        out.append(_norm(count_cycles(xa)))
        fr, _ = find_reversals(xa)
        out.append(list(fr))
        return out
    got = call(steps)
    if isinstance(got, str):
        report("a history of calls on one ndarray must not raise", inp, "tables", got, "array-history")
        return
    t = [a * v + b for v in s]
    exp = [base, base, call(table, s, True), transform(base, a, b)]
    if got[:4] != exp:
        report("one ndarray counted, searched for turning points, counted with end points, counted again (same table: shift by 0), "
               "overwritten in place with a*x+b and counted again (ranges |a|*r, means a*m+b, same counts)", inp,
               [show(e) for e in exp], [show(g) for g in got[:4]], "array-history")
    fresh = call(lambda: list(find_reversals(np.array(fl(t)))[0]))
    if got[4] != fresh:
        report("find_reversals of an ndarray overwritten in place == find_reversals of a fresh ndarray of the same samples", inp,
               str(fresh), str(got[4]), "array-history")


def ts_history(s, t0, dt, a, b, way, report):
    """one TimeSeries object: counted, counted on a sub-window, queried, counted with resampling, counted again; then its data are
    replaced (`way`: a new array assigned to `.x` / the stored array overwritten in place) and it is counted again"""
    inp = dict(kind="ts-history", series=[str(v) for v in s], t0=str(t0), dt=str(dt), a=str(a), b=str(b), way=way)
    t = [a * v + b for v in s]
    n = len(s)
    i, j = n // 4, n - 1 - n // 4

    def fresh(vals, **kw):
        return _norm(_mkts(vals, t0, dt)[0].rfc(**kw))

    def steps():
        ts, ta, xa = _mkts(s, t0, dt)
        sub = (float(ta[i]), float(ta[j]))
        out = [_norm(ts.rfc()), _norm(ts.rfc(twin=sub))]
        ts.get(twin=sub)
        ts.rfc(resample=float(Fraction(dt) / 2))
        out.append(_norm(ts.rfc()))
        if way == "assign":
            ts.x = np.array(fl(t))
        else:
            ts.x[:] = fl(t)
        out += [_norm(ts.rfc()), _norm(ts.rfc(twin=sub))]
        return out, sub
    res = call(steps)
    if isinstance(res, str):
        report("a history of queries on one TimeSeries object must not raise", inp, "tables", res, "ts-history")
        return
    got, sub = res
    b0, b1 = call(fresh, s), call(fresh, s, twin=sub)
    exp = [b0, b1, b0, transform(b0, a, b), transform(b1, a, b)]
    if got != exp:
        report("one TimeSeries object: rfc(), rfc(twin=sub-window), get(), rfc(resample), rfc() give what a fresh object gives "
               "(shift by 0); after its data are replaced by a*x+b, rfc() and rfc(twin=sub-window) give ranges |a|*r, means "
               "a*m+b, same counts", inp, [show(e) for e in exp], [show(g) for g in got], "ts-history")


# ---- transformations that are not exact in floating point, on series free of range ties ---------------------------------------
def _points(xs):
    """first sample, turning points, last sample (own reference, plateaus collapsed)"""
    u = [xs[0]]
    for v in xs[1:]:
        if v != u[-1]:
            u.append(v)
    return [u[k] for k in range(len(u)) if k in (0, len(u) - 1) or (u[k] - u[k - 1]) * (u[k + 1] - u[k]) < 0]


def tie_gap(xs):
    """the smallest margin by which a decision of the counting could flip: the smallest non-zero slope, and the smallest gap
    between two different candidate ranges |p_i - p_j| of points that can be counted"""
    steps = [abs(q - p) for p, q in zip(xs, xs[1:]) if q != p]
    pts = _points(xs)
    rng_ = sorted(abs(p - q) for k, p in enumerate(pts) for q in pts[k + 1:])
    gaps = [v - u for u, v in zip(rng_, rng_[1:])]
    return min(steps + gaps + rng_[:1]) if steps else 0.0


def generic_clauses(xs, a, b, sp, ep, t2, report, skip):
    """affine clause under a rounding tolerance; refinement and recount clauses exactly (no arithmetic is involved in them)"""
    from qats.fatigue.rainflow import count_cycles, reversals
    eps = 2.0 ** -52
    inp = dict(kind="generic", series=[float(v).hex() for v in xs], a=float(a).hex(), b=float(b).hex(), spelling=sp, endpoints=ep,
               refined=[float(v).hex() for v in t2], readable=dict(series=[repr(v) for v in xs], a=a, b=b))

    def cnt(vals, e):
        obj = np.array(vals) if sp == "ndarray" else list(vals)
        return [tuple(float(v) for v in row) for row in count_cycles(obj, endpoints=e)]
    base = call(cnt, xs, ep)
    if isinstance(base, str):
        report("count_cycles must not raise", inp, "table", base, "generic-base")
        return
    # refinement / recount: exact
    for e in (False, True):
        b0, got = call(cnt, xs, e), call(cnt, t2, e)
        if got != b0:
            report("inserting repeated / in-between samples changes nothing (generic float series)", dict(inp, endpoints=e),
                   str(b0), str(got), "generic-refine")
    rv = call(lambda: [float(v) for v in reversals(list(xs))])
    if not isinstance(rv, str) and len(rv) >= 2:
        b0, got = call(cnt, xs, False), call(cnt, rv, True)
        if got != b0:
            report("count_cycles(reversals(x), endpoints=True) == count_cycles(x) (generic float series)", inp, str(b0), str(got),
                   "generic-recount")
    # affine, with tolerance
    err = eps * (abs(a) * max(abs(v) for v in xs) + abs(b))        # bound of the rounding error of one transformed sample
    g = tie_gap(xs)
    if not abs(a) * g > 100 * err:
        skip()
        return
    tol = 8 * err
    got = call(cnt, [a * v + b for v in xs], ep)
    exp = sorted((abs(a) * r, a * m + b, c) for r, m, c in base)
    ok = not isinstance(got, str) and len(got) == len(exp) and all(
        abs(g_[0] - e_[0]) <= tol and abs(g_[1] - e_[1]) <= tol and g_[2] == e_[2] for g_, e_ in zip(sorted(got), exp))
    if not ok:
        report("count(a*x+b) for an inexact unit conversion of a series free of range ties: ranges |a|*r, means a*m+b within the "
               "rounding tolerance 8*eps*(|a|*max|x|+|b|), same counts", inp, str(exp), str(got), "generic-affine", tol=tol)


def gen_generic(rng):
    n = rng.choice([3, 4, 5, 6, 8, 12, 20, 40])
    kind = rng.random()
    if kind < 0.5:
        xs = [rng.gauss(0.0, 1.0) for _ in range(n)]
    elif kind < 0.8:
        xs = [round(rng.gauss(10.0, 25.0), rng.choice([1, 2, 3])) for _ in range(n)]       # logged decimal data
    else:
        x, xs = rng.uniform(-1, 1), []
        for _ in range(n):
            x += rng.uniform(-1, 1)
            xs.append(x)
    a = rng.choice([9.81, 1e-3, 1e-3 / 7.3, 1e6, -0.45359237, 1.0 / 3.0, 4.4482216, 6.894757e-3, -1.0, 1.0, 0.1, -1e3])
    b = rng.choice([0.0, 0.0, 0.1, -273.15, 101325.0, 1e5 / 3.0, -0.7, 1.0])
    t2 = []
    for k, v in enumerate(xs):
        t2.append(v)
        for _ in range(rng.choice([0, 0, 1, 1, 2, 3])):
            if rng.random() < 0.5 or k + 1 == len(xs):
                t2.append(t2[-1])
            else:
                w = xs[k + 1]
                lo, hi = min(t2[-1], w), max(t2[-1], w)
                t2.append(min(max(t2[-1] + rng.random() * (w - t2[-1]), lo), hi))        # weakly between, monotone towards w
    return xs, a, b, t2


def heavy_refine(rng, s):
    """several insertions per gap: runs of repeated samples, monotone chains of in-between points, zero-order hold, up-sampling"""
    kind = rng.random()
    if kind < 0.15:
        m = rng.choice([2, 3, 5])
        return [v for v in s for _ in range(m)]                                               # np.repeat(x, m)
    if kind < 0.3:
        m = rng.choice([2, 4, 8])
        out = []
        for v, w in zip(s, s[1:]):
            out += [v + Fraction(k, m) * (w - v) for k in range(m)]                           # linear up-sampling by m
        return out + [s[-1]]
    out = []
    for i, v in enumerate(s):
        out += [v] * (1 + rng.choice([0, 0, 0, 1, 2, 3, 12]))
        if i + 1 < len(s):
            w = s[i + 1]
            lams = sorted(Fraction(rng.randint(0, 8), 8) for _ in range(rng.choice([0, 0, 1, 2, 3, 5])))
            for lam in lams:
                out += [v + lam * (w - v)] * rng.choice([1, 1, 2])
    return out


GRID_STEPS = [Fraction(1), Fraction(1), Fraction(2), Fraction(3), Fraction(1, 2), Fraction(1, 4), Fraction(3, 2), Fraction(5),
              Fraction(3, 4), Fraction(16)]


def gen_grid(rng):
    """a seeded pattern of 2..5 step multipliers, at least two of them different: the series gets the time steps dt*m_i (cyclically);
    all values dyadic, so the time stamps are exact"""
    while True:
        m = tuple(rng.choice(GRID_STEPS) for _ in range(rng.choice([2, 3, 3, 4, 5])))
        if len(set(m)) > 1:
            return m


def underflow_shape(vals):
    """finding F8u: `reversals` multiplies two consecutive slopes; for doubles the product underflows to zero when
    |d1*d2| < 2^-1074 although both slopes are non-zero"""
    v = [Fraction(x) for x in vals]
    u = [v[0]] if v else []
    for x in v[1:]:
        if x != u[-1]:
            u.append(x)
    d = [q - p for p, q in zip(u, u[1:])]
    return any(abs(p * q) < Fraction(1, 2 ** 1074) for p, q in zip(d, d[1:]))


def pick_affine(rng, s, forced=None):
    """a seeded exact map a*x+b for the series `s`"""
    if forced is not None:
        a, b = forced
        return a, b, [a * v + b for v in s]
    r = rng.random()
    if r < 0.70:
        a = Fraction(rng.choice([1, 2, 4, -1, -2]), rng.choice([1, 2, 4]))
    elif r < 0.85:
        a = Fraction(rng.choice([3, -3, 5, 10, 1000, -1000, 7]), rng.choice([1, 1, 2, 8]))       # exact, not a power of two
    else:
        a = rng.choice([1, -1]) * Fraction(2) ** rng.choice([-200, -100, -40, 40, 100, 200])    # the same signal in other units
    # all shifts exact in binary64; with a change of units the shift is given in the new unit
    b = Fraction(rng.choice([rng.randint(-8, 8), rng.randint(-8, 8), 2 ** 31, -2 ** 35, 2 ** 40 + 3, 2 ** 50, 1 - 2 ** 50, 0,
                             Fraction(1, 2), Fraction(-3, 4)]))
    if abs(a) > 2 ** 20 or abs(a) < Fraction(1, 2 ** 20):
        b = a * b
    t = [a * v + b for v in s]
    # the property speaks of transformations that are exact in floating point: series with very fine or very large
    # values (near-ties, 2^+-80 magnitudes) cannot take every shift; fall back to a small shift, then to none
    for b2 in (a * rng.randint(-8, 8) if not pow2(a) or abs(a) > 8 or abs(a) < Fraction(1, 8) else Fraction(rng.randint(-8, 8)),
               Fraction(0)):
        if exact64(t) and exact64(s):
            break
        b = Fraction(b2)
        t = [a * v + b for v in s]
    if not (exact64(t) and exact64(s)):
        a, b = Fraction(rng.choice([1, -1])), Fraction(0)
        t = [a * v for v in s]
    return a, b, t


def run(chk):
    from qats.signal import find_reversals
    from qats.fatigue.rainflow import reversals
    chk.extra["rule"] = RULE
    chk.assumptions += ["exact stream: shifts are integers / halves / multiples of the new unit, scale factors +-2^k (|k| <= 200) or "
                        "small integers, samples small dyadic rationals: every transformation and every difference/mean in the "
                        "implementation is exact in binary floating point",
                        "generic stream: floats with inexact maps a*x+b; a case is evaluated only if every non-zero slope and every "
                        "gap between two candidate ranges, scaled by |a|, exceeds 100 rounding errors eps*(|a|*max|x|+|b|) "
                        "(= free of range ties); ranges and means are compared within 8 such errors, counts exactly",
                        "recount clauses are evaluated when at least two turning points exist (fewer points are outside "
                        "count_cycles' domain of >= 2 samples)"]
    chk.partial += ["find_reversals_spec_partial / recount_find_reversals_partial: proved for signals without plateaus; with "
                    "plateaus the finder's extra points are validated by search only (known finding F8b)"]
    chk.matchers["F8b"] = lambda f: f.get("clause") == "recount-find_reversals" and is_f8b_shape(f["input"]["series"])
    drv = core.Driver()
    rng = chk.rng
    import random
    grng = random.Random("C03 time grids %d" % chk.seed)     # own seeded stream: the choices below leave chk.rng's sequence as it was
    cases, forced, extra_sp, cgrid = [], [], [], {}
    corpus_plots, corpus_long, corpus_big = [], [], []
    for c in core.load_corpus("C03"):
        if c.get("kind") == "big":
            corpus_big.append(c)
            continue
        if c.get("kind") == "plot-multi":
            corpus_plots.append(c)
            continue
        if c.get("kind") == "long-record":
            corpus_long.append(c)
            continue
        if "grid" in c:
            cgrid[len(cases)] = tuple(frac(v) for v in c["grid"])
        cases.append([frac(v) for v in c["series"]])
        forced.append((frac(c["a"]), frac(c.get("b", "0"))) if "a" in c else None)
        extra_sp.append(c.get("spelling"))
    ncorpus = len(cases)
    import itertools
    for n in range(2, (6 if chk.quick else 7) + 1):
        for w in itertools.product([0, 1, 2, 3], repeat=n):
            cases.append([Fraction(v) for v in w])
    for seq, ep in c02.gen_cases(chk):
        if len(seq) >= 2 and len(seq) > 6:
            cases.append(seq)
    forced += [None] * (len(cases) - ncorpus)
    extra_sp += [None] * (len(cases) - ncorpus)

    def rep(o, i, e, g, c, **kw):
        chk.fail(o, i, e, g, clause=c, **kw)
    # ---- correspondence: find_reversals -------------------------------------------------------------------
    lines = ["sig.find_reversals " + " ".join(rat(v) for v in s) for s in cases]
    outs = drv.run(lines)
    for s, o in zip(cases, outs):
        try:
            rev, idx = find_reversals(np.array([float(v) for v in s]))
            got = "ok " + ";".join("%d:%s" % (i, rat(Fraction(float(v)))) for i, v in zip(idx, rev))
        except Exception as e:
            got = "err:" + type(e).__name__
        chk.count("sig.find_reversals")
        if o != got.rstrip() and o.strip() != got.strip():
            chk.disagree("sig.find_reversals", dict(series=[str(v) for v in s]), o, got)
    # ---- correspondence of the counting itself on transformed inputs (model = C02's) --------------------------
    tlines, tmeta = [], []
    for s, fo in zip(cases, forced):
        a, b, t = pick_affine(rng, s, fo)
        tlines.append("rf.count 0 " + " ".join(rat(v) for v in t))
        tmeta.append((s, a, b, t))
    touts = drv.run(tlines)
    f8w = f8w_present()
    later = []              # (refined series, endpoints) for the model correspondence of refined series
    nplots = 0
    for k, ((s, a, b, t), o) in enumerate(zip(tmeta, touts)):
        chk.count("rf.count(a*x+b)")
        mt = c02.parse_table(o)
        it = call(table, t)
        if isinstance(mt, str) or isinstance(it, str):
            if isinstance(mt, str) != isinstance(it, str):
                chk.disagree("rf.count(a*x+b)", dict(series=[str(v) for v in t]), str(mt), str(it))
        elif sorted(mt) != it:
            chk.disagree("rf.count(a*x+b)", dict(series=[str(v) for v in t]), str(mt)[:300], str(it)[:300])
        # ---- metamorphic oracles on the implementation (evaluated also when the tie is already broken) -------------
        inp = dict(series=[str(v) for v in s], a=str(a), b=str(b))
        base = call(table, s)
        if isinstance(base, str):
            chk.fail("count_cycles must not raise", inp, "table", base, clause="base")
            continue
        if base:
            chk.nontriv(tuple(s))
        chk.dist("cycles=%s" % ("0" if not base else "1-3" if len(base) <= 3 else ">3"))
        chk.dist("a:%s" % ("2^k,|k|<=2" if pow2(a) and Fraction(1, 4) <= abs(a) <= 4 else "2^k,|k|>=40" if pow2(a) else "not 2^k"))
        exp = sorted((abs(a) * r, a * m + b, c) for r, m, c in base)
        if it != exp:
            chk.fail("count(a*x+b): ranges |a|*r, means a*m+b, same counts", inp, [list(map(str, r)) for r in exp],
                     show(it), clause="affine")
        incorpus = k < ncorpus
        # audit extensions on the corpus, the short words and a seeded subset; the cheaper ones on every case in the quick tier and
        # on a seeded 20 % of the many long generated cases in the thorough tier
        sub = incorpus or len(s) <= 4 or rng.random() < (0.10 if chk.quick else 0.015)
        more = chk.quick or sub or len(s) <= 6 or rng.random() < 0.2
        bt, itt = (call(table, s, True), call(table, t, True)) if more else ([], [])   # the same clause with end points included
        if isinstance(bt, str) or itt != transform(bt, a, b):
            chk.fail("count(a*x+b, endpoints=True): ranges |a|*r, means a*m+b, same counts", dict(inp, endpoints=True),
                     show(transform(bt, a, b)), show(itt), clause="affine")
        # repetition / in-between insertion
        t2, at2 = [], []                           # at2: where in time each refined sample sits (see refined_times)
        for i, v in enumerate(s):
            t2.append(v)
            at2.append((i, Fraction(0)))
            kk = rng.random()
            if kk < 0.3:
                t2.append(v)                       # repeat
                at2.append((i, Fraction(1 + (i + len(s)) % 3, 4)))
            elif kk < 0.6 and i + 1 < len(s):
                w = s[i + 1]
                lam = Fraction(rng.choice([0, 1, 2, 3, 4]), 4)
                t2.append(v + lam * (w - v))       # weakly between (dyadic)
                at2.append((i, lam if 0 < lam < 1 else Fraction(1 + (i + len(s)) % 3, 4)))
        t3 = heavy_refine(rng, s)                  # several insertions per gap
        for tr in (t2, t3) if more else (t2,):
            inp2 = dict(series=[str(v) for v in s], refined=[str(v) for v in tr])
            for ep in (False, True):
                e0, g0 = (bt if ep and more else call(table, s, True) if ep else base), call(table, tr, ep)
                if g0 != e0:
                    chk.fail("inserting repeated / in-between samples changes nothing", dict(inp2, endpoints=ep), show(e0), show(g0),
                             clause="refine")
        # recount from rainflow.reversals
        xs = [float(v) for v in s]
        rv = call(lambda: list(reversals(xs)))
        if isinstance(rv, str):
            chk.fail("reversals must not raise", inp, "turning points", rv, clause="recount-reversals")
            rv = []
        if len(rv) >= 2:
            r1 = call(table, rv, True)
            if r1 != base:
                chk.fail("count_cycles(reversals(x), endpoints=True) == count_cycles(x)", inp,
                         [list(map(str, r)) for r in base], show(r1), clause="recount-reversals")
        fr = call(lambda: find_reversals(np.array(xs))[0])
        if isinstance(fr, str):
            chk.fail("find_reversals must not raise", inp, "turning points", fr, clause="find_reversals-raises")
            fr = []
        chk.dist("find_reversals:%s" % ("same" if list(fr) == rv else "extra-plateau-points"))
        if len(fr) >= 2 and len(rv) >= 2:
            r2 = call(table, fr, True)
            if r2 != base:
                chk.fail("count_cycles(find_reversals(x)[0], endpoints=True) == count_cycles(x)", inp,
                         [list(map(str, r)) for r in base], show(r2), clause="recount-find_reversals")
        # ---- the same clauses through the entry points that count cycles of a time series object --------------
        t0, dt = Fraction(rng.choice([0, 0, 10, -3])), Fraction(rng.choice([1, 1, 2, Fraction(1, 2), Fraction(1, 4)]))
        # thorough tier: every entry point on the short series, one seeded entry point on each of the many long generated ones (time)
        names = list(ENTRIES) if chk.quick or len(s) <= 6 or incorpus else [rng.choice(list(ENTRIES))]
        if sub:
            names = names + [n for n in ENTRIES2 if incorpus or len(s) <= 3 or rng.random() < 0.5]
            if (incorpus and len(s) <= 12) or (nplots < (30 if chk.quick else 150) and rng.random() < 0.03):
                names = names + list(PLOTS)
                nplots += 1
        # redundant samples time-stamped in between their neighbours (the refined series has a varying time step): through the GUI
        # wrapper on every case in addition to the refined series on the continued grid, through one more seeded entry point instead
        # of it (in addition to it on the audit subset), through all entry points on the corpus
        apps = [n for n in names if n in APP_PLAIN]
        other = grng.choice([n for n in names if n not in apps] or names)
        timed = set(names) if incorpus else set(apps + [other] + ([grng.choice(names)] if sub else []))
        for name in names:
            chk.count("entry:" + name)
            eb = entry_clauses(name, s, t0, dt, a, b, t2, rep, skip=lambda: chk.dist("entry:not-applicable-skipped"),
                               factors=(2, 4) if sub else (2,), at2=at2 if name in timed else None,
                               untimed=sub or name != other or name in apps)
            # tie of the entry point to count_cycles on the raw samples (an empty table cannot be unpacked by the GUI helper)
            if eb is not None and eb != project(name, base) and not (isinstance(eb, str) and not base and name in EMPTY_RAISES):
                chk.disagree("entry==count_cycles", dict(series=[str(v) for v in s], entry=name, t0=str(t0), dt=str(dt)),
                             str(show(project(name, base)))[:300], str(show(eb))[:300])
        # ---- the same clauses with the series stored on a NON-UNIFORM time grid (seeded pattern of steps dt*m) ----------------
        # all entry points on the corpus, four of them on the audit subset; elsewhere the GUI wrapper (with or without time window)
        # or one seeded other entry point, on a seeded 20 % of the cases (10 % of the long generated ones in the thorough tier)
        if sub or grng.random() < (0.2 if chk.quick or len(s) <= 6 else 0.1):
            mults = cgrid.get(k) or gen_grid(grng)
            g = ("steps", dt, mults)
            if incorpus:
                gnames = [n for n in names if n not in PLOTS and n not in UNIFORM_ONLY]
            elif sub:
                more2 = [n for n in names if n in ENTRIES2 and n not in UNIFORM_ONLY and n != APP_PLAIN[1]]
                gnames = (list(APP_PLAIN) + [grng.choice([n for n in ENTRIES if n != APP_PLAIN[0]])]
                          + grng.sample(more2, min(1, len(more2))))
            else:
                gnames = [grng.choice(APP_PLAIN) if grng.random() < 0.6 else grng.choice(list(ENTRIES))]
            chk.dist("non-uniform time grid: %d distinct steps" % len(set(mults)))
            for name in gnames:
                chk.count("entry on a non-uniform time grid:" + name)
                eb = entry_clauses(name, s, t0, g, a, b, t2, rep, skip=lambda: chk.dist("entry:not-applicable-skipped"), at2=at2)
                if eb is not None and eb != project(name, base) and not (isinstance(eb, str) and not base and name in EMPTY_RAISES):
                    chk.disagree("entry==count_cycles", dict(series=[str(v) for v in s], entry=name, t0=str(t0), dt=str(dt),
                                                             grid=[str(m) for m in mults]),
                                 str(show(project(name, base)))[:300], str(show(eb))[:300])
        if sub:
            sps = [rng.choice(SPELLINGS), rng.choice(ARRAY_SPELLINGS)] if not incorpus else list(SPELLINGS)
            if extra_sp[k]:
                sps = [extra_sp[k]] + sps
            for sp in sps:
                how = rng.choice(HOWS)
                chk.count("spelling:" + sp)
                spelling_clauses(sp, how, s, a, b, rng.choice([t2, t3]), rep, skip_wrap=f8w and sp != extra_sp[k])
                if f8w and sp != extra_sp[k] and diff_wraps(s, sp):
                    chk.dist("find_reversals on an integer array with a wrapping step: skipped while F8w is present")
            chk.count("array-history")
            array_history(s, a, b, rep)
            chk.count("ts-history")
            ts_history(s, t0, dt, a, b, rng.choice(["assign", "overwrite"]), rep)
            later += [(s, tr) for tr in (t2, t3) if exact64(tr)]
        if len(chk.samples) < 4 and base and len(s) > 5:
            chk.sample(dict(series=[str(v) for v in s], a=str(a), b=str(b), refined=[str(v) for v in t2]))
    # ---- model correspondence of refined series, end points included (the refinement clause is tied to the model too) -------
    louts = drv.run(["rf.count 1 " + " ".join(rat(v) for v in tr) for _, tr in later])
    for (s, tr), o in zip(later, louts):
        chk.count("rf.count(refined, endpoints)")
        mt, it = c02.parse_table(o), call(table, tr, True)
        if isinstance(mt, str) or isinstance(it, str):
            if isinstance(mt, str) != isinstance(it, str):
                chk.disagree("rf.count(refined, endpoints)", dict(series=[str(v) for v in tr]), str(mt), str(it))
        elif sorted(mt) != it:
            chk.disagree("rf.count(refined, endpoints)", dict(series=[str(v) for v in tr]), str(mt)[:300], str(it)[:300])
    # ---- several series of different amplitude / level drawn by ONE plotting call: the clauses per series --------------------
    prng = random.Random("C03 plots and long records %d" % chk.seed)     # own seeded stream (chk.rng's sequence stays as it was)
    pool = [s for s, _, _, _ in tmeta if 6 <= len(s) <= 60 and len(set(s)) > 3]
    pcases = [(c["call"], [frac(v) for v in c["series"]], frac(c.get("t0", "0")), frac(c.get("dt", "1")),
               [(frac(p), frac(q)) for p, q in c["maps"]], [int(v) for v in c["order"]],
               dict((k, frac(v)) for k, v in c.get("opts", {}).items())) for c in corpus_plots]
    pcases += [gen_plot_case(prng, pool, PLOT_CALLS[j % 4]) for j in range(16 if chk.quick else 300)] if pool else []
    for pc in pcases:
        chk.count("plot-multi:" + pc[0])
        ref = plot_multi_clauses(*pc, report=rep)
        chk.dist("plot-multi: %d series in one call, %s" % (len(pc[4]), "not drawable (no cycles)" if ref is None else
                                                             "bin width given" if "w" in pc[6] else "number of bins"))
        if ref is not None:
            chk.nontriv(("plot-multi",) + tuple(pc[1]))
    # ---- long records (more than 1000 samples, also after a time window) with repeated samples at the ends -----------------
    lcases = [dict(c) for c in corpus_long]
    lengths = ([1001, prng.randint(1002, 1100), prng.randint(1200, 2600), prng.choice([4095, 4096, 4097, 9999, 10000, 10001])]
               if chk.quick else
               [1001, 1002, 1024, 1025, 2048, 4097, 10001] + [prng.randint(1001, 1100) for _ in range(8)]
               + [prng.randint(1100, 6000) for _ in range(16)] + [prng.randint(10000, 20000) for _ in range(2)]
               + [prng.randint(900, 1000) for _ in range(4)])
    flanks = [("fall", "fall"), ("rise", "fall"), ("fall", "rise"), ("rise", "rise")]
    prng.shuffle(flanks)
    for j, n in enumerate(lengths):
        st, en = flanks[j % 4]
        p0, p1 = prng.choice([(1, 1), (2, 1), (1, 3), (2, 2), (4, 1)])
        q0, q1 = prng.choice([(1, 0), (0, 1), (1, 1), (2, 3), (7, 1)])
        a = Fraction(prng.choice([2, 4, 1, 3]), prng.choice([1, 2, 4]))
        lcases.append(dict(gen_seed="%d/%d" % (chk.seed, j), length=n, start=st, end=en, p0=p0, p1=p1, q0=q0, q1=q1,
                           a=str(a), b=str(prng.choice([0, 5, -3, 16])), t0=str(prng.choice([0, 10, -3])),
                           dt=str(prng.choice([Fraction(1), Fraction(1, 2), Fraction(2)]))))

    def ldis(name, s, eb, base):
        chk.disagree("entry==count_cycles", dict(kind="long-record", entry=name, length=len(s)),
                     str(show(project(name, base)))[:300], str(show(eb))[:300])
    for j, spec in enumerate(lcases):
        spec.pop("note", None)
        spec.pop("kind", None)
        names = spec.pop("entries", None) or (LONG_NAMES[:3] if j % 2 == 0 or not chk.quick else
                                              [LONG_NAMES[0], prng.choice(LONG_NAMES[2:])])
        if not chk.quick and j % 3 == 0:
            names = list(LONG_NAMES)
        for name in names:
            chk.count("long record, entry:" + name)
        s, base = long_clauses(spec, names, rep, disagree=ldis, timed=not chk.quick or j == 0)
        chk.dist("long record: %s samples, starts on a %s, ends on a %s" % (
            "<= 1000" if len(s) <= 1000 else "1001-1100" if len(s) <= 1100 else "> 1100", spec["start"], spec["end"]))
        if base and not isinstance(base, str):
            chk.nontriv(("long", spec["gen_seed"], spec["length"]))
    # ---- long records at the function level: sizes around 1000 / 1024 / 4096 / 10000 and beyond 65536 -------------------------
    brng = random.Random("C03 big records %d" % chk.seed)
    bcases = [dict(c) for c in corpus_big] + list(gen_big(brng, chk.quick))
    for p_ in bcases:
        p_.pop("kind", None), p_.pop("note", None), p_.pop("head", None), p_.pop("tail", None)
        chk.count("big record (functions)")
        chk.dist("big record: n=%d %s" % (p_["n"], p_["shape"]))
        try:
            nrows = big_clauses(p_, rep)
        except Exception as e:
            nrows = None
            rep("the clauses can be evaluated on a long record (well-formed results)", dict(p_, kind="big"), "no error",
                "%s: %s" % (type(e).__name__, str(e)[:200]), "big-raises")
        if nrows:
            chk.nontriv(("big", p_["n"], p_["shape"], p_["seed"]))
    # ---- inexact unit conversions on generic float series free of range ties ----------------------------------------------
    for _ in range(600 if chk.quick else 3000):
        xs, a, b, t2 = gen_generic(rng)
        chk.count("generic a*x+b")
        generic_clauses(xs, a, b, rng.choice(["ndarray", "list"]), rng.random() < 0.3, t2, rep,
                        skip=lambda: chk.dist("generic:near-tie-skipped"))
        chk.dist("generic:cases")


AFFINE_CLAUSES = ("affine", "spelling-affine", "spelling-identity", "entry-affine", "entry-container", "array-history", "ts-history")


def is_f8u(f):
    """narrow matcher of finding F8u (slope product underflows): the transformed series a*x+b of the failing affine clause has two
    consecutive non-zero slopes whose product underflows to zero in binary64, and the same map at a harmless magnitude (scaled by a power of two into the unit range, float64) transforms the count correctly"""
    try:
        inp = f["input"]
        if "series" not in inp or inp.get("kind") == "generic":
            return False
        if str(f.get("oracle", "")).startswith("correspondence:rf.count"):
            return underflow_shape([frac(v) for v in inp["series"]])
        if f.get("clause") not in AFFINE_CLAUSES:
            return False
        s = [frac(v) for v in inp["series"]]
        a, b = frac(inp.get("a", "1")), frac(inp.get("b", "0"))
        t = [a * v + b for v in s]
        if inp.get("spelling") in INT_DTYPES or not underflow_shape(t):
            return False
        top = max(abs(v) for v in t)
        k = 0
        while top * Fraction(2) ** k < 1:
            k += 1
        a2, b2 = a * Fraction(2) ** k, b * Fraction(2) ** k
        return table([a2 * v + b2 for v in s]) == transform(table(s), a2, b2)
    except Exception:
        return False


def replay(rp):
    from qats.signal import find_reversals
    from qats.fatigue.rainflow import reversals
    inp = rp["input"]
    bad = []

    def report(o, i, e, g, c, **kw):
        bad.append(c)
        print("FAILS: %s\n  input    %s\n  expected %s\n  observed %s" % (o, i, e, g))

    def done():
        print("replay: %d failing clause(s)" % len(bad))
        return 1 if bad else 0
    kind = inp.get("kind")
    if kind == "plot-multi":
        plot_multi_clauses(inp["call"], [frac(v) for v in inp["series"]], frac(inp["t0"]), frac(inp["dt"]),
                           [(frac(p), frac(q)) for p, q in inp["maps"]], [int(v) for v in inp["order"]],
                           dict((k, frac(v)) for k, v in inp["opts"].items()), report)
        return done()
    if kind == "big":
        big_clauses({k: v for k, v in inp.items() if k not in ("kind", "head", "tail", "endpoints", "a_used", "b_used")}, report)
        return done()
    if kind == "long-record":
        long_clauses(inp["spec"], [inp["entry"]], report, timed=True,
                     disagree=lambda name, s, eb, base: print("entry point differs from count_cycles on the raw samples"))
        return done()
    if kind == "generic":
        generic_clauses([float.fromhex(v) for v in inp["series"]], float.fromhex(inp["a"]), float.fromhex(inp["b"]),
                        inp["spelling"], inp["endpoints"], [float.fromhex(v) for v in inp["refined"]], report,
                        lambda: print("skipped: not free of range ties at this tolerance"))
        return done()
    s = [frac(v) for v in inp["series"]]
    a, b = frac(inp.get("a", "1")), frac(inp.get("b", "0"))
    t2 = [frac(v) for v in inp["refined"]] if "refined" in inp else None
    if kind == "spelling":
        spelling_clauses(inp["spelling"], inp.get("endpoints_as", "kw"), s, a, b, t2, report)
        return done()
    if kind == "array-history":
        array_history(s, a, b, report)
        return done()
    if kind == "ts-history":
        ts_history(s, frac(inp["t0"]), frac(inp["dt"]), a, b, inp["way"], report)
        return done()
    if "entry" in inp:
        dt = frac(inp["dt"]) if "grid" not in inp else ("steps", frac(inp["dt"]), tuple(frac(m) for m in inp["grid"]))
        at2 = [(int(i), frac(lam)) for i, lam in inp["refined_at"]] if "refined_at" in inp else None
        eb = entry_clauses(inp["entry"], s, frac(inp["t0"]), dt, a, b, t2, report, at2=at2)
        print("entry point: %s\n  %s\ncount_cycles on the raw samples:\n  %s" % (inp["entry"], show(eb),
                                                                                 show(project(inp["entry"], call(table, s)))))
        return done()
    base = call(table, s)
    if isinstance(base, str):
        report("count_cycles must not raise", inp, "table", base, "base")
        return done()
    if "a" in inp:
        for ep in (False, True):
            got, exp = call(table, [a * v + b for v in s], ep), transform(call(table, s, ep), a, b)
            if got != exp:
                report("affine clause (endpoints=%s)" % ep, inp, show(exp), show(got), "affine")
    if "refined" in inp:
        ep = inp.get("endpoints", False)
        e0, g0 = call(table, s, ep), call(table, t2, ep)
        if g0 != e0:
            report("refinement clause", inp, show(e0), show(g0), "refine")
    xs = [float(v) for v in s]
    rv = call(lambda: list(reversals(xs)))
    fr = call(lambda: list(find_reversals(np.array(xs))[0]))
    if isinstance(rv, str) or isinstance(fr, str):
        report("reversals / find_reversals must not raise", inp, "turning points", str((rv, fr)), "raises")
        return done()
    if len(rv) >= 2 and call(table, rv, True) != base:
        report("recount from reversals", inp, show(base), show(call(table, rv, True)), "recount-reversals")
    if len(rv) >= 2 and len(fr) >= 2 and call(table, fr, True) != base:
        report("recount from find_reversals%s" % (" (F8b shape)" if is_f8b_shape(inp["series"]) else ""), inp, show(base),
               show(call(table, fr, True)), "recount-find_reversals")
    return done()
