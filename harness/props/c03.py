"""
C03 — cycle counts transform with the signal as physics demands.

Tie: C02's model correspondence (reversals / cycles / count_cycles) on the transformed inputs, plus correspondence of
`signal.find_reversals` with Qats.FindReversals.
Search: metamorphic oracles on the implementation alone, with transformations that are exact in floating point:
shift by an integer, scale by ±2^k, repeat samples, insert in-between samples, recount from the turning points
(`rainflow.reversals` and `signal.find_reversals`).
The same clauses are evaluated through every entry point that counts the cycles of a time series object
(`TimeSeries.rfc()` plain / with a time window spanning the series / second call on the same object and on a second
object built from the same arrays, and the GUI helper `app.funcs.calculate_rfc`), where in-between insertion is also
produced by the library itself (`rfc(resample=dt/2)`: linear interpolation at the half steps, exact for dyadic data);
each entry point is additionally tied to `count_cycles` on the raw samples (correspondence stream `entry==count_cycles`).
"""
from fractions import Fraction

import numpy as np

from .. import core
from ..core import rat
from . import c02

RULE = ("seeded random dyadic series (plateaus, ties, random walks) and all words over {0,1,2,3} of length <= 6 (7 thorough); "
        "for each: shift, positive scale, negation, sample repetition, in-between insertion, recount from turning points, "
        "and the same clauses (plus resampling to half the time step) through the TimeSeries.rfc()/calculate_rfc entry points "
        "with seeded time origin and dyadic time step (thorough: one seeded entry point per series longer than 6); "
        "non-trivial = original series has at least one cycle; distinct by series")


def table(x, ep=False):
    from qats.fatigue.rainflow import count_cycles
    c = count_cycles(np.array([float(v) for v in x]), endpoints=ep)
    return sorted(tuple(Fraction(float(v)) for v in row) for row in c)


def exact64(vals):
    """every value, and the sum / difference / mean of any two values, is exact in binary64"""
    vals = [Fraction(v) for v in vals]
    if any(v.denominator & (v.denominator - 1) for v in vals):
        return False
    nz = [abs(v) for v in vals if v != 0]
    if not nz:
        return True
    unit = min(Fraction(v.numerator & -v.numerator, v.denominator) for v in nz)   # largest 2^k dividing every value
    top = max(nz)
    return 4 * top / unit < 2 ** 53 and Fraction(1, 2 ** 900) < unit and top < 2 ** 900


def is_f8b_shape(seq):
    """F8b: `find_reversals` treats a plateau as ascending, so a plateau next to a descent gets flagged although it is no
    turning point.  `reversals(…, endpoints=True)` drops such points again unless one of them is the first or last
    element of the finder's output, where it is kept as an end point.  The finding matches exactly when
    (i) the finder's output contains flagged samples that are not true turning points, all of them on plateaus
    (equal to a neighbouring sample), (ii) one of them is first or last, and (iii) with those samples removed the recount
    is correct — so any other error of the finder is still reported."""
    from qats.signal import find_reversals
    x = [Fraction(v) for v in seq]
    n = len(x)
    fr, idx = find_reversals(np.array([float(v) for v in x]))
    idx = [int(i) for i in idx]
    # true turning plateaus: maximal runs of equal samples whose neighbours lie strictly on the same side
    runs, i = [], 0
    while i < n:
        j = i
        while j + 1 < n and x[j + 1] == x[i]:
            j += 1
        runs.append((i, j))
        i = j + 1
    true_pos = set()
    for k in range(1, len(runs) - 1):
        a, b, c = x[runs[k - 1][0]], x[runs[k][0]], x[runs[k + 1][0]]
        if (b - a) * (c - b) < 0:
            true_pos.update(range(runs[k][0], runs[k][1] + 1))
    spurious = [i for i in idx if i not in true_pos]
    if not spurious:
        return False
    on_plateau = all((i > 0 and x[i - 1] == x[i]) or (i + 1 < n and x[i + 1] == x[i]) for i in spurious)
    at_end = idx[0] in spurious or idx[-1] in spurious
    cleaned = [x[i] for i in idx if i in true_pos]
    if not (on_plateau and at_end) or len(cleaned) < 2:
        return False
    try:
        return table(cleaned, True) == table(x)
    except Exception:
        return False


# ---- entry points that count the cycles of a time series object ----------------------------------------------------
def _norm(c):
    return sorted(tuple(Fraction(float(v)) for v in row) for row in c)


def _mkts(x, t0, dt, name="signal"):
    from qats import TimeSeries
    xa = np.array([float(v) for v in x])
    ta = float(t0) + float(dt) * np.arange(xa.size, dtype=float)
    return TimeSeries(name, ta, xa), ta, xa


def _e_plain(x, t0, dt):
    ts, _, _ = _mkts(x, t0, dt)
    return _norm(ts.rfc())


def _e_twin(x, t0, dt):
    ts, ta, _ = _mkts(x, t0, dt)
    return _norm(ts.rfc(twin=(float(ta[0]), float(ta[-1]))))


def _e_history(x, t0, dt):
    """history on one object and aliasing: count, query the object, count again; then a second object built from the
    same arrays; the last count is the result"""
    from qats import TimeSeries
    ts, ta, xa = _mkts(x, t0, dt)
    ts.rfc()
    ts.get(twin=(float(ta[0]), float(ta[-1])))
    ts.rfc()
    ts2 = TimeSeries("signal-b", ta, xa)
    return _norm(ts2.rfc())


def _e_app(x, t0, dt):
    """GUI helper: ranges and counts only (no rebinning)"""
    from qats.app.funcs import calculate_rfc
    ts, ta, _ = _mkts(x, t0, dt)
    r, c = calculate_rfc({"signal": ts}, (float(ta[0]), float(ta[-1])), None, None)["signal"]
    return sorted((Fraction(float(a)), Fraction(float(b))) for a, b in zip(r, c))


ENTRIES = {
    "TimeSeries.rfc()": _e_plain,
    "TimeSeries.rfc(twin=whole series)": _e_twin,
    "TimeSeries.rfc() after earlier calls on the same object / on a second object of the same arrays": _e_history,
    "app.funcs.calculate_rfc(nbins=None)": _e_app,
}


def entry(name, x, t0, dt):
    """table of the entry point, or 'err:<Exception>' (e.g. calculate_rfc cannot unpack an empty cycle table)"""
    try:
        return ENTRIES[name](x, t0, dt)
    except Exception as e:
        return "err:" + type(e).__name__


def project(name, tab):
    """what the entry point reports of a (range, mean, count) table"""
    if name.startswith("app."):
        return sorted((r, c) for r, _, c in tab)
    return sorted(tab)


def transform(tab, a, b):
    if isinstance(tab, str):
        return tab
    return sorted((abs(a) * row[0], a * row[1] + b, row[2]) if len(row) == 3 else (abs(a) * row[0], row[1]) for row in tab)


def resampled(x, t0, dt):
    """`TimeSeries.rfc(resample=dt/2)`; None unless the library's resampled series is exactly the original samples with the
    exact midpoints inserted (so that the clause 'inserting in-between samples changes nothing' applies literally)"""
    ts, ta, xa = _mkts(x, t0, dt)
    h = float(Fraction(dt) / 2)
    _, xr = ts.get(resample=h)
    if xr.size != 2 * xa.size - 1 or not np.array_equal(xr[::2], xa) or not np.array_equal(xr[1::2], (xa[:-1] + xa[1:]) / 2):
        return None
    return _norm(ts.rfc(resample=h))


def show(tab):
    return tab if isinstance(tab, str) else [list(map(str, r)) for r in tab]


def entry_clauses(name, s, t0, dt, a, b, t2, report, skip=None):
    """the property's clauses evaluated through one entry point; `report(oracle, input, expected, observed, clause)`"""
    common = dict(series=[str(v) for v in s], entry=name, t0=str(t0), dt=str(dt))
    base = entry(name, s, t0, dt)
    for aa, bb in ((a, b), (Fraction(-1), Fraction(0))):
        got = entry(name, [aa * v + bb for v in s], t0, dt)
        exp = transform(base, aa, bb)
        if got != exp:
            report("%s of a*x+b: ranges |a|*r, means a*m+b, same counts (negation mirrors the means)" % name,
                   dict(common, a=str(aa), b=str(bb)), show(exp), show(got), "entry-affine")
    if t2 is not None:
        got = entry(name, t2, t0, dt)
        if got != base:
            report("%s: inserting repeated / in-between samples changes nothing" % name,
                   dict(common, refined=[str(v) for v in t2]), show(base), show(got), "entry-refine")
    if name == "TimeSeries.rfc()" and len(s) >= 2:
        try:
            got = resampled(s, t0, dt)
        except Exception as e:
            got = "err:" + type(e).__name__
        if got is None:
            if skip is not None:
                skip()
        elif got != base:
            report("TimeSeries.rfc(resample=dt/2) (exact midpoints inserted between consecutive samples) changes nothing",
                   dict(common, resample="dt/2"), show(base), show(got), "entry-resample")
    return base


def run(chk):
    from qats.signal import find_reversals
    from qats.fatigue.rainflow import reversals
    chk.extra["rule"] = RULE
    chk.assumptions += ["shifts are integers, scale factors ±2^k, samples small dyadic rationals: every transformation and every "
                        "difference/mean in the implementation is exact in binary floating point",
                        "recount clauses are evaluated when at least two turning points exist (fewer points are outside "
                        "count_cycles' domain of >= 2 samples)"]
    chk.partial += ["find_reversals_spec_partial / recount_find_reversals_partial: proved for signals without plateaus; with "
                    "plateaus the finder's extra points are validated by search only (known finding F8b)"]
    chk.matchers["F8b"] = lambda f: f.get("clause") == "recount-find_reversals" and is_f8b_shape(f["input"]["series"])
    drv = core.Driver()
    rng = chk.rng
    cases = [[Fraction(v) for v in c["series"]] for c in core.load_corpus("C03")]
    corpus = set(tuple(c) for c in cases)
    import itertools
    for n in range(2, (6 if chk.quick else 7) + 1):
        for w in itertools.product([0, 1, 2, 3], repeat=n):
            cases.append([Fraction(v) for v in w])
    for seq, ep in c02.gen_cases(chk):
        if len(seq) >= 2 and len(seq) > 6:
            cases.append(seq)
    # ---- correspondence: find_reversals -------------------------------------------------------------------
    lines = ["sig.find_reversals " + " ".join(rat(v) for v in s) for s in cases]
    outs = drv.run(lines)
    for s, o in zip(cases, outs):
        rev, idx = find_reversals(np.array([float(v) for v in s]))
        got = ";".join("%d:%s" % (i, rat(Fraction(float(v)))) for i, v in zip(idx, rev))
        chk.count("sig.find_reversals")
        if o != ("ok " + got).rstrip() and o.strip() != ("ok " + got).strip():
            chk.disagree("sig.find_reversals", dict(series=[str(v) for v in s]), o, "ok " + got)
    # ---- correspondence of the counting itself on transformed inputs (model = C02's) --------------------------
    tlines, tmeta = [], []
    for s in cases:
        a = Fraction(rng.choice([1, 2, 4, -1, -2]), rng.choice([1, 2, 4]))
        b = Fraction(rng.choice([rng.randint(-8, 8), rng.randint(-8, 8), 2 ** 31, -2 ** 35, 2 ** 40 + 3]))   # all exact in binary64
        t = [a * v + b for v in s]
        # the property speaks of transformations that are exact in floating point: series with very fine or very large
        # values (near-ties, 2^+-80 magnitudes) cannot take every shift; fall back to a small shift, then to none
        for b2 in (Fraction(rng.randint(-8, 8)), Fraction(0)):
            if exact64(t + s):
                break
            b = b2
            t = [a * v + b for v in s]
        if not exact64(t + s):
            a, b = Fraction(rng.choice([1, -1])), Fraction(0)
            t = [a * v for v in s]
        tlines.append("rf.count 0 " + " ".join(rat(v) for v in t))
        tmeta.append((s, a, b, t))
    touts = drv.run(tlines)
    for (s, a, b, t), o in zip(tmeta, touts):
        chk.count("rf.count(a*x+b)")
        mt = c02.parse_table(o)
        try:
            it = table(t)
        except Exception as e:
            it = "err:" + type(e).__name__
        if isinstance(mt, str) or isinstance(it, str):
            if isinstance(mt, str) != isinstance(it, str):
                chk.disagree("rf.count(a*x+b)", dict(series=[str(v) for v in t]), str(mt), str(it))
            continue
        if sorted(mt) != it:
            chk.disagree("rf.count(a*x+b)", dict(series=[str(v) for v in t]), str(mt)[:300], str(it)[:300])
        # ---- metamorphic oracles on the implementation ---------------------------------------------------
        inp = dict(series=[str(v) for v in s], a=str(a), b=str(b))
        try:
            base = table(s)
        except Exception as e:
            chk.fail("count_cycles must not raise", inp, "table", type(e).__name__, clause="base")
            continue
        if base:
            chk.nontriv(tuple(s))
        chk.dist("cycles=%s" % ("0" if not base else "1-3" if len(base) <= 3 else ">3"))
        exp = sorted((abs(a) * r, a * m + b, c) for r, m, c in base)
        if it != exp:
            chk.fail("count(a*x+b): ranges |a|*r, means a*m+b, same counts", inp, [list(map(str, r)) for r in exp],
                     [list(map(str, r)) for r in it], clause="affine")
        # repetition / in-between insertion
        t2 = []
        for i, v in enumerate(s):
            t2.append(v)
            k = rng.random()
            if k < 0.3:
                t2.append(v)                       # repeat
            elif k < 0.6 and i + 1 < len(s):
                w = s[i + 1]
                lam = Fraction(rng.choice([0, 1, 2, 3, 4]), 4)
                t2.append(v + lam * (w - v))       # weakly between (dyadic)
        inp2 = dict(series=[str(v) for v in s], refined=[str(v) for v in t2])
        for ep in (False, True):
            try:
                if table(t2, ep) != table(s, ep):
                    chk.fail("inserting repeated / in-between samples changes nothing", dict(inp2, endpoints=ep),
                             [list(map(str, r)) for r in table(s, ep)], [list(map(str, r)) for r in table(t2, ep)],
                             clause="refine")
            except Exception as e:
                chk.fail("inserting repeated / in-between samples changes nothing", dict(inp2, endpoints=ep), "table",
                         type(e).__name__, clause="refine")
        # recount from rainflow.reversals
        xs = [float(v) for v in s]
        rv = list(reversals(xs))
        if len(rv) >= 2:
            r1 = table(rv, True)
            if r1 != base:
                chk.fail("count_cycles(reversals(x), endpoints=True) == count_cycles(x)", inp,
                         [list(map(str, r)) for r in base], [list(map(str, r)) for r in r1], clause="recount-reversals")
        fr, _ = find_reversals(np.array(xs))
        chk.dist("find_reversals:%s" % ("same" if list(fr) == rv else "extra-plateau-points"))
        if len(fr) >= 2 and len(rv) >= 2:
            r2 = table(fr, True)
            if r2 != base:
                chk.fail("count_cycles(find_reversals(x)[0], endpoints=True) == count_cycles(x)", inp,
                         [list(map(str, r)) for r in base], [list(map(str, r)) for r in r2], clause="recount-find_reversals")
        # ---- the same clauses through the entry points that count cycles of a time series object --------------
        t0, dt = Fraction(rng.choice([0, 0, 10, -3])), Fraction(rng.choice([1, 1, 2, Fraction(1, 2), Fraction(1, 4)]))
        # thorough tier: every entry point on the short series, one seeded entry point on each of the many long generated ones (time)
        for name in (list(ENTRIES) if chk.quick or len(s) <= 6 or tuple(s) in corpus else [rng.choice(list(ENTRIES))]):
            chk.count("entry:" + name)
            eb = entry_clauses(name, s, t0, dt, a, b, t2,
                               lambda o, i, e, g, c: chk.fail(o, i, e, g, clause=c),
                               skip=lambda: chk.dist("resample:not-exact-skipped"))
            # tie of the entry point to count_cycles on the raw samples (an empty table cannot be unpacked by the GUI helper)
            if eb != project(name, base) and not (isinstance(eb, str) and not base and name.startswith("app.")):
                chk.disagree("entry==count_cycles", dict(series=[str(v) for v in s], entry=name, t0=str(t0), dt=str(dt)),
                             str(show(project(name, base)))[:300], str(show(eb))[:300])
        if len(chk.samples) < 4 and base and len(s) > 5:
            chk.sample(dict(series=[str(v) for v in s], a=str(a), b=str(b), refined=[str(v) for v in t2]))


def replay(rp):
    from qats.signal import find_reversals
    from qats.fatigue.rainflow import reversals
    inp = rp["input"]
    s = [Fraction(v) for v in inp["series"]]
    if "entry" in inp:
        bad = []
        a, b = Fraction(inp.get("a", "1")), Fraction(inp.get("b", "0"))
        t2 = [Fraction(v) for v in inp["refined"]] if "refined" in inp else None

        def report(o, i, e, g, c):
            bad.append(c)
            print("FAILS: %s\n  input    %s\n  expected %s\n  observed %s" % (o, i, e, g))
        eb = entry_clauses(inp["entry"], s, Fraction(inp["t0"]), Fraction(inp["dt"]), a, b, t2, report)
        print("entry point: %s\n  %s\ncount_cycles on the raw samples:\n  %s" % (inp["entry"], show(eb), show(project(inp["entry"], table(s)))))
        print("replay: %d failing clause(s)" % len(bad))
        return 1 if bad else 0
    base = table(s)
    bad = 0
    if "a" in inp:
        a, b = Fraction(inp["a"]), Fraction(inp["b"])
        if table([a * v + b for v in s]) != sorted((abs(a) * r, a * m + b, c) for r, m, c in base):
            print("FAILS: affine clause")
            bad += 1
    if "refined" in inp:
        ep = inp.get("endpoints", False)
        if table([Fraction(v) for v in inp["refined"]], ep) != table(s, ep):
            print("FAILS: refinement clause")
            bad += 1
    xs = [float(v) for v in s]
    rv = list(reversals(xs))
    fr, _ = find_reversals(np.array(xs))
    if len(rv) >= 2 and table(rv, True) != base:
        print("FAILS: recount from reversals")
        bad += 1
    if len(rv) >= 2 and len(fr) >= 2 and table(fr, True) != base:
        print("FAILS: recount from find_reversals", "(F8b shape)" if is_f8b_shape(inp["series"]) else "")
        bad += 1
    print("replay: %d failing clause(s)" % bad)
    return 1 if bad else 0
