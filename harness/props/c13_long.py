"""C13, long records: cases in the formats the existing evaluators (and replay) understand — a signal RECIPE (length, seeds, tones, spikes),
never the samples — with the sizes a blocked / chunked / FFT-based variant would switch on:

  * record lengths just below / at / above 1000, 1024, 4096, 10000, 65536 and 131073;
  * segment lengths 255 .. 4097, 65536, the whole record, the record minus one, the default (a quarter of the record), so that the number of
    averaged segments runs from 1 to ~2000; overlaps 0 / 1 / a third / the written-out half / all but a few samples; zero padding (nfft) to the
    next power of two, nperseg + 1, 2 nperseg;
  * non-stationary structure where the segmentation decides: a burst confined to the LAST full segment, one in the trailing samples that no full
    segment reaches (they must not influence the estimate), single large samples at the first / last three samples and at multiples of 1024 /
    4096 (+-1).

Clauses: the values equal the independent implementation of the definition (ref_welch: 1e-9 of the peak), frequency grid, amplitude^2 scaling,
constant offset, normalised maximum, default segment, time unit; for the stationary ones area = variance and peak; the exact area identity
(stream parseval); the GUI path on containers of long series against the spelled-out chain (stream guiopt)."""
import math

SIZES = (999, 1000, 1001, 1023, 1024, 1025, 4095, 4096, 4097, 8192, 9999, 10000, 10001, 16385, 65535, 65536, 65537, 70001, 131073)
QUICK_GROUPS = ((1000, 1001, 1023, 1024, 1025), (4095, 4096, 4097), (9999, 10000, 10001), (65536, 65537, 70001))
MAX_SEGS = 2100          # the reference loops over the segments in Python


def nseg(n, nps, nov):
    nps = min(nps, n)
    nov = nps // 2 if nov is None else nov
    return (n - nov) // (nps - nov)


def pick_segments(rng, n, default):
    """(nperseg, noverlap, nfft) with at most MAX_SEGS segments; nperseg None = the default of the entry point"""
    several = rng.random() < 0.75                    # mostly: at least two segments
    pool = [255, 256, 257, 1000, 1023, 1024, 1025, 4095, 4096, 4097, 65536, n, n - 1, n + 5, n // 2, n // 2 + 1, n // 4, n // 3, None, None]
    for _ in range(50):
        nps = rng.choice(pool)
        eff = min(default if nps is None else nps, n)
        if eff < 8:
            continue
        nov = rng.choice([None, None, None, 0, 1, eff // 3, eff // 2, eff - eff // 8, eff - max(1, eff // 100)])
        if nov is not None and nov >= eff:
            continue
        if nseg(n, eff, nov) > MAX_SEGS or (several and nseg(n, eff, nov) < 2):
            continue
        nf = rng.choice([None, None, None, eff + 1, 2 * eff, 1 << (eff - 1).bit_length()])
        if nf is not None and (nf < eff or nf > 1 << 18):
            nf = None
        return nps, nov, nf, eff
    return n // 4, None, None, n // 4


def long_signal(rng, n, dt, eff, nov, kind):
    """recipe of a long signal: stationary tones (+ noise), or the same with bursts / single large samples at the segmentation's weak points"""
    df, fny = 1.0 / (eff * dt), 0.5 / dt
    fs, tries = [], 0
    k = rng.randint(1, 3)
    while len(fs) < k and tries < 200:
        tries += 1
        fc = rng.uniform(6 * df, fny - 6 * df)
        if all(abs(fc - g) >= 5 * df for g in fs):
            fs.append(fc)
    fs = fs or [0.25 * fny]
    a0 = rng.uniform(1, 3)
    tones = [[a0, fs[0], rng.uniform(0, 2 * math.pi)]] + [[a0 * rng.uniform(0.05, 0.33), g, rng.uniform(0, 2 * math.pi)] for g in fs[1:]]
    sig = dict(n=n, dt=dt, t0=rng.choice([0.0, 100.0]), offset=rng.choice([0.0, 5.0, -300.0, 1000.0]), tones=tones,
               noise_sd=rng.choice([0.0, 0.05, 0.05]) * a0, noise_seed=rng.randrange(10 ** 9))
    if kind == "burst":
        hop = eff - (eff // 2 if nov is None else nov)
        last = ((n - eff) // hop) * hop                 # start of the last full segment; samples from last + eff on are in no segment
        spikes = []
        pos = {0, 1, 2, n - 3, n - 2, n - 1}
        for b in (1024, 4096, 65536):
            mult = list(range(b, n, b))
            if mult:
                m = rng.choice(mult)
                pos.update(p for p in (m - 1, m, m + 1) if p < n)
                pos.update(p for p in (mult[-1] - 1, mult[-1]) if p < n)
        for p in rng.sample(sorted(pos), min(len(pos), rng.choice([2, 4, 8]))):
            spikes.append([p, rng.choice([-1, 1]) * a0 * rng.choice([10.0, 40.0])])
        if rng.random() < 0.7:                           # a burst inside the last full segment only (beyond the one before it)
            lo = max(last, last - hop + eff)
            for p in range(lo, min(last + eff, lo + 24)):
                spikes.append([p, a0 * 25.0 * (-1) ** p])
        if last + eff < n and rng.random() < 0.8:        # the trailing samples that belong to no segment
            for p in range(last + eff, min(n, last + eff + 24)):
                spikes.append([p, a0 * 60.0 * (-1) ** p])
            spikes.append([n - 1, a0 * 100.0])
        sig["spikes"] = spikes
    return sig


def gen_cases(rng, n, pick_spell, extra=True):
    """the cases for one record length: [(case, label)]"""
    out = []
    if extra and n > 8192:
        # the same length with another entry point / segmentation / signal (definition clauses only)
        out += gen_cases(rng, n, pick_spell, extra=False)[:1]
    dt = rng.choice([0.05, 0.1, 0.25, 0.5, 1.0, 2.0, 0.37])
    kind = rng.choice(["burst", "burst", "stationary"])
    api = rng.choice(["signal", "ts", "ts"])
    nps, nov, nf, eff = pick_segments(rng, n, 256 if api == "signal" else n // 4)
    sig = long_signal(rng, n, dt, eff, nov, kind)
    checks = ["ok", "definition", "grid", "nonneg", "scale", "shift", "timeunit"] + (["normalised", "default"] if api == "ts" else [])
    if kind == "stationary" and nseg(n, eff, nov) >= 8 and (nov is None or nov <= eff // 2):
        checks += ["area", "peak"]
    case = dict(api=api, sig=sig, nperseg=nps, noverlap=nov, nfft=nf, checks=checks, a=rng.choice([-2.5, 0.3, 7.0]), c=rng.choice([1000.0, -3.25]),
                k=rng.choice([60.0, 0.001, 1024.0]))
    if api == "ts":
        case["normalize"] = rng.random() < 0.3
        if case["normalize"]:
            case["checks"] = [c for c in checks if c != "area"]
    sp = pick_spell(rng, api, plain=0.6)
    if sp:
        case["spell"] = dict(sp, x=sp["x"] if sp.get("x") in ("ndarray", "list", "tuple", "view", "rev", "readonly") else "ndarray")
    out.append((case, "long-records:%s:%s" % (api, kind)))
    # the exact area identity on the same record and segmentation (signal.psd and TimeSeries.psd, two requests each)
    out.append((dict(api="parseval", sig=sig, nperseg=eff if nps is None else nps, noverlap=nov, nfft=nf), "long-records:parseval:%s" % kind))
    # the GUI path: a container with this long series (and sometimes a second, shorter one), optional window / filter, segment lengths
    # around the record length and the thresholds
    if rng.random() < 0.7:
        sig2 = dict(sig)
        sig2.pop("spikes", None)
        series = [dict(key="long", name="long", sig=sig2)]
        if rng.random() < 0.4:
            m = rng.choice([1023, 1024, 1025, 4097])
            series.insert(rng.choice([0, 1]), dict(key="b", name="b", sig=dict(sig2, n=m, noise_seed=rng.randrange(10 ** 9))))
        t0, dur = sig["t0"], (n - 1) * dt
        u = rng.random()
        twin = None if u < 0.5 else [t0 + rng.choice([0.0, 0.1, 0.25]) * dur, t0 + rng.choice([0.75, 0.9, 1.0]) * dur]
        fny = 0.5 / dt
        fargs = rng.choice([None, None, ["lp", round(0.4 * fny, 6)], ["hp", round(0.1 * fny, 6)], ["bp", round(0.1 * fny, 6), round(0.6 * fny, 6)]])
        gnps = rng.choice([256, 1023, 1024, 1025, 4096, 4097, n, n - 1, n + 1, n // 4, 100000])
        if nseg(n, min(gnps, n), None) <= MAX_SEGS:
            out.append((dict(api="guiopt", series=series, twin=twin, fargs=fargs, nperseg=gnps, normalize=rng.random() < 0.3, repeat=rng.random() < 0.3,
                             spell=dict(args=rng.choice(["pos", "kwcall"]), twin="tuple", fargs="tuple", n="int", x="ndarray", t="ndarray")),
                        "long-records:guiopt"))
    return out


def gen_long(chk, pick_spell):
    import os
    if os.environ.get("VERIF_SKIP_LONG"):        # the check as it was before this stream (to compare what each one notices)
        return []
    rng = chk.rng
    sizes = [rng.choice(g) for g in QUICK_GROUPS] + [rng.choice([16385, 65535, 65537, 131073])] if chk.quick else list(SIZES) * 3
    out = []
    for n in sizes:
        out += gen_cases(rng, n, pick_spell)
    return out
