"""C11, second part of the tie: the two numeric stages of TimeSeries.get that are written in qats itself.

Lean model `Qats.Smooth` (`lean/Qats/Model/Smooth.lean`; theorems smooth_keeps_length, smooth_rejects_short, smooth_constant,
taper_stage_spec, tukey_weight_range, get_equal_length_concrete in `Props/C11.lean`) executed at Float against
`qats.signal.smooth`, `qats.signal.taper` and `TimeSeries.get(window_len=…, window=…)` / `get(taperfrac=…)`:

  streams  sm.smooth   signal.smooth(x, W, window)            values 1e-12, refusals (n < W, n == W >= 3)
           sm.taper    signal.taper(x, 'tukey', alpha)[0]     values 1e-12
           sm.get      TimeSeries.get(window_len / taperfrac) values 1e-12, histories of several requests on one object

Oracles (clauses of the property, evaluated on the implementation whatever the model says): time and data have equal length;
a series smoothed with any window keeps a constant level; samples on the flat part of the Tukey window pass the tapering
stage unchanged; the stored arrays are not modified.
Input kinds (for replay): "sm-smooth", "sm-taper", "sm-get".
"""
import numpy as np

from .. import core

WINDOWS = ("rectangular", "hanning", "hamming", "bartlett", "blackman")
TOL = 1e-12


def weights(window, W):
    return np.ones(W) if window == "rectangular" else getattr(np, window)(W)


def gen_signal(rng, n):
    kind = rng.choice(["float", "float", "int", "const", "offset", "ramp"])
    if kind == "float":
        return [rng.uniform(-5, 5) for _ in range(n)], kind
    if kind == "int":
        return [float(rng.randint(-9, 9)) for _ in range(n)], kind
    if kind == "const":
        c = rng.choice([0.0, 1.0, -2.5, 1000.0])
        return [c] * n, kind
    if kind == "offset":
        b = rng.choice([1e3, -1e4, 2.0 ** 20])
        return [b + rng.uniform(-1, 1) for _ in range(n)], kind
    a, b = rng.uniform(-2, 2), rng.uniform(-5, 5)
    return [a * i + b for i in range(n)], kind


def gen_nw(rng):
    W = rng.choice([1, 2, 3, 3, 4, 4, 5, 6, 7, 8, 10, 11, 12])
    n = rng.choice([W, W + 1, W + 1, W + 2, max(W - 1, 1), rng.randint(1, 40), rng.randint(W, W + 30)])
    return n, W


def model_vals(out):
    if not out.startswith("ok"):
        return out
    return np.array([core.unfbits(v) for v in out.split()[1:]], dtype=float)


def close(a, b):
    a, b = np.asarray(a, dtype=float), np.asarray(b, dtype=float)
    if a.shape != b.shape:
        return False
    if a.size == 0:
        return True
    scale = max(1.0, float(np.max(np.abs(b))))
    return bool(np.all(np.abs(a - b) <= TOL * scale))


def impl_smooth(x, W, window):
    from qats.signal import smooth
    xa = np.array(x, dtype=float)
    keep = xa.copy()
    try:
        y = smooth(xa, window_len=W, window=window)
    except ValueError as e:
        return ("err", "short" if "bigger than window" in str(e) else "value:" + str(e)), keep, xa
    except Exception as e:          # any other exception is an observation, not a harness crash
        return ("exc", type(e).__name__ + ": " + str(e)), keep, xa
    return ("ok", np.array(y, dtype=float)), keep, xa


def clauses_smooth(inp):
    """-> (impl result, list of (oracle, expected, observed))"""
    x, W, window = inp["x"], inp["W"], inp["window"]
    res, keep, xa = impl_smooth(x, W, window)
    fails = []
    if not np.array_equal(keep, xa):
        fails.append(("smoothing does not modify the array it is given", keep.tolist(), xa.tolist()))
    if res[0] == "ok":
        y = res[1]
        if len(y) != len(x):
            fails.append(("smoothing returns as many samples as it is given (time and data always have equal length)", len(x), len(y)))
        if len(x) and len(set(x)) == 1 and len(y) and W >= 1:
            if not close(y, np.full(len(y), x[0])):
                fails.append(("smoothing keeps a constant level", x[0], y.tolist()))
    elif res[0] == "exc":
        fails.append(("smoothing either returns the smoothed signal or raises ValueError", "array or ValueError", res[1]))
    return res, fails


def clauses_taper(inp):
    from qats.signal import taper
    x, a = inp["x"], inp["alpha"]
    xa = np.array(x, dtype=float)
    keep = xa.copy()
    fails = []
    try:
        y, wc = taper(xa, window="tukey", alpha=a)
        y = np.array(y, dtype=float)
    except Exception as e:
        return ("exc", type(e).__name__ + ": " + str(e)), [("tapering returns the tapered signal", "array", type(e).__name__ + ": " + str(e))]
    if not np.array_equal(keep, xa):
        fails.append(("tapering does not modify the array it is given", keep.tolist(), xa.tolist()))
    if len(y) != len(x):
        fails.append(("tapering returns as many samples as it is given", len(x), len(y)))
    else:
        n = len(x)
        for i in range(n):
            if a * n / 2 <= i <= n * (1 - a / 2) and y[i] != xa[i]:
                fails.append(("samples on the flat part of the Tukey window are unchanged", [i, xa[i]], [i, float(y[i])]))
                break
            if abs(y[i]) > abs(xa[i]) * (1 + 1e-15):
                fails.append(("Tukey weights lie in [0, 1] (tapering never amplifies)", [i, xa[i]], [i, float(y[i])]))
                break
    return ("ok", y), fails


def make_ts(inp):
    from qats import TimeSeries
    n = len(inp["x"])
    t = np.arange(n, dtype=float) * inp.get("dt", 1.0) + inp.get("t0", 0.0)
    return TimeSeries("s", t, np.array(inp["x"], dtype=float))


def get_step(ts, step):
    """one request of a history -> (kind, t, x) | ('err', text)"""
    kw = {}
    if step.get("W") is not None:
        kw["window_len"] = step["W"]
        kw["window"] = step["window"]
    if step.get("alpha") is not None:
        kw["taperfrac"] = step["alpha"]
    try:
        t, x = ts.get(**kw)
    except ValueError as e:
        return ("err", "short" if "bigger than window" in str(e) else "value:" + str(e))
    except Exception as e:
        return ("exc", type(e).__name__ + ": " + str(e))
    return ("ok", np.array(t, dtype=float), np.array(x, dtype=float))


def model_lines_get(inp):
    """model lines for each step of the history (taper stage first, then smoothing, as get applies them)"""
    lines = []
    for st in inp["steps"]:
        if st.get("alpha") is not None and st.get("W") is None:
            lines.append("sm.stage %s | %s" % (core.fbits(st["alpha"]), " ".join(core.fbits(v) for v in inp["x"])))
        elif st.get("W") is not None and st.get("alpha") is None:
            w = weights(st["window"], st["W"])
            lines.append("sm.smooth %s | %s" % (" ".join(core.fbits(v) for v in w), " ".join(core.fbits(v) for v in inp["x"])))
        else:
            lines.append(None)      # both stages: the model is composed by the caller (second line fed with the first's output)
    return lines


def clauses_get(inp):
    """history of get() requests on one object -> (list of step results, fails)"""
    ts = make_ts(inp)
    t0, x0 = ts.t.copy(), ts.x.copy()
    results, fails = [], []
    for k, st in enumerate(inp["steps"]):
        r = get_step(ts, st)
        results.append(r)
        if r[0] == "ok":
            if len(r[1]) != len(r[2]):
                fails.append(("time and data always have equal length (request %d of the history: %s)" % (k + 1, st), len(r[1]), len(r[2])))
            if st.get("W") is not None and st.get("alpha") is None and len(set(inp["x"])) == 1 and len(r[2]):
                if not close(r[2], np.full(len(r[2]), inp["x"][0])):
                    fails.append(("smoothing keeps a constant level (request %d)" % (k + 1), inp["x"][0], r[2].tolist()))
            if st.get("alpha") is not None and st.get("W") is None and len(r[2]) == len(x0):
                n, a = len(x0), st["alpha"]
                if isinstance(a, float) and 0.0 < a < 1.0:
                    for i in range(n):
                        if a * n / 2 <= i <= n * (1 - a / 2) and abs(r[2][i] - x0[i]) > 1e-12 * max(1.0, abs(x0[i]), float(np.max(np.abs(x0)))):
                            fails.append(("samples on the flat part of the Tukey window pass the tapering stage unchanged (request %d)"
                                          % (k + 1), [i, float(x0[i])], [i, float(r[2][i])]))
                            break
        elif r[0] == "exc":
            fails.append(("a request either returns time and data or raises ValueError / AssertionError (request %d: %s)" % (k + 1, st),
                          "arrays or ValueError", r[1]))
        if not (np.array_equal(ts.t, t0) and np.array_equal(ts.x, x0)):
            fails.append(("a request leaves the stored arrays unchanged (request %d)" % (k + 1), x0.tolist()[:8], ts.x.tolist()[:8]))
            break
    return results, fails


def run_smooth(chk, drv):
    rng = chk.rng
    quick = chk.quick
    chk.assumptions += ["np.convolve(a, v, 'same') is the centred slice of the full convolution and Python slices clamp to the array "
                        "bounds (header of lean/Qats/Model/Smooth.lean); smoothing / tapering correspondence tolerance 1e-12 of the "
                        "signal's magnitude (the model sums in a different order)"]
    # ---- signal.smooth -------------------------------------------------------------------------------------------------------------
    cases = []
    # always-first corner cases: even windows, n == W, n == W + 1, W < 3, constant signals
    for W in (1, 2, 3, 4, 5, 6, 11):
        for n in sorted({W - 1, W, W + 1, W + 2, 2 * W + 1} - {0, -1}):
            cases.append(dict(kind="sm-smooth", x=[float((3 * i * i) % 7 - 3) for i in range(n)], W=W, window="rectangular"))
            cases.append(dict(kind="sm-smooth", x=[2.5] * n, W=W, window="hanning" if W > 2 else "rectangular"))
    for _ in range(150 if quick else 3000):
        n, W = gen_nw(rng)
        x, sk = gen_signal(rng, n)
        cases.append(dict(kind="sm-smooth", x=x, W=W, window=rng.choice(WINDOWS), sig=sk))
    lines = ["sm.smooth %s | %s" % (" ".join(core.fbits(v) for v in weights(c["window"], c["W"])), " ".join(core.fbits(v) for v in c["x"]))
             for c in cases]
    outs = drv.run(lines)
    for c, out in zip(cases, outs):
        chk.count("sm.smooth")
        n, W = len(c["x"]), c["W"]
        chk.dist("smooth:%s:%s" % ("n<W" if n < W else "n=W" if n == W else "n=W+1" if n == W + 1 else "n>W+1",
                                   "W<3" if W < 3 else "even" if W % 2 == 0 else "odd"))
        res, fails = clauses_smooth(c)
        for oracle, exp, obs in fails:
            chk.fail(oracle, c, exp, obs)
        m = model_vals(out)
        if res[0] == "ok":
            if isinstance(m, str) or not close(m, res[1]):
                chk.disagree("sm.smooth", c, m if isinstance(m, str) else m.tolist(), res[1].tolist())
            elif W >= 3 and n > W:
                chk.nontriv(("smooth", n, W, c["window"], c.get("sig")))
        else:
            if not (isinstance(m, str) and m == "err short" and res == ("err", "short")):
                chk.disagree("sm.smooth", c, m if isinstance(m, str) else m.tolist(), list(res))
            else:
                chk.nontriv(("smooth-refused", n, W))
    chk.sample(dict(stream="sm.smooth", input=cases[9]))
    # ---- signal.taper --------------------------------------------------------------------------------------------------------------
    cases = []
    for n in (1, 2, 3, 10, 11):
        for a in (0.001, 0.1, 0.5, 0.999):
            cases.append(dict(kind="sm-taper", x=[float(i % 4) - 1.5 for i in range(n)], alpha=a))
    for _ in range(100 if quick else 2000):
        n = rng.randint(1, 60)
        x, sk = gen_signal(rng, n)
        cases.append(dict(kind="sm-taper", x=x, alpha=rng.choice([0.001, 0.01, 0.1, 0.2, 0.25, 0.5, 0.9, rng.uniform(0.001, 0.999)])))
    lines = ["sm.taper %s | %s" % (core.fbits(c["alpha"]), " ".join(core.fbits(v) for v in c["x"])) for c in cases]
    outs = drv.run(lines)
    for c, out in zip(cases, outs):
        chk.count("sm.taper")
        res, fails = clauses_taper(c)
        for oracle, exp, obs in fails:
            chk.fail(oracle, c, exp, obs)
        m = model_vals(out)
        if res[0] == "ok":
            if isinstance(m, str) or not close(m, res[1]):
                chk.disagree("sm.taper", c, m if isinstance(m, str) else m.tolist(), res[1].tolist())
            else:
                chk.nontriv(("taper", len(c["x"]), round(c["alpha"], 3)))
    # ---- TimeSeries.get: histories of smoothing / tapering requests on one object -----------------------------------------------------
    cases = []
    cases.append(dict(kind="sm-get", x=[1.0, 3.0, 2.0, 5.0, 4.0], steps=[dict(W=5, window="rectangular", alpha=None),
                                                                         dict(W=4, window="rectangular", alpha=None),
                                                                         dict(W=3, window="hanning", alpha=None)]))
    cases.append(dict(kind="sm-get", x=[7.0] * 9, t0=3.0, dt=0.5, steps=[dict(W=4, window="blackman", alpha=None), dict(W=None, window=None, alpha=0.5)]))
    for _ in range(60 if quick else 1200):
        n = rng.randint(2, 40)
        x, sk = gen_signal(rng, n)
        steps = []
        for _k in range(rng.randint(1, 4)):
            if rng.random() < 0.6:
                W = rng.choice([1, 2, 3, 4, 5, 6, 8, n, n - 1, max(n - 2, 1)])
                steps.append(dict(W=max(int(W), 1), window=rng.choice(WINDOWS), alpha=None))
            else:
                steps.append(dict(W=None, window=None, alpha=rng.choice([0.001, 0.1, 0.25, 0.5, 0.9])))
        cases.append(dict(kind="sm-get", x=x, t0=rng.choice([0.0, -3.0, 100.0]), dt=rng.choice([1.0, 0.5, 0.125]), steps=steps))
    lines, owner = [], []
    for ci, c in enumerate(cases):
        for k, ln in enumerate(model_lines_get(c)):
            if ln is not None:
                lines.append(ln)
                owner.append((ci, k))
    outs = drv.run(lines)
    model = {}
    for (ci, k), out in zip(owner, outs):
        model[(ci, k)] = model_vals(out)
    for ci, c in enumerate(cases):
        chk.count("sm.get")
        chk.dist("get-history:%d steps" % len(c["steps"]))
        results, fails = clauses_get(c)
        for oracle, exp, obs in fails:
            chk.fail(oracle, c, exp, obs)
        for k, r in enumerate(results):
            m = model.get((ci, k))
            if m is None:
                continue
            if r[0] == "ok":
                if isinstance(m, str) or not close(m, r[2]):
                    chk.disagree("sm.get", dict(c, step=k), m if isinstance(m, str) else m.tolist(), r[2].tolist())
                else:
                    chk.nontriv(("get", len(c["x"]), str(c["steps"][k])))
            elif r[0] == "err":
                if not (isinstance(m, str) and m == "err short" and r[1] == "short"):
                    chk.disagree("sm.get", dict(c, step=k), m if isinstance(m, str) else m.tolist(), list(r))
    chk.sample(dict(stream="sm.get", input=cases[0]))


def replay_smooth(rp):
    inp = rp["input"]
    kind = inp.get("kind")
    bad = 0
    if kind == "sm-smooth":
        res, fails = clauses_smooth(inp)
        print("smooth ->", res[0], res[1] if res[0] != "ok" else res[1].tolist()[:10])
    elif kind == "sm-taper":
        res, fails = clauses_taper(inp)
        print("taper ->", res[0])
    else:
        results, fails = clauses_get(inp)
        for k, r in enumerate(results):
            print("request", k + 1, "->", r[0], r[1] if r[0] != "ok" else [len(r[1]), len(r[2])])
    for oracle, exp, obs in fails:
        print("FAILS:", oracle, "| expected", exp, "| observed", obs)
        bad += 1
    return 1 if bad else 0
