"""
C20 -- LONG motions and LONG polynomial signals (audit round 8: size-conditioned code paths).

Every stream of c20.py transforms motions of at most ~8 time steps and differentiates signals of at most ~20 samples.  Here the
clauses of the property are evaluated on motions / signals of 999 ... 131073 time steps:

kind "long-tm" (transform_motion): result of shape (3, nt); at EVERY time step the result equals an independent z-y-x Euler
  rotation (product of the three elementary rotations, vectorised) plus the reference position, the distance to the reference
  point is |newref|, two body points keep their distance, a zero rotation is a pure offset; degree and radian input agree at every
  step; the columns at the special positions equal the transformation of that single time step; tie with the Lean model
  (mo.transform) at the special positions.  The motion is a smooth (sums of sines) or a random path; the special time steps (zero
  rotation, single-axis quarter / half turns, pitch of +-90 deg, angles beyond a full turn, -0.0, a far position) sit at the first /
  last steps and at, next to and across multiples of 1000 / 1024 / 4096 / 10000 / 65536.
kind "long-gr" (velocity / acceleration): polynomial signals of degree <= 2 on a uniform grid (power-of-two steps with dyadic
  coefficients: every float operation is exact; decimal steps 0.1 / 0.01 / 0.05 with float coefficients: tolerance from the rounding
  of the samples), scalar step or time array, 1-D or 2-D (2-7 rows, one polynomial each), the vertex of the parabola (velocity
  crosses zero, the extreme of the signal) at a special position: the result keeps the input shape, velocity is exact at EVERY
  sample from the second to the last but one (everywhere for degree <= 1), acceleration from the third to the last but two;
  linear in the signal, f(2x - 3y) = 2 f(x) - 3 f(y), for a second signal y with spikes / steps at the special positions;
  2-D input row by row; the second evaluation on the same objects gives the same result; tie with the Lean model (mo.vel / mo.acc,
  exact rationals) for dyadic signals of up to 4097 samples.
A failing input stores (n, seed, events, coefficients, containers) only.
"""
import math
from fractions import Fraction

import numpy as np

SIZES_SMALL = (999, 1000, 1001, 1023, 1024, 1025, 4095, 4096, 4097, 9999, 10000, 10001)
SIZES_BIG = (65535, 65536, 65537, 70001, 131073)
BLOCKS = (1000, 1024, 4096, 10000, 65536)
MODEL_MAX = 4097
EPS = 2.0 ** -52
TM_EVENTS = ("zero", "zero", "axis", "gimbal", "turn", "neg0", "far", "half")
TM_CONTS = ("ndarray", "ndarray", "F-order", "readonly", "rows", "T-view")
GR_XCONTS = ("ndarray", "ndarray", "readonly", "view", "list")
_DEBUG = None                                 # a list collects (clause, exact, max |error| / tolerance) when tolerances are audited


def special_positions(rng, n):
    cand = {0, 1, 2, n - 1, n - 2, n - 3}
    for b in BLOCKS:
        if n >= b:
            for m in {rng.randint(1, n // b), n // b}:
                cand |= {m * b - 1, m * b, m * b + 1}
    return sorted(p for p in cand if 0 <= p < n)


def _events(rng, n, kinds):
    pos = special_positions(rng, n)
    ev = {p: rng.choice(kinds) for p in rng.sample(pos, min(len(pos), rng.choice([4, 6, 9])))}
    bs = [b for b in BLOCKS if n > b]
    if bs:                                    # a pair spanning a multiple of a block size
        b = rng.choice(bs)
        m = rng.randint(1, (n - 1) // b)
        ev[m * b - 1], ev[m * b] = rng.choice(kinds), rng.choice(kinds)
    ev[n - 1] = rng.choice(kinds)
    if rng.random() < 0.7:
        ev[0] = rng.choice(kinds)
    return [[int(p), k] for p, k in sorted(ev.items())]


def _pts(n, seed, events, extra=24):
    rs = np.random.RandomState(seed ^ 0x5a5a)
    return sorted({0, 1, n - 2, n - 1} | {p for p, _ in events} | {p + d for p, _ in events for d in (-1, 1) if 0 <= p + d < n}
                  | {b * m + d for b in BLOCKS for m in (1, n // b) for d in (-1, 0, 1) if 0 <= b * m + d < n}
                  | set(rs.randint(0, n, extra).tolist()))


def _exc(e):
    return "err:%s: %s" % (type(e).__name__, str(e)[:160])


# ---- transform_motion ---------------------------------------------------------------------------------------------------------
def gen_long_tm(rng, n):
    unit = rng.choice(["deg", "rad"])
    r3 = lambda s: [round(rng.uniform(-s, s), 3) for _ in range(3)]
    newref = rng.choice([r3(100.0), r3(10.0), [round(rng.uniform(-50, 50), 3), 0.0, 0.0], [int(v) for v in r3(30.0)]])
    return dict(kind="long-tm", n=n, seed=rng.randrange(2 ** 31), unit=unit, newref=newref, ref2=r3(20.0),
                path=rng.choice(["smooth", "smooth", "random"]), events=_events(rng, n, TM_EVENTS), mcont=rng.choice(TM_CONTS),
                unitarg=rng.choice(["kw", "kw", "pos"] + (["default"] if unit == "deg" else [])))


def tm_motion(inp):
    """the motion (6, n) as float64 (angles in the unit of the case), rebuilt from the compact description"""
    n, unit = inp["n"], inp["unit"]
    rs = np.random.RandomState(inp["seed"])
    amp = 180.0 if unit == "deg" else math.pi
    M = np.empty((6, n))
    if inp["path"] == "smooth":
        t = np.arange(n) * 0.1
        for r in range(6):
            a = (50.0 if r < 3 else amp * rs.choice([0.05, 0.3, 0.9]))
            M[r] = a * rs.uniform(0.2, 1.0) * np.sin(rs.uniform(0.05, 1.5) * t + rs.uniform(0, 6.28)) + \
                0.3 * a * np.sin(rs.uniform(0.001, 0.02) * t + rs.uniform(0, 6.28))
        M[0] += 0.01 * t                      # slow drift
    else:
        M[:3] = rs.uniform(-50, 50, (3, n))
        M[3:] = rs.uniform(-amp, amp, (3, n))
    q = 90.0 if unit == "deg" else math.pi / 2
    for p, k in inp["events"]:
        sg = 1.0 if (p % 2 == 0) else -1.0
        if k == "zero":
            M[3:, p] = 0.0
        elif k == "neg0":
            M[3:, p] = -0.0
        elif k == "axis":
            M[3:, p] = 0.0
            M[3 + p % 3, p] = sg * q
        elif k == "half":
            M[3:, p] = 0.0
            M[3 + p % 3, p] = sg * 2 * q
        elif k == "gimbal":
            M[4, p] = sg * q
        elif k == "turn":
            M[3:, p] += sg * 4 * q * np.array([1.0, 2.0, -1.0])
        elif k == "far":
            M[:3, p] = [1e6, -2e6, 5e5]
    return M


def euler_vec(rx, ry, rz):
    """(n, 3, 3): Rz @ Ry @ Rx per time step, from the three elementary rotations"""
    n = rx.size
    one, zero = np.ones(n), np.zeros(n)
    cx, sx, cy, sy, cz, sz = np.cos(rx), np.sin(rx), np.cos(ry), np.sin(ry), np.cos(rz), np.sin(rz)
    Rx = np.array([[one, zero, zero], [zero, cx, -sx], [zero, sx, cx]]).transpose(2, 0, 1)
    Ry = np.array([[cy, zero, sy], [zero, one, zero], [-sy, zero, cy]]).transpose(2, 0, 1)
    Rz = np.array([[cz, -sz, zero], [sz, cz, zero], [zero, zero, one]]).transpose(2, 0, 1)
    return np.matmul(np.matmul(Rz, Ry), Rx)


def _tm_container(M, how):
    if how == "F-order":
        return np.asfortranarray(M.copy())
    if how == "readonly":
        a = M.copy()
        a.setflags(write=False)
        return a
    if how == "rows":
        return tuple(M[r].copy() for r in range(6))
    if how == "T-view":
        return M.T.copy().T
    return M.copy()


def tm_lines(inp):
    from ..core import fbits
    M = tm_motion(inp)
    ref = [float(v) for v in inp["newref"]]
    return ["mo.transform %s %s" % ("1" if inp["unit"] == "deg" else "0", " ".join(fbits(float(v)) for v in list(M[:, i]) + ref))
            for i in _pts(inp["n"], inp["seed"], inp["events"])]


def eval_long_tm(inp, transform_motion, call, report, model=None, disagree=None):
    from ..core import unfbits
    n, unit = inp["n"], inp["unit"]
    M = tm_motion(inp)
    ref = np.array([float(v) for v in inp["newref"]])
    ref2 = np.array([float(v) for v in inp["ref2"]])
    what = "%d time steps, motion passed as %s" % (n, inp["mcont"])
    mot = _tm_container(M, inp["mcont"])
    refobj = list(inp["newref"])
    if inp["unitarg"] == "default":
        out, err = call(transform_motion, mot, refobj)
    elif inp["unitarg"] == "pos":
        out, err = call(transform_motion, mot, refobj, unit)
    else:
        out, err = call(transform_motion, mot, refobj, rotunit=unit)
    if err is not None:
        report("transform_motion returns the position of the new point for a valid 6-dof motion (%s; it raised or did not return)" % what,
               "positions of shape (3, %d)" % n, err)
        return
    out = np.asarray(out)
    if out.shape != (3, n):
        report("one position per time step: result of shape (3, nt) (%s)" % what, [3, n], list(out.shape))
        return
    out = out.astype(float)
    pos = M[:3]
    ang = M[3:] if unit == "rad" else np.radians(M[3:])
    S = float(np.max(np.abs(ref))) + np.max(np.abs(pos), axis=0)          # (n,)
    R = euler_vec(ang[0], ang[1], ang[2])
    e = np.einsum("nij,j->in", R, ref) + pos
    bad = ~np.all(np.abs(e - out) <= 1e-10 * S, axis=0)
    if bad.any():
        i = int(np.argmax(bad))
        report("result equals an independent z-y-x Euler rotation plus the reference position at every time step (%s; %d steps "
               "differ, first at index %d)" % (what, int(bad.sum()), i), e[:, i].tolist(), out[:, i].tolist(), index=i)
    d = out - pos
    nd, nr = np.linalg.norm(d, axis=0), float(np.linalg.norm(ref))
    bad = ~(np.abs(nd - nr) <= 1e-10 * S)
    if bad.any():
        i = int(np.argmax(bad))
        report("distance between the two points is constant (= |newref|) at every time step (%s; %d steps differ, first at index %d)"
               % (what, int(bad.sum()), i), nr, float(nd[i]), index=i)
    zero = ~np.any(ang != 0, axis=0)
    bad = zero & ~np.all(np.abs(out - (pos + ref[:, None])) <= 1e-12 * S, axis=0)
    if bad.any():
        i = int(np.argmax(bad))
        report("zero rotation is a pure offset (%s; %d of %d zero-rotation steps differ, first at index %d)"
               % (what, int(bad.sum()), int(zero.sum()), i), (pos[:, i] + ref).tolist(), out[:, i].tolist(), index=i)
    # a second body point: the distance between the two body points is preserved at every time step
    o2, err = call(transform_motion, M.copy(), ref2.tolist(), rotunit=unit)
    if err is not None or np.shape(o2) != (3, n):
        report("transform_motion returns the position of a second body point for the same motion (%s)" % what, "positions of shape (3, %d)" % n,
               err if err is not None else list(np.shape(o2)))
    else:
        dd = np.linalg.norm(out - np.asarray(o2, dtype=float), axis=0)
        want = float(np.linalg.norm(ref - ref2))
        S2 = float(np.max(np.abs(ref)) + np.max(np.abs(ref2)))
        # (the positions cancel in the difference: their rounding enters with 4 ulp of |position|)
        bad = ~(np.abs(dd - want) <= 1e-10 * S2 + 8 * EPS * np.max(np.abs(pos), axis=0))
        if bad.any():
            i = int(np.argmax(bad))
            report("distance between two body points is preserved at every time step (%s; %d steps differ, first at index %d)"
                   % (what, int(bad.sum()), i), want, float(dd[i]), index=i)
    # degree and radian input agree
    other = M.copy()
    other[3:] = np.degrees(M[3:]) if unit == "rad" else np.radians(M[3:])
    o3, err = call(transform_motion, other, ref.copy(), rotunit="deg" if unit == "rad" else "rad")
    if err is not None or np.shape(o3) != (3, n):
        report("degree and radian input agree (%s)" % what, "a result for the converted angles", err if err is not None else list(np.shape(o3)))
    else:
        # the conversion itself is rounded: 1 ulp of an angle of several turns moves the point by |newref| * ulp(angle)
        bad = ~np.all(np.abs(np.asarray(o3, dtype=float) - out) <= 1e-9 * S, axis=0)
        if bad.any():
            i = int(np.argmax(bad))
            report("degree and radian input agree at every time step (%s; %d steps differ, first at index %d)" % (what, int(bad.sum()), i),
                   out[:, i].tolist(), np.asarray(o3, dtype=float)[:, i].tolist(), index=i)
    # the columns at the special positions are the transformation of that single time step; tie with the model
    pts = _pts(n, inp["seed"], inp["events"])
    for j, i in enumerate(pts):
        one, err = call(transform_motion, M[:, i:i + 1].copy(), ref.tolist(), rotunit=unit)
        if err is not None or np.shape(one) != (3, 1) or not np.all(np.abs(np.asarray(one, dtype=float)[:, 0] - out[:, i]) <= 1e-12 * S[i]):
            report("at every time step the result is the transformation of that step: column %d of the long result equals the "
                   "transformation of the single time step (%s)" % (i, what),
                   err if err is not None else np.asarray(one, dtype=float).ravel().tolist(), out[:, i].tolist(), index=i)
            break
    if model is not None and disagree is not None:
        for i, o in zip(pts, model):
            m = [unfbits(x) for x in o.split()[1:]] if o.startswith("ok") else None
            if m is None or not all(abs(a - b) <= 1e-12 * S[i] for a, b in zip(m, out[:, i])):
                disagree("long.mo.transform", dict(inp, index=i), m if m is not None else o, out[:, i].tolist())
                break


# ---- velocity / acceleration --------------------------------------------------------------------------------------------------
def gen_long_gr(rng, n):
    exact = rng.random() < 0.6
    ndim = rng.choice([1, 1, 2])
    nrow = 1 if ndim == 1 else rng.choice([2, 3, 7])
    pos = special_positions(rng, n)
    ints = exact and rng.random() < 0.25
    if exact:
        h = str(Fraction(rng.choice([1, 2]))) if ints else str(Fraction(1, rng.choice([1, 2, 4, 8])) * rng.choice([1, 1, 2]))
        t0 = str(Fraction(rng.choice([0, 0, -4, 16, 1024])))
    else:
        h = rng.choice(["0.1", "0.01", "0.05", "0.001"])
        t0 = rng.choice(["0", "0", "100.0", "-3.7"])
    polys = []
    for r in range(nrow):
        deg = rng.choice([2, 2, 2, 1, 0])
        iv = rng.choice(pos + [n // 2, rng.randrange(n)])          # vertex (tau = 0) at a special position, the middle, anywhere
        if exact:
            c = lambda s: (rng.randint(-s, s) if ints else Fraction(rng.randint(-2 * s, 2 * s), 2))
            a, p, q = c(4), c(6), c(6)
            a = a if a != 0 else 1
        else:
            a, p, q = round(rng.uniform(-3, 3), 3) or 0.5, round(rng.uniform(-5, 5), 3), round(rng.uniform(-10, 10), 3)
        if deg < 2:
            a = 0
        if deg < 1:
            p = 0
        if rng.random() < 0.3:
            p = 0                                                   # velocity exactly zero at the vertex sample
        polys.append([str(a), str(p), str(q), int(iv)])
    xc = rng.choice(GR_XCONTS + (("int64",) if ints else ()))
    if xc == "list" and n > 10001:
        xc = "ndarray"
    if ndim == 2 and xc == "view":
        xc = "F-order"
    tform = rng.choice(["scalar", "scalar", "array", "array", "np.float64"])
    return dict(kind="long-gr", n=n, seed=rng.randrange(2 ** 31), exact=exact, h=h, t0=t0, tform=tform, ndim=ndim, polys=polys, xcont=xc,
                tcont=rng.choice(["ndarray", "readonly"] + (["int64"] if ints else [])),
                events=_events(rng, n, ("spike", "spike", "step", "dup")))


def gr_arrays(inp):
    """-> (t (n,), h, X (nrow, n), Y (n,), exp_vel (nrow, n), exp_acc (nrow,), M (nrow, n) magnitude bound) as float64"""
    n = inp["n"]
    h, t0 = float(Fraction(inp["h"])), float(Fraction(inp["t0"]))
    k = np.arange(n, dtype=float)
    t = t0 + k * h
    X, V, A, Mg = [], [], [], []
    for a, p, q, iv in inp["polys"]:
        a, p, q = float(Fraction(a)), float(Fraction(p)), float(Fraction(q))
        tau = (k - iv) * h if inp["exact"] else t - t[iv]
        X.append(a * tau * tau + p * tau + q)
        V.append(2 * a * tau + p)
        A.append(2 * a)
        at = np.abs(tau) + 2 * h
        Mg.append(abs(a) * at * at + abs(p) * at + abs(q) + (2 * abs(a) * at + abs(p)) * (np.abs(t) + 2 * h))
    rs = np.random.RandomState(inp["seed"])
    Y = rs.randint(-128, 129, n) / 4.0
    for p_, kind in inp["events"]:
        if kind == "spike":
            Y[p_] = 1024.0 * (1 if p_ % 2 else -1)
        elif kind == "step":
            Y[p_:] += 64.0
        else:
            Y[p_] = Y[p_ - 1] if p_ else Y[1]
    return t, h, np.array(X), Y, np.array(V), np.array(A), np.array(Mg)


def _x_container(X, ndim, how):
    A = X if ndim == 2 else X[0]
    if how == "readonly":
        a = A.copy()
        a.setflags(write=False)
        return a
    if how == "view":
        big = np.full(2 * A.size + 1, 11.0)
        big[1::2] = A
        return big[1::2]
    if how == "F-order":
        return np.asfortranarray(A.copy())
    if how == "list":
        return A.tolist()
    if how == "int64":
        return A.astype(np.int64)
    return A.copy()


def _t_object(inp, t, h):
    if inp["tform"] == "scalar":
        return float(h)
    if inp["tform"] == "np.float64":
        return np.float64(h)
    if inp["tcont"] == "int64":
        return t.astype(np.int64)
    a = t.copy()
    if inp["tcont"] == "readonly":
        a.setflags(write=False)
    return a


def gr_lines(inp):
    """model requests (exact rationals) for dyadic signals of up to MODEL_MAX samples: every row and the spiky signal, vel and acc"""
    from ..core import rat
    if not inp["exact"] or inp["n"] > MODEL_MAX:
        return []
    t, h, X, Y, _, _, _ = gr_arrays(inp)
    fr = lambda v: rat(Fraction(float(v)))
    lines = []
    for fn in ("vel", "acc"):
        for row in list(X) + [Y]:
            if inp["tform"] == "array":
                lines.append("mo.%s arr %s | %s" % (fn, " ".join(fr(v) for v in t), " ".join(fr(v) for v in row)))
            else:
                lines.append("mo.%s step %s %s" % (fn, fr(h), " ".join(fr(v) for v in row)))
    return lines


def eval_long_gr(inp, fns, call, report, model=None, disagree=None):
    n, ndim, exact = inp["n"], inp["ndim"], inp["exact"]
    t, h, X, Y, V, A, Mg = gr_arrays(inp)
    nrow = X.shape[0]
    what = "%d samples, %s, %s, step %s as %s" % (n, "%d rows" % nrow if ndim == 2 else "1-D", inp["xcont"], inp["h"], inp["tform"])
    xobj = _x_container(X, ndim, inp["xcont"])
    tobj = _t_object(inp, t, h)
    shape = (nrow, n) if ndim == 2 else (n,)
    ymax = float(np.max(np.abs(Y)))
    mi = 0
    for fn in ("vel", "acc"):
        f, order = fns[fn], (1 if fn == "vel" else 2)
        name = "velocity" if fn == "vel" else "acceleration"
        mrows = None
        if model:
            mrows = model[mi:mi + nrow + 1]
            mi += nrow + 1
        got, err = call(f, xobj, tobj)
        if err is not None:
            report("%s of a signal with >= 2 samples exists, for a scalar step or a time array (%s; it raised or did not return)"
                   % (name, what), "an array of shape %s" % (list(shape),), err, fn=fn)
            continue
        got = np.asarray(got)
        if got.shape != shape:
            report("result keeps the input shape (%s of %s)" % (name, what), list(shape), list(got.shape), fn=fn)
            continue
        g2 = got.astype(float).reshape(nrow, n)
        # exact for motion of degree <= 2 away from the ends (everywhere for degree <= 1)
        for r in range(nrow):
            a = float(Fraction(inp["polys"][r][0]))
            exp = V[r] if fn == "vel" else np.full(n, A[r])
            if exact:
                tol = 1e-9 * (1.0 + np.abs(exp))
            else:
                tol = (16 if fn == "vel" else 64) * EPS * Mg[r] / h ** order + 1e-12 * np.abs(exp)
            lo, hi = (0, n) if a == 0 else ((1, n - 1) if fn == "vel" else (2, n - 2))
            bad = ~(np.abs(g2[r] - exp) <= tol)
            if _DEBUG is not None and hi > lo:
                _DEBUG.append((fn, exact, float(np.max((np.abs(g2[r] - exp) / tol)[lo:hi]))))
            bad[:lo] = False
            bad[hi:] = False
            if bad.any():
                i = int(np.argmax(bad))
                report("%s exact for degree<=2 motion away from the ends (velocity from the 2nd, acceleration from the 3rd sample; "
                       "everywhere for constant velocity), every sample of a long signal (%s; %d samples differ, first at index %d, "
                       "last at index %d)" % (fn, what, int(bad.sum()), i, int(n - 1 - np.argmax(bad[::-1]))),
                       float(exp[i]), float(g2[r][i]), fn=fn, row=r, index=i)
                break
        # linear in the signal: f(2x - 3y) = 2 f(x) - 3 f(y), y with spikes / steps at the special positions (1-D calls, row 0)
        x0 = X[0]
        trip, err = call(lambda: (f(x0.copy(), tobj), f(Y.copy(), tobj), f(2.0 * x0 - 3.0 * Y, tobj)))
        fy = None
        if err is not None:
            report("linear in the signal (%s of %s; it raised or did not return)" % (name, what), "three results", err, fn=fn)
        else:
            fx, fy, lin = (np.asarray(v, dtype=float) for v in trip)
            want = 2.0 * fx - 3.0 * fy
            if exact:
                ltol = 1e-9 * (1.0 + np.abs(want))
            else:
                ltol = 64 * EPS * (2 * Mg[0] + 3 * ymax) / h ** order + 1e-12 * np.abs(want)
            if _DEBUG is not None and lin.shape == want.shape:
                _DEBUG.append((fn + "-lin", exact, float(np.max(np.abs(lin - want) / ltol))))
            if lin.shape != want.shape or not np.all(np.abs(lin - want) <= ltol):
                i = int(np.argmax(~(np.abs(lin - want) <= ltol))) if lin.shape == want.shape else -1
                report("linear in the signal: f(2x - 3y) = 2 f(x) - 3 f(y) at every sample of a long signal (%s of %s; first difference "
                       "at index %d)" % (name, what, i), float(want[i]) if i >= 0 else list(want.shape),
                       float(lin[i]) if i >= 0 else list(lin.shape), fn=fn, index=i)
            # 1-D call of row 0 = row 0 of the result (2-D input is processed row by row; the same signal in a fresh array)
            rtol0 = 0.0 if exact else (16 if fn == "vel" else 64) * EPS * Mg[0] / h ** order
            if fx.shape != (n,) or not np.all(np.abs(fx - g2[0]) <= rtol0):
                i = int(np.argmax(~(np.abs(fx - g2[0]) <= rtol0))) if fx.shape == (n,) else -1
                report("%s (%s of %s; first difference at index %d)" % ("2-D input is processed row by row with the input shape" if ndim == 2
                       else "the same signal in a fresh float array gives the same derivative", name, what, i),
                       float(fx[i]) if i >= 0 else list(fx.shape), float(g2[0][i]) if i >= 0 else [n], fn=fn, index=i)
        # the second evaluation on the same objects
        again, err = call(f, xobj, tobj)
        if err is not None or not np.array_equal(np.asarray(again), got):
            report("the second %s of the same signal and time objects equals the first (%s)" % (name, what), "the same array",
                   err if err is not None else "a different array", fn=fn)
        # tie with the Lean model (exact rationals)
        if mrows is not None and disagree is not None:
            rows = [(r, g2[r]) for r in range(nrow)] + ([("y", fy)] if fy is not None else [])
            for (r, grow), o in zip(rows, mrows if fy is not None else mrows[:nrow]):
                m = np.array([float(Fraction(v)) for v in o.split()[1:]]) if o.startswith("ok") else None
                if m is None or m.shape != grow.shape or not np.array_equal(m, grow):
                    i = int(np.argmax(m != grow)) if m is not None and m.shape == grow.shape else -1
                    disagree("long.mo." + fn, dict(inp, row=r, index=i), float(m[i]) if i >= 0 else o[:80], float(grow[i]) if i >= 0 else list(grow.shape))
                    break


def lines_of(inp):
    return tm_lines(inp) if inp["kind"] == "long-tm" else gr_lines(inp)


def eval_long(inp, fns, transform_motion, call, report, model=None, disagree=None):
    from . import c20
    limit0 = c20.CALL_LIMIT
    c20.CALL_LIMIT = max(limit0, 30.0)        # transform_motion loops over the time steps: 131073 steps take ~0.5 s, more on a busy machine
    try:
        _eval_long(inp, fns, transform_motion, call, report, model, disagree)
    finally:
        c20.CALL_LIMIT = limit0


def _eval_long(inp, fns, transform_motion, call, report, model=None, disagree=None):
    try:
        if inp["kind"] == "long-tm":
            eval_long_tm(inp, transform_motion, call, report, model, disagree)
        else:
            eval_long_gr(inp, fns, call, report, model, disagree)
    except Exception as e:                                        # noqa: BLE001  (a harness-side surprise is reported, not raised)
        report("the clauses of the property can be evaluated on this long case", "no exception", _exc(e))


def run_long(chk, drv, fns, transform_motion, call, corpus):
    rng = chk.rng
    cases = [dict(c) for c in corpus if c.get("kind") in ("long-tm", "long-gr")]
    small = [s for s in SIZES_SMALL if s <= 1025]
    mid = [s for s in SIZES_SMALL if s > 1025]
    if chk.quick:
        cases += [gen_long_tm(rng, n) for n in (rng.choice(small), rng.choice(mid), rng.choice(SIZES_BIG[:3]))]
        cases += [gen_long_gr(rng, n) for n in (rng.choice(small), rng.choice(small), rng.choice(mid[:3]), rng.choice(mid[3:]),
                                                rng.choice(SIZES_BIG), rng.choice(SIZES_BIG))]
    else:
        for n in SIZES_SMALL + SIZES_BIG:
            cases += [gen_long_tm(rng, n) for _ in range(2 if n <= 10001 else 1)]
            cases += [gen_long_gr(rng, n) for _ in range(6)]
    lines, spans = [], []
    for c in cases:
        ls = lines_of(c)
        spans.append((len(lines), len(lines) + len(ls)))
        lines += ls
    outs = drv.run(lines)
    for c, (a, b) in zip(cases, spans):
        stream = "long.tm" if c["kind"] == "long-tm" else "long.gr"
        chk.count(stream)
        chk.nontriv(repr(c))
        size = "<=1025" if c["n"] <= 1025 else ("<=10001" if c["n"] <= 10001 else ">=65535")
        if c["kind"] == "long-tm":
            chk.dist("%s:n%s:%s:%s:%s" % (stream, size, c["unit"], c["path"], c["mcont"]))
        else:
            chk.dist("%s:n%s:%s:%s:%s:%s" % (stream, size, "dyadic" if c["exact"] else "decimal", "%d-D" % c["ndim"], c["xcont"], c["tform"]))
        nrep = [0]

        def rep(oracle, expected, observed, _c=c, **kw):
            nrep[0] += 1
            if nrep[0] <= 4:
                chk.fail("long input: " + oracle, _c, expected, observed, **kw)
        eval_long(c, fns, transform_motion, call, rep, outs[a:b] if b > a else None, chk.disagree)
