"""
C02 — rainflow counting is the ASTM E1049-85 three-point procedure.

Tie: strict correspondence of `reversals`, `cycles`, `count_cycles`, `TimeSeries.rfc` with the Lean model executed at
α := Rat on inputs whose float arithmetic is exact (small integers / dyadic rationals).
Search: the property's clauses evaluated directly on the implementation (conservation, largest range, counts,
sortedness, empty table); the ASTM procedure itself is the Lean model, so a model/implementation difference in the
counted cycles *is* a failing input for this property.
"""
import itertools
from fractions import Fraction

import numpy as np

from .. import core
from ..core import rat

RULE = ("sequences: all words over {0,1,2,3} up to the tier's length x endpoints, plus seeded random dyadic sequences, plus "
        "near-tie sequences (small-integer words whose points are moved by +-2^-k, k = 8..44, so that adjacent ranges differ by a "
        "relative 1e-3..1e-13 without being equal; also the whole sequence scaled by 2^j, j = -80..80: tiny and huge magnitudes); "
        "non-trivial = yields at least one cycle; distinct by (endpoints, sequence)")


def exact_in_binary64(seq):
    """every value, and the sum / difference of any two values, is exact in binary64 (so the implementation's float arithmetic
    is exact and the comparison with the model at Rat is strict)"""
    vals = [Fraction(v) for v in seq]
    if any(v.denominator & (v.denominator - 1) for v in vals):
        return False
    nz = [v for v in vals if v != 0]
    if not nz:
        return True
    # unit = largest power of two of which every value is an integer multiple
    unit = min(Fraction(v.numerator & -v.numerator, v.denominator) for v in (abs(v) for v in nz))
    top = max(abs(v) for v in nz)
    return 2 * top / unit < 2 ** 53 and Fraction(1, 2 ** 900) < unit and top < 2 ** 900


def near_tie_cases(chk):
    """Ranges that are nearly but not exactly equal (ASTM compares X < Y exactly), at unit, tiny and huge magnitudes."""
    rng = chk.rng
    ks = [8, 16, 20, 24, 27, 30, 31, 34, 40, 44]
    # deterministic corner block: the three-point decision X vs Y with X = Y -+ 2^-k, Y holding / not holding the start point
    for k in (20, 31, 44) if chk.quick else ks:
        d = Fraction(1, 2 ** k)
        for sgn in (1, -1):
            for base in ([0, 1, d, 10], [0, 1, -d, 10], [0, 1, 0, 1 + d], [0, 1, 0, 1 - d],
                         [3, -2, 1, -2 + d, 4, -5], [3, -2, 1, -2 - d, 4, -5], [0, 2, 1, 2 - d, 1, 3],
                         [0, 2, 1, 2 + d, 1 - d, 3], [5, 0, 1, d, 1 - d, 2 * d, 6], [0, 1 + d, 0, 1, 0, 1 - d, 0]):
                for ep in (False, True):
                    yield [sgn * Fraction(v) for v in base], ep
    n = 2500 if chk.quick else 30000
    for _ in range(n):
        ln = rng.choice([3, 4, 4, 5, 5, 6, 7, 9, 13, 21])
        k = rng.choice(ks)
        d = Fraction(1, 2 ** k)
        amp = rng.choice([1, 1, 2, 3])
        kind = rng.random()
        if kind < 0.6:
            base = [rng.randint(-amp, amp) for _ in range(ln)]                 # many exact ties before the perturbation
        elif kind < 0.85:
            base = [(-1) ** i * rng.randint(0, amp) for i in range(ln)]        # alternating: every point is a turning point
        else:
            a = rng.randint(1, 3)                                             # repeated equal ranges: a chain of ties
            base = [a * (i % 2) + rng.choice([0, 0, 0, 1]) for i in range(ln)]
        seq = [Fraction(b) + rng.choice([-1, 0, 0, 1, 2]) * d for b in base]
        r = rng.random()
        if r < 0.25:
            sc = Fraction(2) ** rng.randint(-80, -20)                          # tiny magnitudes (absolute tolerances)
            seq = [v * sc for v in seq]
        elif r < 0.4:
            sc = Fraction(2) ** rng.randint(10, 80)                            # huge magnitudes
            seq = [v * sc for v in seq]
        elif r < 0.5:
            off = rng.choice([-64, 17, 100])                                   # non-zero mean level
            seq = [v + off for v in seq]
        if exact_in_binary64(seq):
            yield seq, rng.random() < 0.5


def impl_all(seq, ep):
    """run the implementation; returns dict with canonical exact values or error token"""
    from qats.fatigue import rainflow as rf
    out = {}
    try:
        out["rev"] = [Fraction(float(v)) for v in rf.reversals(list(seq), endpoints=ep)]
    except Exception as e:
        out["rev"] = "err:" + type(e).__name__
    try:
        f, h = rf.cycles(list(seq), endpoints=ep)
        out["full"] = [(Fraction(float(a)), Fraction(float(b))) for a, b in f]
        out["half"] = [(Fraction(float(a)), Fraction(float(b))) for a, b in h]
    except Exception as e:
        out["full"] = out["half"] = "err:" + type(e).__name__
    try:
        c = rf.count_cycles(np.array(seq, dtype=float), endpoints=ep)
        out["table"] = [tuple(Fraction(float(v)) for v in row) for row in c]
        out["shape"] = tuple(c.shape)
    except Exception as e:
        out["table"] = "err:" + type(e).__name__
    return out


def parse_rev(r):
    if not r.startswith("ok"):
        return r
    return [Fraction(t) for t in r.split()[1:]]


def parse_cycles(r):
    if not r.startswith("ok"):
        return r, r
    body = r[3:]
    fs, hs = body.split("|")

    def p(s):
        s = s.strip()
        return [tuple(Fraction(v) for v in c.split(",")) for c in s.split(";")] if s else []
    return p(fs), p(hs)


def parse_table(r):
    if not r.startswith("ok"):
        return r
    body = r[3:].strip()
    return [tuple(Fraction(v) for v in c.split(",")) for c in body.split(";")] if body else []


def oracles(chk, seq, ep, im):
    """property clauses on the implementation alone"""
    inp = dict(series=[str(Fraction(v)) for v in seq], endpoints=ep)
    if len(seq) < 2:
        return
    if isinstance(im["table"], str):
        chk.fail("a series of >= 2 samples gives a table, a series without any cycle an empty table, not an error",
                 inp, "table", im["table"], shape="error")
        return
    rev, full, half, tab = im["rev"], im["full"], im["half"], im["table"]
    if isinstance(rev, str) or isinstance(full, str):
        chk.fail("reversals/cycles must not raise for >= 2 samples", inp, "lists", str((rev, full))[:200])
        return
    npts = len(rev)
    if 2 * len(full) + len(half) != max(npts - 1, 0):
        chk.fail("2*full + half == counted points - 1", inp, max(npts - 1, 0), 2 * len(full) + len(half))
    allc = full + half
    if any(r < 0 for r, m in allc):
        chk.fail("ranges are non-negative", inp, ">=0", str(min(r for r, m in allc)))
    if npts >= 2:
        span = max(rev) - min(rev)
        top = max(r for r, m in allc) if allc else None
        if top != span:
            chk.fail("largest range == span between highest and lowest counted point", inp, str(span), str(top))
    if sorted((r, m, c) for r, m, c in tab) != sorted([(r, m, Fraction(1)) for r, m in full] + [(r, m, Fraction(1, 2)) for r, m in half]):
        chk.fail("table rows == full cycles with count 1 + half cycles with count 1/2", inp, "perm", "differs")
    if any((tab[i][0], tab[i][1]) > (tab[i + 1][0], tab[i + 1][1]) for i in range(len(tab) - 1)):
        chk.fail("table sorted by range then mean", inp, "sorted", [[str(v) for v in r] for r in tab])
    if npts <= 1 and len(tab) != 0:
        chk.fail("no cycle -> empty table", inp, 0, len(tab))
    if im.get("shape") is not None and (len(im["shape"]) != 2 or im["shape"][1] != 3):
        chk.fail("table has three columns", inp, "(n,3)", str(im["shape"]))


def compare(chk, seq, ep, im, m_rev, m_cyc, m_tab):
    inp = dict(series=[str(Fraction(v)) for v in seq], endpoints=ep)
    mrev = parse_rev(m_rev)
    mf, mh = parse_cycles(m_cyc)
    mt = parse_table(m_tab)
    spec = "ASTM E1049-85 5.4.4 three-point procedure (Lean model Qats.Rainflow, exact arithmetic)"
    # reversals
    irev = im["rev"]
    if isinstance(mrev, str) != isinstance(irev, str) or (not isinstance(mrev, str) and mrev != irev):
        if len(seq) >= 2:
            chk.fail(spec + ": counted points", inp, [str(v) for v in mrev] if not isinstance(mrev, str) else mrev,
                     [str(v) for v in irev] if not isinstance(irev, str) else irev, stream="rf.reversals")
        else:
            chk.disagree("rf.reversals", inp, str(mrev), str(irev))
    if isinstance(mf, str) or isinstance(im["full"], str):
        if isinstance(mf, str) != isinstance(im["full"], str) and len(seq) >= 2:
            chk.fail(spec + ": cycles", inp, str(mf), str(im["full"]), stream="rf.cycles")
    else:
        if sorted(mf) != sorted(im["full"]) or sorted(mh) != sorted(im["half"]):
            chk.fail(spec + ": full / half cycles (as multisets)", inp,
                     dict(full=[list(map(str, c)) for c in mf], half=[list(map(str, c)) for c in mh]),
                     dict(full=[list(map(str, c)) for c in im["full"]], half=[list(map(str, c)) for c in im["half"]]),
                     stream="rf.cycles")
    if isinstance(mt, str) or isinstance(im["table"], str):
        if isinstance(mt, str) != isinstance(im["table"], str) and len(seq) >= 2:
            # F6-type: table is an error although the model gives a table
            chk.fail(spec + ": table", inp, "table with %s rows" % (len(mt) if not isinstance(mt, str) else mt),
                     str(im["table"]), stream="rf.count", shape="error" if isinstance(im["table"], str) else "")
    else:
        if sorted(mt) != sorted(im["table"]):
            chk.fail(spec + ": table rows (sorted)", inp, [list(map(str, c)) for c in mt],
                     [list(map(str, c)) for c in im["table"]], stream="rf.count")


def gen_cases(chk):
    maxlen = 6 if chk.quick else 8
    alpha = [0, 1, 2, 3]
    for n in range(2, maxlen + 1):
        for w in itertools.product(alpha, repeat=n):
            for ep in (False, True):
                yield list(w), ep
    if not chk.quick:
        for n in range(2, 7):
            for w in itertools.product([0, 1, 2, 3, 4], repeat=n):
                if 4 in w:
                    yield list(w), False
                    yield list(w), True
    rng = chk.rng
    nrand = 1500 if chk.quick else 20000
    for _ in range(nrand):
        n = rng.choice([2, 3, 4, 5, 8, 13, 21, 34, 60])
        kind = rng.random()
        if kind < 0.5:
            seq = [Fraction(rng.randint(-16, 16), rng.choice([1, 2, 4])) for _ in range(n)]
        elif kind < 0.8:
            seq = [Fraction(rng.randint(-3, 3)) for _ in range(n)]   # many plateaus and range ties
        else:
            # random walk with plateaus
            x, seq = Fraction(0), []
            for _ in range(n):
                x += Fraction(rng.choice([-2, -1, -1, 0, 0, 1, 1, 2]), rng.choice([1, 2]))
                seq.append(x)
        if rng.random() < 0.15:
            off = rng.choice([2 ** 31, -2 ** 35, 2 ** 40 + 3])     # large offset, still exact in binary64
            seq = [v + off for v in seq]
        yield seq, rng.random() < 0.5
    yield from near_tie_cases(chk)
    # degenerate lengths: the error branch
    yield [1], False
    yield [], True
    yield [1], True


def run(chk):
    import qats  # noqa
    chk.extra["rule"] = RULE
    chk.assumptions += ["inputs are small integers / dyadic rationals so that the float arithmetic of the implementation is exact",
                        "floating-point rounding (range ties created by rounding) is outside the theorems"]
    drv = core.Driver()
    cases = []
    corpus = core.load_corpus("C02")
    for c in corpus:
        cases.append(([Fraction(v) for v in c["series"]], bool(c["endpoints"])))
    cases += list(gen_cases(chk))
    lines = []
    for seq, ep in cases:
        xs = " ".join(rat(v) for v in seq)
        e = "1" if ep else "0"
        lines += ["rf.reversals %s %s" % (e, xs), "rf.cycles %s %s" % (e, xs), "rf.count %s %s" % (e, xs)]
    outs = drv.run(lines)
    for i, (seq, ep) in enumerate(cases):
        im = impl_all([float(v) for v in seq], ep)
        m_rev, m_cyc, m_tab = outs[3 * i:3 * i + 3]
        chk.count("rf.reversals+cycles+count")
        chk.dist("len=%d" % min(len(seq), 61) if len(seq) <= 8 else "len>8")
        if not isinstance(im["full"], str) and (im["full"] or im["half"]):
            chk.nontriv((ep, tuple(seq)))
            chk.dist("has_full" if im["full"] else "half_only")
        else:
            chk.dist("no_cycle_or_error")
        if i % 9973 == 7:
            chk.sample(dict(series=[str(v) for v in seq], endpoints=ep, model_table=m_tab))
        compare(chk, seq, ep, im, m_rev, m_cyc, m_tab)
        oracles(chk, [float(v) for v in seq], ep, im)
    # series-level entry point
    from qats import TimeSeries
    rng = chk.rng
    sub = [c for c in cases if len(c[0]) >= 2 and not c[1]]
    for seq, ep in rng.sample(sub, min(len(sub), 300 if chk.quick else 3000)):
        x = np.array([float(v) for v in seq])
        ts = TimeSeries("a", np.arange(len(x), dtype=float), x)
        try:
            got = [tuple(Fraction(float(v)) for v in row) for row in ts.rfc()]
        except Exception as e:
            got = "err:" + type(e).__name__
        im = impl_all(x, False)
        chk.count("ts.rfc")
        if got != im["table"]:
            chk.fail("TimeSeries.rfc() == count_cycles(x)", dict(series=[str(v) for v in seq], endpoints=False),
                     str(im["table"])[:300], str(got)[:300])
    chk.sample(dict(series=[0, -2, 1, -3, 5, -1, 3, -4, 4, -2, 0], endpoints=False, note="docstring example, also a Lean `example`"))


def replay(rp):
    inp = rp["input"]
    seq = [Fraction(v) for v in inp["series"]]
    chk = core.Check("C02", "quick", 0)
    drv = core.Driver()
    xs = " ".join(rat(v) for v in seq)
    e = "1" if inp["endpoints"] else "0"
    outs = drv.run(["rf.reversals %s %s" % (e, xs), "rf.cycles %s %s" % (e, xs), "rf.count %s %s" % (e, xs)])
    im = impl_all([float(v) for v in seq], inp["endpoints"])
    compare(chk, seq, inp["endpoints"], im, *outs)
    oracles(chk, [float(v) for v in seq], inp["endpoints"], im)
    for f in chk.failing:
        print("FAILS:", f["oracle"], "expected", f["expected"], "observed", f["observed"])
    print("replay: %d failing clause(s)" % len(chk.failing))
    return 1 if chk.failing else 0
