"""
C02 — rainflow counting is the ASTM E1049-85 three-point procedure.

Tie: strict correspondence of `reversals`, `cycles`, `count_cycles`, `TimeSeries.rfc` with the Lean model executed at
α := Rat on inputs whose float arithmetic is exact (small integers / dyadic rationals).
Search: the property's clauses evaluated directly on the implementation (conservation, largest range, counts,
sortedness, empty table); the ASTM procedure itself is the Lean model, so a model/implementation difference in the
counted cycles *is* a failing input for this property.

Input classes (all inside the property's quantifier "all finite real sequences of length >= 2 x end-point option"):
* K0  exact sequences handed over as a list of floats / float64 array (enumeration, random dyadics, near ties, 2^+-200 magnitudes,
      wide mantissas, long offsets);
* K1  the same sequence spelled differently: list / tuple / deque / generator / iterator / array.array / pandas Series, Python
      ints, numpy scalars, -0.0, ndarrays of every float and integer dtype, non-contiguous / reversed / column / read-only views;
      fixed-width numpy integers NOT as one ndarray (list / tuple / deque of numpy scalars, iterator / generator over an integer
      array, itertools.chain of two or more blocks, pandas Series, strided view, object array, Python and numpy integers mixed),
      with values up to the limits of the dtype (swings larger than its range, any descent in unsigned data);
      the end-point option by keyword, positionally, left out, or as a numpy bool;
* K2  histories on ONE caller-owned array / list / TimeSeries: repeated calls, the other end-point setting in between, the
      returned table scribbled over, in-place changes of the data between calls, interleaved `reversals` generators,
      `TimeSeries.rfc` with time windows (ends on / between samples; tuple, list, ndarray, ints), options that do nothing,
      resampling to the half step, data re-assigned or poked, a second series built from the same arrays, `app.funcs.calculate_rfc`;
* K3  arbitrary binary64 signals (noise, sines, walks with plateaus, decimal-quantised data, large offsets, 2^+-200 / 1e+-60
      units, long records) through `reversals` / `cycles` / `count_cycles` / `TimeSeries.rfc` (plain, windowed, filtered) /
      `calculate_rfc`, against an independent harness-side ASTM reference (`ref_*`, itself compared with the Lean model on
      every K0 case), with a tolerance of 1e-12 of the signal's magnitude, and only where exact and float arithmetic take the
      same decisions ("robust" cases); the structural clauses are evaluated on every case.
* K4  one TimeSeries whose time grid is uniform OR NOT (alternating short / long steps, random steps, a long gap, a step refined
      part-way, jitter above and below the tolerance of `is_constant_dt`), exact samples, in a history of requests on the same
      objects through every series-level entry point: `TimeSeries.rfc`, `app.funcs.calculate_rfc` (one or two series per
      container, raw and re-binned), the data drawn by `TimeSeries.plot_cycle_range` and `TsDB.plot_cycle_range` (names in and
      out of database order); with a time window or none, with options that do nothing, and with processing options
      (filter, resampling, smoothing, taper).  Without processing options the table must be the model's table of the samples
      inside the window (the sampling instants are irrelevant to ASTM E1049-85); with them, the table of what `get(**kwargs)`
      returns.  The K3 signals also come on such non-uniform grids.
* K5  LONG records (sizes just below / at / above 1000, 1024, 4096, 10000 and beyond 65536 samples; zigzags with as many cycles
      as samples, saws of equal ranges, quantised noise, walks) rebuilt from a few parameters (size, shape, seed, events), with
      the largest swing, a peak, plateaus and range ties in the first / last few samples, exactly at multiples of 1000 / 1024 /
      4096 / 10000 / 65536 and across them; dyadic values (exact arithmetic), every clause of K3 evaluated on them through
      the functions (array / list), `TimeSeries.rfc` (plain / window shaving a few end samples) and `calculate_rfc`.
An exception raised by the implementation, or a result that cannot be read as lists of pairs / an (n, 3) table, is a failing
clause, never a harness crash.
"""
import itertools
from collections import deque
from fractions import Fraction

import numpy as np

from .. import core
from ..core import rat

RULE = ("sequences: all words over {0,1,2,3} up to the tier's length x endpoints, plus seeded random dyadic sequences, plus "
        "near-tie sequences (small-integer words whose points are moved by +-2^-k, k = 8..44, so that adjacent ranges differ by a "
        "relative 1e-3..1e-13 without being equal; also the whole sequence scaled by 2^j, j = -80..80: tiny and huge magnitudes); "
        "plus words scaled by 2^+-(100..200), quantised signals with 30-45 significant bits, records of 200-400 samples; "
        "each sequence also in another spelling (container, element type, dtype, view; fixed-width integers as ndarray, containers "
        "of numpy scalars, iterators / generators / chained blocks over integer arrays, values up to the dtype's limits; "
        "end-point option by keyword / position / default / numpy bool), in histories on one array / list / TimeSeries object (repeated and interleaved calls, in-place "
        "changes, scribbled results, time windows, no-op options, half-step resampling, calculate_rfc), series on uniform and "
        "non-uniform time grids (alternating / random steps, gaps, refined step, jitter) through TimeSeries.rfc, calculate_rfc "
        "(raw / re-binned, one or two series) and the data of TimeSeries / TsDB plot_cycle_range, with window / no-op / "
        "processing options, and arbitrary binary64 "
        "signals (uniform and non-uniform grids) against an independent reference with tolerance; long records of 999..70001 "
        "samples (around 1000 / 1024 / 4096 / 10000 / 65536) with the largest swing, peaks, plateaus, ties at the ends and at / across "
        "block boundaries, exact values, independent reference; "
        "non-trivial = yields at least one cycle; distinct by (endpoints, sequence)")


def exact_in_binary64(seq):
    """every value, and the sum / difference of any two values, is exact in binary64 (so the implementation's float arithmetic
    is exact and the comparison with the model at Rat is strict)"""
    vals = [Fraction(v) for v in seq]
    if any(v.denominator & (v.denominator - 1) for v in vals):
        return False
    nz = [v for v in vals if v != 0]
    if not nz:
        return True
    # unit = largest power of two of which every value is an integer multiple
    unit = min(Fraction(v.numerator & -v.numerator, v.denominator) for v in (abs(v) for v in nz))
    top = max(abs(v) for v in nz)
    return 2 * top / unit < 2 ** 53 and Fraction(1, 2 ** 900) < unit and top < 2 ** 900


def near_tie_cases(chk):
    """Ranges that are nearly but not exactly equal (ASTM compares X < Y exactly), at unit, tiny and huge magnitudes."""
    rng = chk.rng
    ks = [8, 16, 20, 24, 27, 30, 31, 34, 40, 44]
    # deterministic corner block: the three-point decision X vs Y with X = Y -+ 2^-k, Y holding / not holding the start point
    for k in (20, 31, 44) if chk.quick else ks:
        d = Fraction(1, 2 ** k)
        for sgn in (1, -1):
            for base in ([0, 1, d, 10], [0, 1, -d, 10], [0, 1, 0, 1 + d], [0, 1, 0, 1 - d],
                         [3, -2, 1, -2 + d, 4, -5], [3, -2, 1, -2 - d, 4, -5], [0, 2, 1, 2 - d, 1, 3],
                         [0, 2, 1, 2 + d, 1 - d, 3], [5, 0, 1, d, 1 - d, 2 * d, 6], [0, 1 + d, 0, 1, 0, 1 - d, 0]):
                for ep in (False, True):
                    yield [sgn * Fraction(v) for v in base], ep
    n = 2500 if chk.quick else 30000
    for _ in range(n):
        ln = rng.choice([3, 4, 4, 5, 5, 6, 7, 9, 13, 21])
        k = rng.choice(ks)
        d = Fraction(1, 2 ** k)
        amp = rng.choice([1, 1, 2, 3])
        kind = rng.random()
        if kind < 0.6:
            base = [rng.randint(-amp, amp) for _ in range(ln)]                 # many exact ties before the perturbation
        elif kind < 0.85:
            base = [(-1) ** i * rng.randint(0, amp) for i in range(ln)]        # alternating: every point is a turning point
        else:
            a = rng.randint(1, 3)                                             # repeated equal ranges: a chain of ties
            base = [a * (i % 2) + rng.choice([0, 0, 0, 1]) for i in range(ln)]
        seq = [Fraction(b) + rng.choice([-1, 0, 0, 1, 2]) * d for b in base]
        r = rng.random()
        if r < 0.25:
            sc = Fraction(2) ** rng.randint(-80, -20)                          # tiny magnitudes (absolute tolerances)
            seq = [v * sc for v in seq]
        elif r < 0.4:
            sc = Fraction(2) ** rng.randint(10, 80)                            # huge magnitudes
            seq = [v * sc for v in seq]
        elif r < 0.5:
            off = rng.choice([-64, 17, 100])                                   # non-zero mean level
            seq = [v + off for v in seq]
        if exact_in_binary64(seq):
            yield seq, rng.random() < 0.5


def impl_all(seq, ep):
    """run the implementation; returns dict with canonical exact values or error token"""
    from qats.fatigue import rainflow as rf
    out = {}
    try:
        out["rev"] = [Fraction(float(v)) for v in rf.reversals(list(seq), endpoints=ep)]
    except Exception as e:
        out["rev"] = "err:" + type(e).__name__
    try:
        f, h = rf.cycles(list(seq), endpoints=ep)
        out["full"] = [(Fraction(float(a)), Fraction(float(b))) for a, b in f]
        out["half"] = [(Fraction(float(a)), Fraction(float(b))) for a, b in h]
    except Exception as e:
        out["full"] = out["half"] = "err:" + type(e).__name__
    try:
        c = rf.count_cycles(np.array(seq, dtype=float), endpoints=ep)
        out["table"] = [tuple(Fraction(float(v)) for v in row) for row in c]
        out["shape"] = tuple(c.shape)
    except Exception as e:
        out["table"] = "err:" + type(e).__name__
    return out


def parse_rev(r):
    if not r.startswith("ok"):
        return r
    return [Fraction(t) for t in r.split()[1:]]


def parse_cycles(r):
    if not r.startswith("ok"):
        return r, r
    body = r[3:]
    fs, hs = body.split("|")

    def p(s):
        s = s.strip()
        return [tuple(Fraction(v) for v in c.split(",")) for c in s.split(";")] if s else []
    return p(fs), p(hs)


def parse_table(r):
    if not r.startswith("ok"):
        return r
    body = r[3:].strip()
    return [tuple(Fraction(v) for v in c.split(",")) for c in body.split(";")] if body else []


def oracles(chk, seq, ep, im, tag=None):
    """property clauses on the implementation alone"""
    inp = dict(series=[str(Fraction(v)) for v in seq], endpoints=ep, **(tag or {}))
    if len(seq) < 2:
        return
    if isinstance(im["table"], str):
        chk.fail("a series of >= 2 samples gives a table, a series without any cycle an empty table, not an error",
                 inp, "table", im["table"], shape="error")
        return
    rev, full, half, tab = im["rev"], im["full"], im["half"], im["table"]
    if isinstance(rev, str) or isinstance(full, str):
        chk.fail("reversals/cycles must not raise for >= 2 samples", inp, "lists", str((rev, full))[:200])
        return
    npts = len(rev)
    if 2 * len(full) + len(half) != max(npts - 1, 0):
        chk.fail("2*full + half == counted points - 1", inp, max(npts - 1, 0), 2 * len(full) + len(half))
    allc = full + half
    if any(r < 0 for r, m in allc):
        chk.fail("ranges are non-negative", inp, ">=0", str(min(r for r, m in allc)))
    if npts >= 2:
        span = max(rev) - min(rev)
        top = max(r for r, m in allc) if allc else None
        if top != span:
            chk.fail("largest range == span between highest and lowest counted point", inp, str(span), str(top))
    if sorted((r, m, c) for r, m, c in tab) != sorted([(r, m, Fraction(1)) for r, m in full] + [(r, m, Fraction(1, 2)) for r, m in half]):
        chk.fail("table rows == full cycles with count 1 + half cycles with count 1/2", inp, "perm", "differs")
    if any((tab[i][0], tab[i][1]) > (tab[i + 1][0], tab[i + 1][1]) for i in range(len(tab) - 1)):
        chk.fail("table sorted by range then mean", inp, "sorted", [[str(v) for v in r] for r in tab])
    if npts <= 1 and len(tab) != 0:
        chk.fail("no cycle -> empty table", inp, 0, len(tab))
    if im.get("shape") is not None and (len(im["shape"]) != 2 or im["shape"][1] != 3):
        chk.fail("table has three columns", inp, "(n,3)", str(im["shape"]))


def compare(chk, seq, ep, im, m_rev, m_cyc, m_tab, tag=None):
    inp = dict(series=[str(Fraction(v)) for v in seq], endpoints=ep, **(tag or {}))
    mrev = parse_rev(m_rev)
    mf, mh = parse_cycles(m_cyc)
    mt = parse_table(m_tab)
    spec = "ASTM E1049-85 5.4.4 three-point procedure (Lean model Qats.Rainflow, exact arithmetic)"
    # reversals
    irev = im["rev"]
    if isinstance(mrev, str) != isinstance(irev, str) or (not isinstance(mrev, str) and mrev != irev):
        if len(seq) >= 2:
            chk.fail(spec + ": counted points", inp, [str(v) for v in mrev] if not isinstance(mrev, str) else mrev,
                     [str(v) for v in irev] if not isinstance(irev, str) else irev, stream="rf.reversals")
        else:
            chk.disagree("rf.reversals", inp, str(mrev), str(irev))
    if isinstance(mf, str) or isinstance(im["full"], str):
        if isinstance(mf, str) != isinstance(im["full"], str) and len(seq) >= 2:
            chk.fail(spec + ": cycles", inp, str(mf), str(im["full"]), stream="rf.cycles")
    else:
        if sorted(mf) != sorted(im["full"]) or sorted(mh) != sorted(im["half"]):
            chk.fail(spec + ": full / half cycles (as multisets)", inp,
                     dict(full=[list(map(str, c)) for c in mf], half=[list(map(str, c)) for c in mh]),
                     dict(full=[list(map(str, c)) for c in im["full"]], half=[list(map(str, c)) for c in im["half"]]),
                     stream="rf.cycles")
    if isinstance(mt, str) or isinstance(im["table"], str):
        if isinstance(mt, str) != isinstance(im["table"], str) and len(seq) >= 2:
            # F6-type: table is an error although the model gives a table
            chk.fail(spec + ": table", inp, "table with %s rows" % (len(mt) if not isinstance(mt, str) else mt),
                     str(im["table"]), stream="rf.count", shape="error" if isinstance(im["table"], str) else "")
    else:
        if sorted(mt) != sorted(im["table"]):
            chk.fail(spec + ": table rows (sorted)", inp, [list(map(str, c)) for c in mt],
                     [list(map(str, c)) for c in im["table"]], stream="rf.count")


def gen_cases(chk):
    maxlen = 6 if chk.quick else 8
    alpha = [0, 1, 2, 3]
    for n in range(2, maxlen + 1):
        for w in itertools.product(alpha, repeat=n):
            for ep in (False, True):
                yield list(w), ep
    if not chk.quick:
        for n in range(2, 7):
            for w in itertools.product([0, 1, 2, 3, 4], repeat=n):
                if 4 in w:
                    yield list(w), False
                    yield list(w), True
    rng = chk.rng
    nrand = 1500 if chk.quick else 20000
    for _ in range(nrand):
        n = rng.choice([2, 3, 4, 5, 8, 13, 21, 34, 60])
        kind = rng.random()
        if kind < 0.5:
            seq = [Fraction(rng.randint(-16, 16), rng.choice([1, 2, 4])) for _ in range(n)]
        elif kind < 0.8:
            seq = [Fraction(rng.randint(-3, 3)) for _ in range(n)]   # many plateaus and range ties
        else:
            # random walk with plateaus
            x, seq = Fraction(0), []
            for _ in range(n):
                x += Fraction(rng.choice([-2, -1, -1, 0, 0, 1, 1, 2]), rng.choice([1, 2]))
                seq.append(x)
        if rng.random() < 0.15:
            off = rng.choice([2 ** 31, -2 ** 35, 2 ** 40 + 3])     # large offset, still exact in binary64
            seq = [v + off for v in seq]
        yield seq, rng.random() < 0.5
    yield from near_tie_cases(chk)
    # degenerate lengths: the error branch
    yield [1], False
    yield [], True
    yield [1], True


# =============================================================================================================
# independent harness-side reference (generic over Fraction and float): run-based turning points + stack procedure
# =============================================================================================================
def ref_reversals(s, ep):
    """turning points: compress runs of equal samples, keep the interior strict local extrema; with end points the first and
    the last sample are always counted (comparisons only: no products of slopes)"""
    d = [s[0]]
    for v in s[1:]:
        if v != d[-1]:
            d.append(v)
    inner = [d[i] for i in range(1, len(d) - 1) if (d[i] > d[i - 1]) != (d[i + 1] > d[i])]
    return [s[0]] + inner + [s[-1]] if ep else inner


def ref_cycles(pts):
    """ASTM E1049-85 5.4.4 on a list of points; (full, half) as lists of (range, mean)"""
    st, full, half = [], [], []
    for p in pts:
        st.append(p)
        while len(st) >= 3:
            x, y = abs(st[-1] - st[-2]), abs(st[-2] - st[-3])
            if x < y:
                break
            c = (y, (st[-2] + st[-3]) / 2)
            if len(st) == 3:
                half.append(c)
                del st[0]
            else:
                full.append(c)
                del st[-3:-1]
    for a, b in zip(st, st[1:]):
        half.append((abs(a - b), (a + b) / 2))
    return full, half


def ref_all(s, ep):
    rev = ref_reversals(s, ep)
    full, half = ref_cycles(rev)
    one = type(s[0])(1)
    tab = sorted([(r, m, one) for r, m in full] + [(r, m, one / 2) for r, m in half])
    return dict(rev=rev, full=full, half=half, table=tab)


# =============================================================================================================
# K0+: more exact sequences (kept apart from gen_cases, which C03 re-uses)
# =============================================================================================================
def gen_more_cases(chk):
    rng = chk.rng
    # magnitudes: the signal in other units, 2^+-(100..200), exact (power-of-two scaling)
    words = [[0, 1, 0, 1], [0, 2, 1, 3, 0], [3, -2, 1, -2, 4, -5], [0, -2, 1, -3, 5, -1, 3, -4, 4, -2, 0], [1, 1, 2, 2, 1, 1],
             [0, 1, 0, 1, 0, 1, 0], [5, 0, 1, 0, 1, 0, 6], [2, 2], [1, 2, 3], [0, 3, 1, 2, 1, 2, 0, 3]]
    for j in (200, -200, 150, -150, 100, -100):
        for w in (words if not chk.quick else words[:6]):
            for ep in (False, True):
                yield [Fraction(v) * Fraction(2) ** j for v in w], ep
    n = 300 if chk.quick else 4000
    for _ in range(n):
        ln = rng.choice([3, 4, 5, 6, 8, 12, 20])
        base = [Fraction(rng.randint(-6, 6), rng.choice([1, 1, 2, 8])) for _ in range(ln)]
        sc = Fraction(2) ** (rng.choice([-1, 1]) * rng.randint(81, 200))
        yield [v * sc for v in base], rng.random() < 0.5
    # wide mantissas: quantised "measured" signals with 30-45 significant bits (all sums / differences still exact)
    import math
    n = 500 if chk.quick else 6000
    for _ in range(n):
        ln = rng.choice([4, 6, 9, 15, 30, 60])
        q = rng.choice([2 ** 20, 2 ** 24, 2 ** 30])
        amp = rng.choice([1.0, 37.5, 1000.0, 30000.0])
        kind = rng.random()
        if kind < 0.4:
            f1, f2, p = rng.uniform(0.05, 0.45), rng.uniform(0.01, 0.2), rng.uniform(0, 6.28)
            xs = [amp * (math.sin(6.283 * f1 * i + p) + 0.5 * math.sin(6.283 * f2 * i)) for i in range(ln)]
        elif kind < 0.7:
            xs = [amp * rng.gauss(0, 1) for _ in range(ln)]
        else:
            x, xs = 0.0, []
            for _i in range(ln):
                if rng.random() < 0.7:
                    x += amp * rng.gauss(0, 0.3)
                xs.append(x)                                           # walk with plateaus
        off = rng.choice([0, 0, 1234, -98765])
        seq = [Fraction(round(v * q), q) + off for v in xs]
        if rng.random() < 0.2 and ln >= 4:                              # an exact tie between two distant ranges
            seq[-1] = seq[-3]
        if exact_in_binary64(seq):
            yield seq, rng.random() < 0.5
    # records longer than anything above (size-dependent paths); small alphabet: many ties and plateaus
    for ln in ((200, 257) if chk.quick else (200, 257, 400, 400, 400)):
        yield [Fraction(rng.randint(-5, 5), rng.choice([1, 2])) for _ in range(ln)], rng.random() < 0.5


# =============================================================================================================
# K1: spellings of the same sequence / of the end-point option
# =============================================================================================================
INT_RANGE = {"int8": (-2 ** 7, 2 ** 7 - 1), "int16": (-2 ** 15, 2 ** 15 - 1), "int32": (-2 ** 31, 2 ** 31 - 1),
             "int64": (-2 ** 63, 2 ** 63 - 1), "uint8": (0, 2 ** 8 - 1), "uint16": (0, 2 ** 16 - 1), "uint32": (0, 2 ** 32 - 1),
             "uint64": (0, 2 ** 64 - 1)}
EP_SPELLINGS = ("kw", "pos", "default", "np.bool_")
# ways of handing over fixed-width integer samples other than as one contiguous ndarray ("<outer>:<dtype>")
INT_OUTERS = ("list:np", "tuple:np", "deque:np", "iter", "generator", "chain", "chain3", "pandas.Series", "view:stride2", "tolist+np",
              "object-array")


def int_name(outer, dt):
    return outer + "." + dt if outer.endswith(":np") else outer + ":" + dt


def exact_in_float32(seq):
    vals = [Fraction(v) for v in seq]
    nz = [abs(v) for v in vals if v != 0]
    if not nz:
        return True
    if any(v.denominator & (v.denominator - 1) for v in vals):
        return False
    unit = min(Fraction(v.numerator & -v.numerator, v.denominator) for v in nz)
    top = max(nz)
    # magnitudes within 2^+-60: in binary32 the product of two slopes (the turning-point test) must not underflow or overflow
    return 4 * top / unit < 2 ** 24 and Fraction(1, 2 ** 60) < unit and top < 2 ** 60


def spellings_for(seq):
    """names of the containers in which this exact sequence can be handed over without changing its values"""
    seq = [Fraction(v) for v in seq]
    names = ["list:float", "tuple:float", "list:np.float64", "list:negzero", "ndarray:float64", "ndarray:>f8", "ndarray:longdouble",
             "view:stride2", "view:reversed", "view:column", "ndarray:readonly", "generator", "iter", "deque", "array.array",
             "pandas.Series", "list:Fraction"]
    if exact_in_float32(seq):
        names += ["ndarray:float32", "list:np.float32"]
    if all(v.denominator == 1 for v in seq):
        names += ["list:int", "tuple:int", "list:mixed", "list:np.int64", "array.array:q", "pandas.Series:int64"]
        lo, hi = min(seq), max(seq)
        fits = [k for k, (a, b) in INT_RANGE.items() if a <= lo and hi <= b]
        names += ["ndarray:" + k for k in fits]
        # the same fixed-width integers NOT as one ndarray: containers of numpy scalars, iterators / generators / chained blocks
        # over integer arrays, pandas Series of that dtype, views of an integer array
        names += [nm for nm in (int_name(outer, k) for k in fits for outer in INT_OUTERS) if nm not in names]
    names += ["chain:float64", "chain:list+ndarray", "map:float"]
    return names


def int_wraps(name, seq):
    """the samples arrive as fixed-width numpy integers, and some difference or sum of two samples, or the product of two
    differences (the slope test of `reversals`), is not representable in that width (unsigned: any descent)"""
    dt = name.split(":")[-1].replace("np.", "")
    if dt not in INT_RANGE or name in ("array.array:q",):
        return False
    a, b = INT_RANGE[dt]
    vals = [Fraction(v) for v in seq]
    lo, hi = min(vals), max(vals)
    return not (a <= lo - hi and hi - lo <= b and a <= 2 * lo and 2 * hi <= b and (hi - lo) ** 2 <= b and -(hi - lo) ** 2 >= a)


def container(name, seq):
    """zero-argument factory of a FRESH container (generators are consumed by a call)"""
    fr = [Fraction(v) for v in seq]
    fl = [float(v) for v in fr]
    kind, _, sub = name.partition(":")
    if name == "list:float":
        return lambda: list(fl)
    if name == "tuple:float":
        return lambda: tuple(fl)
    if name == "list:int":
        return lambda: [int(v) for v in fr]
    if name == "tuple:int":
        return lambda: tuple(int(v) for v in fr)
    if name == "list:mixed":
        return lambda: [int(v) if i % 2 == 0 else float(v) for i, v in enumerate(fr)]
    if name == "list:Fraction":
        return lambda: list(fr)
    if name == "list:negzero":
        return lambda: [-0.0 if v == 0 else v for v in fl]
    if name.startswith("list:np."):
        t = getattr(np, sub[3:])
        return lambda: [t(v) for v in (fl if "float" in sub else [int(v) for v in fr])]
    dt = name.rsplit(":", 1)[-1].replace("np.", "")
    if dt in INT_RANGE and kind != "ndarray" and name != "pandas.Series:int64":
        outer, last = name.rsplit(":", 1)
        if last.startswith("np."):
            outer += ":np"
        iv = [int(v) for v in fr]

        def arr():
            return np.array(iv, dtype=dt)
        cut = max(1, len(iv) // 2)
        if outer == "tuple:np":
            return lambda: tuple(arr())
        if outer == "deque:np":
            return lambda: deque(arr())
        if outer == "iter":
            return lambda: iter(arr())
        if outer == "generator":
            return lambda: (v for v in arr())
        if outer == "chain":                         # a record kept in two blocks
            return lambda: itertools.chain(arr()[:cut], arr()[cut:])
        if outer == "chain3":                        # blocks of different container types, one of them empty
            return lambda: itertools.chain(list(arr()[:1]), arr()[:0], arr()[1:cut], tuple(arr()[cut:]))
        if outer == "pandas.Series":
            import pandas as pd
            return lambda: pd.Series(arr(), index=range(3, 3 + len(iv)))
        if outer == "view:stride2":
            def mk():
                a = np.zeros(2 * len(iv), dtype=dt)
                a[0::2] = iv
                return a[::2]
            return mk
        if outer == "tolist+np":                     # Python ints and numpy integers mixed
            return lambda: [v if i % 2 else v.item() for i, v in enumerate(arr())]
        if outer == "object-array":                  # ndarray of dtype object holding numpy integer scalars
            def mk():
                a = np.empty(len(iv), dtype=object)
                for i, v in enumerate(arr()):
                    a[i] = v
                return a
            return mk
        raise ValueError("unknown spelling " + name)
    if name == "chain:float64":
        cut = max(1, len(fl) // 2)
        return lambda: itertools.chain(np.array(fl[:cut]), np.array(fl[cut:]))
    if name == "chain:list+ndarray":
        cut = max(1, len(fl) // 2)
        return lambda: itertools.chain(fl[:cut], [], np.array(fl[cut:]))
    if name == "map:float":
        return lambda: map(float, fr)
    if name == "ndarray:readonly":
        def mk():
            a = np.array(fl)
            a.flags.writeable = False
            return a
        return mk
    if kind == "ndarray":
        if sub in INT_RANGE:
            return lambda: np.array([int(v) for v in fr], dtype=sub)
        return lambda: np.array(fl).astype(sub)
    if name == "view:stride2":
        def mk():
            a = np.empty(2 * len(fl))
            a[0::2], a[1::2] = fl, [99.0 - v for v in fl]
            return a[::2]
        return mk
    if name == "view:reversed":
        return lambda: np.array(fl[::-1])[::-1]
    if name == "view:column":
        def mk():
            m = np.full((len(fl), 3), 7.0)
            m[:, 1] = fl
            return m[:, 1]
        return mk
    if name == "generator":
        return lambda: (v for v in fl)
    if name == "iter":
        return lambda: iter(fl)
    if name == "deque":
        return lambda: deque(fl)
    if name == "array.array":
        import array
        return lambda: array.array("d", fl)
    if name == "array.array:q":
        import array
        return lambda: array.array("q", [int(v) for v in fr])
    if name == "pandas.Series":
        import pandas as pd
        return lambda: pd.Series(fl, index=range(5, 5 + len(fl)))
    if name == "pandas.Series:int64":
        import pandas as pd
        return lambda: pd.Series([int(v) for v in fr], dtype="int64")
    raise ValueError("unknown spelling " + name)


def call(fn, s, ep, ep_as):
    if ep_as == "kw":
        return fn(s, endpoints=ep)
    if ep_as == "pos":
        return fn(s, ep)
    if ep_as == "default":
        assert ep is False
        return fn(s)
    if ep_as == "np.bool_":
        return fn(s, endpoints=np.bool_(ep))
    raise ValueError("unknown spelling of the option " + ep_as)


def canon(v):
    return Fraction(v) if isinstance(v, Fraction) else Fraction(float(v))


def impl_spelled(mk, ep, ep_as):
    """like impl_all, every function on a fresh container of the given spelling"""
    from qats.fatigue import rainflow as rf
    out = {}
    try:
        out["rev"] = [canon(v) for v in call(rf.reversals, mk(), ep, ep_as)]
    except Exception as e:
        out["rev"] = "err:" + type(e).__name__
    try:
        f, h = call(rf.cycles, mk(), ep, ep_as)
        out["full"] = [(canon(a), canon(b)) for a, b in f]
        out["half"] = [(canon(a), canon(b)) for a, b in h]
    except Exception as e:
        out["full"] = out["half"] = "err:" + type(e).__name__
    try:
        c = call(rf.count_cycles, mk(), ep, ep_as)
        out["table"] = [tuple(Fraction(float(v)) for v in row) for row in c]
        out["shape"] = tuple(c.shape)
    except Exception as e:
        out["table"] = "err:" + type(e).__name__
    return out


def is_intwrap_shape(f):
    """proposed finding F39: fixed-width integer arrays wrap around in `reversals` / `cycles`"""
    inp = f.get("input", {})
    return isinstance(inp, dict) and "as" in inp and "series" in inp and int_wraps(inp["as"], inp["series"])


def is_npbool_shape(f):
    """proposed finding F40: `endpoints is True` ignores a true numpy bool"""
    inp = f.get("input", {})
    return isinstance(inp, dict) and inp.get("ep_as") == "np.bool_" and inp.get("endpoints") is True


def gen_spellings(chk, cases):
    """(seq, ep, container name, option spelling) — every admissible container is used, in seeded rotation"""
    rng = chk.rng
    pool = [c for c in cases if len(c[0]) >= 2]
    n = 2500 if chk.quick else 25000
    picked = [pool[i] for i in range(min(len(pool), 40))] + [rng.choice(pool) for _ in range(n)]
    for k, (seq, ep) in enumerate(picked):
        names = spellings_for(seq)
        # (fixed-width integer containers in which a difference / sum / product of slopes would wrap are included: every
        # narrow or unsigned dtype that can hold the values, e.g. any descent in unsigned data)
        name = names[(k + rng.randrange(3)) % len(names)]
        ep_as = rng.choice(["kw", "pos"] if ep else list(EP_SPELLINGS))      # np.bool_(True) is generated apart (below)
        yield seq, ep, name, ep_as
    # a true numpy bool for the end-point option
    for _ in range(8 if chk.quick else 60):
        seq, _ep = rng.choice(pool)
        yield seq, True, rng.choice(["list:float", "ndarray:float64", "tuple:float"]), "np.bool_"
    # integer samples close to the limits of their dtype, and unsigned integers: as one ndarray and as every other iterable
    # that yields fixed-width numpy integers (swings between turning points larger than the dtype's range)
    outers = ("ndarray",) + INT_OUTERS
    for k in range(150 if chk.quick else 1500):
        dt = rng.choice(["int8", "int16", "int32", "uint8", "uint16", "uint32", "uint64"])
        ln = rng.choice([3, 4, 5, 7, 10, 16])
        lo, hi = INT_RANGE[dt]
        r = rng.random()
        if dt.startswith("u"):
            top = rng.choice([5, 200, hi])
            seq = [Fraction(rng.randint(0, min(top, 2 ** 50))) for _ in range(ln)]
        elif r < 0.5:
            step = hi // 3
            seq = [Fraction(rng.randint(-3, 3) * step) for _ in range(ln)]
        elif r < 0.8:                                                          # alternating near the two limits
            seq = [Fraction((-1) ** i * (hi - rng.randint(0, hi // 8))) for i in range(ln)]
        else:                                                                  # the limits themselves
            seq = [Fraction(rng.choice([lo, hi, 0, lo + 1, hi - 1, -1, 1])) for _ in range(ln)]
        yield seq, rng.random() < 0.5, int_name(outers[k % len(outers)], dt), rng.choice(["kw", "pos"])


def check_spelled(chk, seq, ep, name, ep_as, model):
    tag = {"as": name, "ep_as": ep_as}
    inp = dict(series=[str(Fraction(v)) for v in seq], endpoints=ep, **tag)
    try:
        mk = container(name, seq)
        mk()
    except Exception as e:                       # the harness cannot build this spelling here (e.g. no longdouble): not a verdict
        chk.dist("spelling-unavailable:" + name)
        return
    chk.count("spelling")
    chk.dist("as=" + name)
    chk.dist("ep_as=" + ep_as)
    try:
        im = impl_spelled(mk, ep, ep_as)
        compare(chk, seq, ep, im, *model, tag=tag)
        oracles(chk, [Fraction(v) for v in seq], ep, im, tag=tag)
    except Exception as e:
        chk.fail("the results can be read as lists of (range, mean) pairs and an (n, 3) table", inp, "well-formed results",
                 "%s: %s" % (type(e).__name__, str(e)[:200]))


# =============================================================================================================
# K2: histories on one caller-owned object
# =============================================================================================================
def refine(seq):
    """linear interpolation at the half steps (what `resample=dt/2` produces on a uniform grid)"""
    out = []
    for a, b in zip(seq, seq[1:]):
        out += [a, (a + b) / 2]
    return out + [seq[-1]]


def gen_histories(chk, cases):
    rng = chk.rng
    pool = [c[0] for c in cases if 3 <= len(c[0]) <= 40 and all(abs(Fraction(v)) < 2 ** 40 for v in c[0])
            and all(Fraction(v).denominator <= 2 ** 20 for v in c[0])]
    n = 350 if chk.quick else 4000

    def other(seq):
        """another exact sequence of the same length: a few samples changed, or a different case"""
        alt = [s for s in (rng.choice(pool) for _ in range(6)) if len(s) == len(seq)]
        if alt and rng.random() < 0.5:
            return list(alt[0])
        new = list(seq)
        for _ in range(rng.choice([1, 1, 2, len(seq)])):
            new[rng.randrange(len(new))] = Fraction(rng.randint(-8, 8), rng.choice([1, 2]))
        return new

    for k in range(n):
        seq = [Fraction(v) for v in rng.choice(pool)]
        ln = len(seq)
        if k % 2 == 0:
            steps = []
            for _ in range(rng.randint(3, 7)):
                r = rng.random()
                if r < 0.35:
                    steps.append(dict(op="count", ep=rng.random() < 0.5))
                elif r < 0.45:
                    steps.append(dict(op="cycles", ep=rng.random() < 0.5))
                elif r < 0.55:
                    steps.append(dict(op="reversals", ep=rng.random() < 0.5))
                elif r < 0.62:
                    steps.append(dict(op="scribble"))
                elif r < 0.67:
                    steps.append(dict(op="reject", how=rng.choice(["one-sample", "empty", "half-consumed"])))
                elif r < 0.78:
                    steps.append(dict(op="poke", i=rng.randrange(ln), v=str(Fraction(rng.randint(-8, 8), rng.choice([1, 2])))))
                elif r < 0.9:
                    steps.append(dict(op="overwrite", series=[str(v) for v in other(seq)]))
                else:
                    steps.append(dict(op="interleave", other=[str(v) for v in other(seq)], ep=rng.random() < 0.5))
            steps.append(dict(op="count", ep=rng.random() < 0.5))
            h = dict(kind="history", obj=rng.choice(["ndarray", "ndarray", "list"]), series=[str(v) for v in seq], steps=steps)
        else:
            dt = rng.choice([1, 1, Fraction(1, 2), 2])
            t0 = rng.choice([0, 10, -3])
            steps = []
            for _ in range(rng.randint(3, 7)):
                r = rng.random()
                if r < 0.2:
                    steps.append(dict(op="rfc"))
                elif r < 0.45:
                    i = rng.randrange(ln - 1)
                    j = rng.randint(i + 1, ln - 1)
                    if rng.random() < 0.25:
                        i, j = 0, ln - 1                                      # a window that does nothing
                    st = dict(op="rfc", win=[i, j], pad=rng.choice(["0", "0", "1/4"]),
                              twin_as=rng.choice(["tuple", "list", "ndarray", "int"]))
                    if dt == 1 and rng.random() < 0.3:
                        st["resample"] = True
                    steps.append(st)
                elif r < 0.55:
                    steps.append(dict(op="rfc", noop=rng.choice(["taperfrac=0.0", "window_len=1", "filterargs=None", "resample=None",
                                                                 "twin=None", "window=hanning"])))
                elif r < 0.62 and dt == 1:
                    steps.append(dict(op="rfc", resample=True))
                elif r < 0.67:
                    steps.append(dict(op="scribble"))
                elif r < 0.72:
                    steps.append(dict(op="reject", how=rng.choice(["empty-window", "unknown-option", "one-sample-window"])))
                elif r < 0.8:
                    steps.append(dict(op="poke", i=rng.randrange(ln), v=str(Fraction(rng.randint(-8, 8), rng.choice([1, 2])))))
                elif r < 0.9:
                    steps.append(dict(op="setx", series=[str(v) for v in other(seq)]))
                else:
                    i = rng.randrange(ln - 1)
                    j = rng.randint(i + 1, ln - 1)
                    if rng.random() < 0.5:
                        i, j = 0, ln - 1
                    steps.append(dict(op="calc", win=[i, j], nbins_as=rng.choice(["pos", "kw"])))
            steps.append(dict(op="rfc"))
            h = dict(kind="history", obj="TimeSeries", series=[str(v) for v in seq], t0=str(t0), dt=str(dt),
                     x_as=rng.choice(["float64", "int64", "list-backed", "shared"]), steps=steps)
        if all(exact_in_binary64(s) for s, _ep in history_requests(h)):      # every content the object takes stays exact
            yield h


def walk(h):
    """simulate the content of the object through the history; yields (step index, step, list of expectations) where an
    expectation is (what, ep, sequence) with what in rev / cyc / tab"""
    cur = [Fraction(v) for v in h["series"]]
    first = list(cur)
    for k, st in enumerate(h["steps"]):
        op = st["op"]
        exp = []
        if op in ("count", "cycles", "reversals"):
            exp = [({"count": "tab", "cycles": "cyc", "reversals": "rev"}[op], st["ep"], list(cur))]
        elif op == "poke":
            cur[st["i"]] = Fraction(st["v"])
        elif op in ("overwrite", "setx"):
            cur = [Fraction(v) for v in st["series"]]
        elif op == "interleave":
            exp = [("rev", st["ep"], list(cur)), ("rev", st["ep"], [Fraction(v) for v in st["other"]])]
        elif op == "rfc":
            s = list(cur)
            if "win" in st:
                s = s[st["win"][0]:st["win"][1] + 1]
            if st.get("resample"):
                s = refine(s)
            exp = [("tab", False, s)]
        elif op == "calc":
            i, j = st["win"]
            exp = [("tab", False, cur[i:j + 1]), ("tab", False, first[i:j + 1])]
        yield k, st, exp


def history_requests(h):
    for _k, _st, exp in walk(h):
        for _what, ep, s in exp:
            yield s, ep


def run_history(chk, h, model):
    """execute the history on the implementation; every observation is compared with the model's result for the content
    the object has at that moment.  `model[(ep, tuple(seq))] = (rev, cyc, tab)` reply lines."""
    from qats.fatigue import rainflow as rf
    spec = "ASTM E1049-85 5.4.4 three-point procedure (Lean model Qats.Rainflow) at every use of the same object"

    def want(what, ep, s):
        m_rev, m_cyc, m_tab = model[(ep, tuple(s))]
        if what == "rev":
            return parse_rev(m_rev)
        if what == "cyc":
            f, hh = parse_cycles(m_cyc)
            return (sorted(f), sorted(hh))
        return sorted(parse_table(m_tab))

    def table(a):
        a = np.asarray(a)
        if a.ndim != 2 or a.shape[1] != 3:
            return "shape %s" % (a.shape,)
        return sorted(tuple(Fraction(float(v)) for v in row) for row in a)

    def show(v):
        if isinstance(v, (list, tuple)):
            return "[" + ", ".join(show(u) for u in v) + "]"
        return str(v)[:300]

    fl = [float(Fraction(v)) for v in h["series"]]
    last = None
    if h["obj"] == "TimeSeries":
        from qats import TimeSeries
        from qats.app.funcs import calculate_rfc
        t0, dt = Fraction(h["t0"]), Fraction(h["dt"])
        tt = [float(t0 + dt * i) for i in range(len(fl))]
        ta = np.array(tt)
        xa = {"float64": np.array(fl), "int64": np.array(fl), "list-backed": np.array(list(fl)), "shared": np.array(fl)}[h["x_as"]]
        if h["x_as"] == "int64" and all(float(v).is_integer() for v in fl):
            xa = np.array([int(v) for v in fl], dtype="int64")
        ts = TimeSeries("a", ta, xa)
        tsb = TimeSeries("b", ta, xa) if h["x_as"] == "shared" else TimeSeries("b", np.array(tt), np.array(fl))
    else:
        x = np.array(fl) if h["obj"] == "ndarray" else list(fl)
    for k, st, exp in walk(h):
        inp = dict(h, step=k)
        op = st["op"]
        chk.count("history-step")
        try:
            if op == "count":
                last = rf.count_cycles(x, endpoints=st["ep"])
                got, exp_v = table(last), want(*exp[0])
            elif op == "cycles":
                f, hh = rf.cycles(x, endpoints=st["ep"])
                got = (sorted((canon(a), canon(b)) for a, b in f), sorted((canon(a), canon(b)) for a, b in hh))
                exp_v = want(*exp[0])
            elif op == "reversals":
                got, exp_v = [canon(v) for v in rf.reversals(x, endpoints=st["ep"])], want(*exp[0])
            elif op == "scribble":
                if isinstance(last, np.ndarray) and last.size:
                    last[...] = 7.0
                continue
            elif op == "reject":
                # a request outside the domain (fewer than two samples, unknown option) or an abandoned generator: whatever it
                # does, the following valid requests must be answered correctly
                try:
                    how = st["how"]
                    if how == "one-sample":
                        rf.count_cycles(x[:1])
                    elif how == "empty":
                        rf.cycles(x[:0], endpoints=True)
                    elif how == "half-consumed":
                        next(rf.reversals(x, endpoints=True))
                    elif how == "empty-window":
                        ts.rfc(twin=(float(t0 + dt * len(fl) + 10), float(t0 + dt * len(fl) + 20)))
                    elif how == "one-sample-window":
                        ts.rfc(twin=(float(t0), float(t0)))
                    else:
                        ts.rfc(no_such_option=1)
                except Exception:
                    pass
                continue
            elif op == "poke":
                if h["obj"] == "TimeSeries":
                    ts.x[st["i"]] = float(Fraction(st["v"]))
                else:
                    x[st["i"]] = float(Fraction(st["v"]))
                continue
            elif op == "overwrite":
                x[:] = [float(Fraction(v)) for v in st["series"]]
                continue
            elif op == "setx":
                ts.x = np.array([float(Fraction(v)) for v in st["series"]])
                continue
            elif op == "interleave":
                y = [float(Fraction(v)) for v in st["other"]]
                g1, g2 = rf.reversals(x, endpoints=st["ep"]), rf.reversals(y, endpoints=st["ep"])
                o1, o2 = [], []
                live = [[g1, o1], [g2, o2]]
                while live:
                    for pair in list(live):
                        try:
                            pair[1].append(canon(next(pair[0])))
                        except StopIteration:
                            live.remove(pair)
                got, exp_v = [o1, o2], [want(*exp[0]), want(*exp[1])]
            elif op == "rfc":
                kw = {}
                if "win" in st:
                    i, j = st["win"]
                    pad = Fraction(st["pad"]) * dt
                    a, b = t0 + dt * i - pad, t0 + dt * j + pad
                    if st["twin_as"] == "int" and a.denominator == 1 and b.denominator == 1:
                        kw["twin"] = (int(a), int(b))
                    elif st["twin_as"] == "list":
                        kw["twin"] = [float(a), float(b)]
                    elif st["twin_as"] == "ndarray" and not st.get("resample"):
                        kw["twin"] = np.array([float(a), float(b)])
                    else:
                        kw["twin"] = (float(a), float(b))
                if st.get("resample"):
                    kw["resample"] = 0.5
                if "noop" in st:
                    key, _, val = st["noop"].partition("=")
                    kw[key] = {"0.0": 0.0, "1": 1, "None": None, "hanning": "hanning"}[val]
                last = ts.rfc(**kw)
                got, exp_v = table(last), want(*exp[0])
            elif op == "calc":
                i, j = st["win"]
                twin = (float(t0 + dt * i), float(t0 + dt * j))
                exp_v = [sorted((r, c) for r, m, c in want(*e)) for e in exp]
                try:
                    res = calculate_rfc({"a": ts, "b": tsb}, twin, None, None) if st["nbins_as"] == "pos" else \
                        calculate_rfc({"a": ts, "b": tsb}, twin, None, nbins=None)
                except ValueError:
                    if not all(exp_v):
                        continue        # recorded observation (DESIGN 9.4): calculate_rfc cannot unpack an EMPTY table; not a clause of C02
                    raise
                got = [sorted(zip((canon(v) for v in res[nm][0]), (canon(v) for v in res[nm][1]))) for nm in ("a", "b")]
            else:
                raise ValueError("unknown step " + op)
        except Exception as e:
            got, exp_v = "err:%s: %s" % (type(e).__name__, str(e)[:160]), (want(*exp[0]) if exp else "no error")
        if got != exp_v:
            chk.fail(spec + ": step %d (%s)" % (k, op), inp, show(exp_v), show(got), stream="history")
            if isinstance(got, str):
                return            # the object may be in any state after an exception


# =============================================================================================================
# K3: arbitrary binary64 signals against the independent reference (tolerance), every entry point
# =============================================================================================================
FLOAT_VIAS = ("functions:ndarray", "functions:list", "ts.rfc", "ts.rfc:twin", "calculate_rfc", "ts.rfc:lp", "ts.rfc:hp",
              "calculate_rfc:lp")


def gen_floats(chk):
    rng = chk.rng
    nrng = np.random.default_rng(rng.getrandbits(63))
    n = 500 if chk.quick else 6000
    # long records (size-dependent paths): integer-valued with many plateaus and ties, beginning and ending with one of the
    # short corner words (plateau / descent before the first turning point, constant ends, ...)
    longs = [(3000, "functions:ndarray"), (20000, "functions:ndarray"), (20000, "ts.rfc"), (12000, "functions:list")]
    if not chk.quick:
        longs += [(50000, "functions:ndarray"), (100000, "ts.rfc"), (50000, "calculate_rfc"), (1025, "functions:ndarray"),
                  (4097, "ts.rfc:twin"), (65537, "functions:ndarray")]
    corner = [[5, 3, 3, 1, 4, 0], [0, 0, 1, 1, 0], [2, 2, 2], [1, 3, 3, 2, 2, 5], [3, 1, 1, 2], [0, 4, 4], [4, 0, 0, 4, 4, 1]]
    for i, (ln, via) in enumerate(longs):
        a, b = rng.choice(corner), rng.choice(corner)
        if rng.random() < 0.5:
            b = b[::-1]
        if i % 2 == 0:                      # the record starts on a plateau left downwards and ends on one reached downwards
            a, b = [6, 6] + a, b + [-7, -7]
        body = np.round(nrng.normal(0, 2, ln - len(a) - len(b)))
        x = np.concatenate([a, body, b]) * rng.choice([1.0, 0.5, 8.0]) + rng.choice([0.0, 100.0])
        yield dict(kind="float", bits=[core.fbits(v) for v in x], endpoints=False, via=via, f=0.1,
                   win=[0, ln - 1] if rng.random() < 0.5 else [rng.randrange(5), ln - 1 - rng.randrange(5)], dt=rng.choice([1.0, 0.5]),
                   pattern=None if via.startswith("functions") or i % 4 != 2 else [0.5, 0.5, 2.0])
    for k in range(n):
        ln = rng.choice([2, 3, 4, 5, 8, 16, 40, 100, 300, 700])
        kind = rng.choice(["gauss", "sines", "walk", "plateau", "decimal", "narrow", "sawtooth"])
        if kind == "gauss":
            x = nrng.normal(0, 1, ln)
        elif kind == "sines":
            i = np.arange(ln)
            x = np.sin(rng.uniform(0.02, 2.5) * i + rng.uniform(0, 6)) + rng.uniform(0, 1) * np.sin(rng.uniform(0.02, 2.5) * i)
        elif kind == "walk":
            x = np.cumsum(nrng.normal(0, 1, ln))
        elif kind == "plateau":
            x = np.repeat(nrng.normal(0, 1, ln), nrng.integers(1, 4, ln))[:ln]
        elif kind == "decimal":
            x = np.round(nrng.normal(0, 1, ln) * rng.choice([1, 10, 100]), rng.choice([0, 1, 2, 3]))
        elif kind == "narrow":
            x = rng.choice([1e6, 1e9, 2.0 ** 40]) + nrng.normal(0, 1, ln) * rng.choice([1e-3, 1.0])
        else:
            x = np.where(np.arange(ln) % 2 == 0, 1.0, -1.0) * (1 + nrng.integers(0, 3, ln) * rng.choice([1.0, 0.1, 1 / 3]))
        x = x * rng.choice([1, 1, 1, 1e-3, 1e6, 2.0 ** 200, 2.0 ** -200, 1e60, 1e-60]) + rng.choice([0, 0, 0, 12345.678, -1e6])
        via = rng.choice(FLOAT_VIAS) if ln >= 40 else rng.choice(FLOAT_VIAS[:5])
        ep = rng.random() < 0.5 if via.startswith("functions") else False
        yield dict(kind="float", bits=[core.fbits(v) for v in x], endpoints=ep, via=via,
                   f=round(rng.uniform(0.05, 0.4), 3), win=sorted(rng.sample(range(ln), 2)) if ln >= 2 else [0, 0],
                   dt=rng.choice([1.0, 0.5, 0.1, 2.0]),
                   pattern=None if via.startswith("functions") else rng.choice(TIME_PATTERNS))


TIME_PATTERNS = (None, None, [0.5, 0.5, 2.0], [1.0, 3.0], [1.0, 1.0, 1.0, 1.0, 7.0], [1.0, 1.001], [0.25, 1.0, 0.5])


def float_times(n, dt, pattern):
    """time array of a K3 signal: uniform, or the step pattern (multiples of dt) repeated"""
    if not pattern or n < 2:
        return np.arange(n) * dt
    return np.concatenate([[0.0], np.cumsum(np.resize(np.array(pattern, dtype=float), n - 1))]) * dt


# =============================================================================================================
# K5: LONG records described by a few parameters (size- and position-conditioned code paths)
# =============================================================================================================
LONG_SIZES = (999, 1000, 1001, 1023, 1024, 1025, 4095, 4096, 4097, 9999, 10000, 10001, 65540, 70001)
LONG_GROUPS = ((999, 1000, 1001, 1023, 1024, 1025), (4095, 4096, 4097), (9999, 10000, 10001), (65540, 70001))
LONG_SHAPES = ("zigzag", "saw", "noise", "walk")
LONG_VIAS = ("functions:ndarray", "functions:list", "ts.rfc", "ts.rfc:twin", "calculate_rfc", "functions:ndarray")
LONG_BIG = 8192.0


def long_boundaries(n):
    """positions at which a blocked / chunked / thresholded implementation changes regime"""
    bs = set()
    for b in (1000, 1024, 4096, 10000, 65536):
        bs.update(range(b, n - 3, b))
    return sorted(bs)


def long_signal(p):
    """the record of a `long` case, rebuilt from its parameters: dyadic values of small magnitude (all float arithmetic of the
    count is exact), the body drawn from numpy's seeded generator, then the events written over it:
      swing   x[pos] = +BIG, x[pos+1] = -BIG   the largest cycle / the span, across pos|pos+1
      peak    x[pos] = BIG/2                    a turning point exactly at pos
      plateau x[pos-1] = x[pos] = x[pos+1]      equal samples across pos (a turning point that is a plateau, or none)
      tie     x[pos..pos+3] = a, b, a, b        two equal successive ranges across pos (X == Y)"""
    n, shape = int(p["n"]), p["shape"]
    g = np.random.default_rng(int(p["seed"]))
    i = np.arange(n)
    sgn = np.where(i % 2 == 0, 1.0, -1.0)
    if shape == "zigzag":                       # every interior sample is a turning point; ranges mostly distinct
        x = sgn * g.integers(1, 60, n) * 0.5
    elif shape == "saw":                        # every interior sample is a turning point; chains of equal ranges (X == Y)
        x = sgn * 3.0 + g.choice([0.0, 0.0, 0.0, 1.0], n)
    elif shape == "noise":                      # plateaus, ties, about two thirds of the samples are turning points
        x = np.round(g.normal(0, 2, n))
    else:                                       # walk: slopes and plateaus, few turning points
        x = np.cumsum(g.integers(-2, 3, n)) * 0.5
    for kind, pos in p.get("events", ()):
        pos = int(pos) % n
        if kind == "swing" and pos + 1 < n:
            x[pos], x[pos + 1] = LONG_BIG, -LONG_BIG
        elif kind == "peak":
            x[pos] = LONG_BIG / 2
        elif kind == "plateau" and 1 <= pos < n - 1:
            x[pos - 1] = x[pos + 1] = x[pos]
        elif kind == "tie" and pos + 3 < n:
            x[pos:pos + 4] = [x[pos], x[pos] + 7.0, x[pos], x[pos] + 7.0]
    return x * float(p.get("scale", 1.0)) + float(p.get("offset", 0.0))


def gen_long(chk):
    """long records of the sizes just below / at / above 1000, 1024, 4096, 10000 and beyond 65536, the interesting events in the
    first / last few samples, exactly at multiples of 1000 / 1024 / 4096 / 10000 / 65536 and across them"""
    rng = chk.rng
    if chk.quick:
        sizes = [rng.choice(gp) for gp in LONG_GROUPS]
        shapes = ["zigzag"] + [rng.choice(LONG_SHAPES[1:]) for _ in range(3)]
        rng.shuffle(shapes)
        shapes[3] = "zigzag" if rng.random() < 0.7 else shapes[3]     # (beyond 65536 samples: usually beyond 32768 cycles too)
    else:
        sizes = list(LONG_SIZES) * 3
        shapes = [LONG_SHAPES[k % 4] for k in range(len(sizes))]
        rng.shuffle(shapes)
    for k, (n, shape) in enumerate(zip(sizes, shapes)):
        bs = long_boundaries(n)
        via = LONG_VIAS[(k + rng.randrange(len(LONG_VIAS))) % len(LONG_VIAS)]
        if n > 20000 and chk.quick:
            via = rng.choice(["functions:ndarray", "ts.rfc"])
        ep = rng.random() < 0.5 if via.startswith("functions") else False
        near_end = [0, 1, 2, n - 4, n - 3, n - 2]
        at_b = [b + d for b in bs for d in (-2, -1, 0, 1)] or near_end
        ev = []
        ev.append(["swing", rng.choice(near_end if k % 2 == 0 else at_b)])
        ev.append(["peak", rng.choice([b + d for b in bs for d in (-1, 0)] + [1, n - 2])])
        for _ in range(rng.randint(1, 3)):
            ev.append(["plateau", rng.choice([b + d for b in bs for d in (-1, 0, 1)] + [1, n - 2])])
        for _ in range(rng.randint(0, 2)):
            ev.append(["tie", rng.choice([b + d for b in bs for d in (-3, -2, -1, 0)] + [0, n - 4])])
        rng.shuffle(ev)
        cut = rng.random() < 0.5
        yield dict(kind="long", n=n, shape=shape, seed=rng.getrandbits(40), events=ev, scale=rng.choice([1.0, 1.0, 0.5, 8.0]),
                   offset=rng.choice([0.0, 0.0, 100.0, -4096.0]), endpoints=ep, via=via, f=0.1,
                   win=[rng.randrange(4), n - 1 - rng.randrange(4)] if cut else [0, n - 1], dt=rng.choice([1.0, 0.5]),
                   pattern=None if via.startswith("functions") or k % 3 else [0.5, 0.5, 2.0])


def _rows_close(A, B, tol, big=False):
    """multisets of tuples equal within tol in the first two entries (range, mean) and exactly in the others"""
    if len(A) != len(B):
        return False

    def close(a, b):
        return all(abs(u - v) <= tol for u, v in zip(a[:2], b[:2])) and tuple(a[2:]) == tuple(b[2:])
    if all(close(a, b) for a, b in zip(sorted(A), sorted(B))):
        return True
    if big and len(A) > 3000:            # (exact long records: the sorted pairing is the comparison; no quadratic search)
        return False
    rest = list(B)
    for a in A:
        hit = next((i for i, b in enumerate(rest) if close(a, b)), None)
        if hit is None:
            return False
        rest.pop(hit)
    return True


def _diff(exp, got):
    """short description of two row lists that differ"""
    e, g = sorted(exp), sorted(got)
    i = next((k for k, (a, b) in enumerate(zip(e, g)) if a != b), min(len(e), len(g)))
    return "%d rows, sorted rows from #%d: %s" % (len(e), i, e[i:i + 4]), "%d rows, sorted rows from #%d: %s" % (len(g), i, g[i:i + 4])


def check_float(chk, c):
    from qats.fatigue import rainflow as rf
    is_long = c.get("kind") == "long"
    ep, via = c["endpoints"], c["via"]
    inp = dict(c)
    chk.count(("long:" if is_long else "float:") + via)
    if is_long:
        chk.dist("long:n=%d" % c["n"])
        chk.dist("long:shape=%s" % c["shape"])
    try:
        x = [float(v) for v in long_signal(c)] if is_long else [core.unfbits(b) for b in c["bits"]]
        entry_tab, xin = None, x
        if via.startswith("functions"):
            def mk():
                return np.array(x) if via.endswith("ndarray") else list(x)
        else:
            from qats import TimeSeries
            from qats.app.funcs import calculate_rfc
            dt = c["dt"]
            t = float_times(len(x), dt, c.get("pattern"))
            ts = TimeSeries("a", t, np.array(x))
            kw = {}
            if via in ("ts.rfc:twin", "calculate_rfc"):
                i, j = c["win"]
                kw["twin"] = (float(t[i]), float(t[j]))
                xin = x[i:j + 1]
            elif via in ("ts.rfc:lp", "ts.rfc:hp", "calculate_rfc:lp"):
                kw["filterargs"] = (via[-2:], c["f"] / float(np.mean(np.diff(t))))    # relative to the mean time step
                if via.startswith("calc"):
                    kw["twin"] = (float(t[0]), float(t[-1]))
                xin = [float(v) for v in ts.get(**kw)[1]]              # the filter is C12's subject; here: what is counted
            if via.startswith("calculate_rfc"):
                try:
                    r, cc = calculate_rfc({"a": ts}, kw["twin"], kw.get("filterargs"), None)["a"]
                    entry_tab = [(float(a), float(b)) for a, b in zip(r, cc)]
                except Exception as e:               # (an EMPTY table cannot be unpacked there: recorded observation, DESIGN 9.4)
                    entry_tab = "raises " + type(e).__name__
            else:
                entry_tab = [tuple(float(v) for v in row) for row in ts.rfc(**kw)]

            def mk():
                return np.array(xin)
        if len(xin) < 2:
            return
        scale = max(abs(v) for v in xin) or 1.0
        tol = 1e-12 * scale
        rf_f = ref_all(list(xin), ep)
        if is_long and exact_in_binary64(xin):
            robust = True                    # dyadic values of small magnitude: float and exact arithmetic coincide
        else:
            rf_e = ref_all([Fraction(v) for v in xin], ep)
            robust = (len(rf_f["full"]) == len(rf_e["full"]) and len(rf_f["half"]) == len(rf_e["half"])
                      and _rows_close(rf_f["table"], [tuple(float(v) for v in r) for r in rf_e["table"]], tol, is_long))
        chk.dist("float-robust" if robust else "float-fragile(rounding decides a tie)")
        rev = [float(v) for v in rf.reversals(mk(), endpoints=ep)]
        full, half = rf.cycles(mk(), endpoints=ep)
        full, half = [(float(a), float(b)) for a, b in full], [(float(a), float(b)) for a, b in half]
        tab_a = rf.count_cycles(mk(), endpoints=ep)
        shape = tuple(np.shape(tab_a))
        tab = [tuple(float(v) for v in row) for row in tab_a]
        if full or half:
            chk.nontriv(("long", ep, c["n"], c["shape"], c["seed"]) if is_long else ("float", ep, tuple(c["bits"][:40]), len(x)))
        # -- clauses
        if rev != [float(v) for v in rf_f["rev"]]:
            chk.fail("counted points == turning points of the series (run-based reference), with its end points if asked", inp,
                     str(rf_f["rev"][:12]), str(rev[:12]))
        if 2 * len(full) + len(half) != max(len(rev) - 1, 0):
            chk.fail("2*full + half == counted points - 1", inp, max(len(rev) - 1, 0), 2 * len(full) + len(half))
        if len(shape) != 2 or shape[1] != 3:
            chk.fail("table has three columns", inp, "(n,3)", str(shape))
            return
        if sorted(tab) != sorted([(r, m, 1.0) for r, m in full] + [(r, m, 0.5) for r, m in half]):
            chk.fail("table rows == full cycles with count 1 + half cycles with count 1/2", inp,
                     *_diff([(r, m, 1.0) for r, m in full] + [(r, m, 0.5) for r, m in half], tab))
        if any(tab[i][:2] > tab[i + 1][:2] for i in range(len(tab) - 1)):
            chk.fail("table sorted by range then mean", inp, "sorted", str(tab[:8]))
        if len(rf_f["rev"]) >= 2:
            span = max(rf_f["rev"]) - min(rf_f["rev"])
            top = max((r for r, m, _c in tab), default=None)
            if top is None or abs(top - span) > tol or any(r < 0 for r, m, _c in tab):
                chk.fail("largest range == span between highest and lowest counted point (1e-12 of the magnitude)", inp, span, top)
        elif tab:
            chk.fail("no cycle -> empty table", inp, 0, len(tab))
        if robust and not (_rows_close(full, rf_f["full"], tol, is_long) and _rows_close(half, rf_f["half"], tol, is_long)
                           and _rows_close(tab, rf_f["table"], tol, is_long)):
            chk.fail("counted cycles == ASTM E1049-85 5.4.4 on the turning points (independent reference, 1e-12 of the magnitude)",
                     inp, *_diff(rf_f["table"], tab))
        if entry_tab is not None:
            if isinstance(entry_tab, str):
                if tab:
                    chk.fail("calculate_rfc gives the ranges and counts of the window's table", inp, str(tab[:4]), entry_tab)
            elif via.startswith("calculate_rfc"):
                if not _rows_close([(r, 0.0, c2) for r, c2 in entry_tab], [(r, 0.0, c2) for r, m, c2 in tab], tol, is_long):
                    chk.fail("calculate_rfc gives the ranges and counts of the window's table", inp,
                             *_diff([(r, c2) for r, m, c2 in tab], entry_tab))
            elif not _rows_close(entry_tab, tab, tol, is_long):
                chk.fail("TimeSeries.rfc(**kwargs) counts the series that get(**kwargs) returns", inp, *_diff(tab, entry_tab))
            elif robust and not _rows_close(entry_tab, rf_f["table"], tol, is_long):
                chk.fail("TimeSeries.rfc(**kwargs) == ASTM E1049-85 5.4.4 on the turning points of the series that get(**kwargs) "
                         "returns (independent reference, 1e-12 of the magnitude)", inp, *_diff(rf_f["table"], entry_tab))
    except Exception as e:
        chk.fail("reversals / cycles / count_cycles / TimeSeries.rfc give well-formed results for a finite series of >= 2 samples",
                 inp, "no error", "%s: %s" % (type(e).__name__, str(e)[:200]))

# =============================================================================================================
# K4: series on uniform and non-uniform time grids through every series-level entry point (histories on the same objects)
# =============================================================================================================
GRIDS = ("uniform", "alternating", "random", "gap", "refined", "jitter")
SERIES_VIAS = ("ts.rfc", "ts.rfc", "ts.rfc", "calculate_rfc", "calculate_rfc", "calculate_rfc", "calculate_rfc",
               "ts.plot_cycle_range", "tsdb.plot_cycle_range")
SERIES_NOOPS = ("taperfrac=0.0", "filterargs=None", "resample=None", "window=hanning", "twin=None")
SERIES_PROCS = ("lp", "hp", "bp", "resample", "smooth", "taper")


def grid_steps(rng, name, n):
    """n-1 positive time increments, exact dyadic rationals"""
    F = Fraction
    if name == "uniform":
        return [rng.choice([F(1), F(1, 2), F(2), F(1, 8)])] * (n - 1)
    if name == "alternating":                   # e.g. an event-driven logger: short steps, then a long one
        pat = rng.choice([[F(1, 2), F(1, 2), F(2)], [F(1), F(3)], [F(1, 4), F(1)], [F(2), F(1, 2)], [F(1), F(1), F(1), F(5)]])
        return [pat[i % len(pat)] for i in range(n - 1)]
    if name == "random":
        return [rng.choice([F(1, 4), F(1, 2), F(1), F(2), F(3)]) for _ in range(n - 1)]
    if name == "gap":                           # a uniform record with a hole
        st = [F(1)] * (n - 1)
        st[rng.randrange(n - 1)] = F(rng.choice([5, 20, 100]))
        return st
    if name == "refined":                       # the logging step changes part-way
        k = rng.randrange(n)
        a, b = rng.choice([(F(1), F(1, 8)), (F(1, 4), F(2)), (F(1), F(1, 2))])
        return ([a] * k + [b] * (n - 1))[:n - 1]
    if name == "jitter":                        # nominal step 1; 2^-6 / 2^-10: visibly varying; 2^-24: inside is_constant_dt's 1e-5
        j = F(1, 2 ** rng.choice([6, 10, 24]))
        return [F(1) + rng.choice([-1, 0, 1]) * j for _ in range(n - 1)]
    raise ValueError("unknown grid " + name)


def gen_series(chk, cases):
    rng = chk.rng
    pool = [c[0] for c in cases if 5 <= len(c[0]) <= 64 and all(abs(Fraction(v)) < 2 ** 20 for v in c[0])
            and all(Fraction(v).denominator <= 2 ** 20 for v in c[0])]
    n = 220 if chk.quick else 2500
    for k in range(n):
        if k % 2:
            seq = [Fraction(v) for v in rng.choice(pool)]
        else:                                   # records long enough for windows and filters
            ln = rng.choice([8, 12, 30, 50, 80, 120])
            if rng.random() < 0.5:
                seq = [Fraction(rng.randint(-16, 16), rng.choice([1, 2, 4])) for _ in range(ln)]
            else:                               # walk with plateaus
                x, seq = Fraction(0), []
                for _i in range(ln):
                    x += Fraction(rng.choice([-3, -2, -1, 0, 0, 1, 2, 3]), rng.choice([1, 2]))
                    seq.append(x)
        ln = len(seq)
        grid = GRIDS[k % len(GRIDS)]
        b_grid = "alternating" if grid == "uniform" else rng.choice(["uniform", "uniform", "random"])
        c = dict(kind="series", series=[str(v) for v in seq], t0=str(rng.choice([0, 0, 10, -3])), grid=grid,
                 steps=[str(v) for v in grid_steps(rng, grid, ln)], b_grid=b_grid,
                 b_steps=[str(v) for v in grid_steps(rng, b_grid, ln)], requests=[])
        for _ in range(rng.randint(2, 5)):
            via = rng.choice(SERIES_VIAS)
            rq = dict(via=via)
            if rng.random() < 0.55:
                i = rng.randrange(ln - 1)
                j = rng.randint(i + 1, ln - 1)
                if rng.random() < 0.2:
                    i, j = 0, ln - 1                                          # a window that does nothing
                rq.update(win=[i, j], pad=rng.choice(["0", "0", "1/16"]), twin_as=rng.choice(["tuple", "list", "tuple"]))
            r = rng.random()
            if r < 0.2 and via != "calculate_rfc":
                rq["opt"] = rng.choice(SERIES_NOOPS)
            elif r < 0.4:
                nwin = rq["win"][1] - rq["win"][0] + 1 if "win" in rq else ln
                procs = SERIES_PROCS[:3] if via == "calculate_rfc" else SERIES_PROCS
                if nwin < 40:                    # (the filters need some 20-35 samples)
                    procs = procs[3:]
                if not procs:
                    continue
                rq["opt"] = rng.choice(procs)
                rq["f"] = rng.choice([0.05, 0.1, 0.2, 0.3])
            if via == "ts.rfc":
                rq["who"] = rng.choice(["a", "a", "b"])
            elif via == "calculate_rfc":
                rq["who"] = rng.choice(["a", "ab", "ba"])
                rq["nbins"] = rng.choice([None, None, None, 2, 5, 16, 256])
                rq["nbins_as"] = rng.choice(["pos", "kw"])
            elif via == "ts.plot_cycle_range":
                rq["who"] = rng.choice(["a", "a", "b"])
                rq.update(rng.choice([dict(n=2), dict(n=7), dict(n=25), dict(n=3), dict(n=None, w="1/2"), dict(n=10, w="1"), dict(n=5),
                                      dict(n=None, w="2"), dict(default=True) if rng.random() < 0.3 else dict(n=12)]))
            else:
                rq["who"] = rng.choice(["a", "ab", "ba", "all", "b"])
                rq.update(rng.choice([dict(n=3), dict(n=10), dict(n=2), dict(n=6), dict(n=None, w="1"), dict(n=None, w="2"),
                                      dict(default=True) if rng.random() < 0.2 else dict(n=16)]))
            c["requests"].append(rq)
        c["requests"].append(dict(via="ts.rfc", who="a"))
        # every window must hold at least two samples of every series it is applied to
        d = series_data(c)
        if all(len(s) >= 2 for rq in c["requests"] for _nm, s in series_windows(c, rq, d)):
            yield c


def series_data(c):
    """exact times and samples of the two series: a (the case's grid) and b (the same samples reversed, on another grid)"""
    xa = [Fraction(v) for v in c["series"]]
    t0 = Fraction(c["t0"])

    def times(steps):
        t = [t0]
        for d in steps:
            t.append(t[-1] + Fraction(d))
        return t
    return dict(a=(times(c["steps"]), xa), b=(times(c["b_steps"]), xa[::-1]))


def series_twin(c, rq, d=None):
    if "win" not in rq:
        return None
    ta = (d or series_data(c))["a"][0]
    pad = Fraction(rq["pad"])
    return ta[rq["win"][0]] - pad, ta[rq["win"][1]] + pad


def series_who(rq):
    return {"a": ["a"], "b": ["b"], "ab": ["a", "b"], "ba": ["b", "a"], "all": ["a", "b"]}[rq["who"]]


def series_windows(c, rq, d=None):
    """(name, samples inside the request's time window) for every series the request touches"""
    d = d or series_data(c)
    tw = series_twin(c, rq, d)
    for nm in series_who(rq):
        t, x = d[nm]
        yield nm, [v for u, v in zip(t, x) if tw is None or tw[0] <= u <= tw[1]]


def series_model_requests(c):
    d = series_data(c)
    for rq in c["requests"]:
        if rq.get("opt") not in SERIES_PROCS:
            for _nm, s in series_windows(c, rq, d):
                yield s, False


def _bars(num):
    """what a bar chart shows: {label: [(bar centre, bar height)]}"""
    import matplotlib.pyplot as plt
    out = {}
    for cont in plt.figure(num).gca().containers:
        out[str(cont.get_label())] = [(float(p.get_x() + p.get_width() / 2), float(p.get_height())) for p in cont.patches]
    return out


def run_series(chk, c, model):
    from qats import TimeSeries, TsDB
    from qats.app.funcs import calculate_rfc
    from qats.fatigue import rainflow as rf
    import matplotlib.pyplot as plt
    data = series_data(c)
    obj = {nm: TimeSeries(nm, np.array([float(u) for u in t]), np.array([float(v) for v in x])) for nm, (t, x) in data.items()}
    db = TsDB()
    db.add(obj["a"])
    db.add(obj["b"])
    scale = max([abs(float(v)) for v in data["a"][1]] + [1e-300])
    tol = 1e-12 * scale
    fig = 97

    def show(rows):
        return str([tuple(round(float(v), 14) for v in r) for r in rows][:12])

    for k, rq in enumerate(c["requests"]):
        inp = dict(c, step=k)
        via, opt = rq["via"], rq.get("opt")
        chk.count("series-request")
        chk.dist("series:%s" % via)
        names = series_who(rq)
        try:
            kw = {}
            tw = series_twin(c, rq, data)
            if tw is not None:
                kw["twin"] = [float(tw[0]), float(tw[1])] if rq.get("twin_as") == "list" else (float(tw[0]), float(tw[1]))
            if opt in SERIES_NOOPS:
                key, _, val = opt.partition("=")
                kw[key] = {"0.0": 0.0, "None": None, "hanning": "hanning"}[val]
                if key == "twin" and tw is not None:
                    kw["twin"] = (float(tw[0]), float(tw[1]))                  # (the request already has a window: keep it)
            elif opt in ("lp", "hp", "bp"):
                # frequencies relative to the coarsest mean time step among the series of the request (below Nyquist for all)
                step = max(float((data[nm][0][-1] - data[nm][0][0]) / (len(data[nm][0]) - 1)) for nm in names)
                kw["filterargs"] = (opt, rq["f"] / step) if opt != "bp" else ("bp", rq["f"] / 2 / step, min(2 * rq["f"], 0.45) / step)
            elif opt == "resample":
                kw["resample"] = float(rq["f"] * 5)
            elif opt == "smooth":
                kw["window_len"] = 3
            elif opt == "taper":
                kw["taperfrac"] = rq["f"]
            plain = opt not in SERIES_PROCS
            # -- what must be counted: exactly the samples inside the window (model), or what get(**kwargs) returns
            exp, counted = {}, {}
            if not plain:
                try:
                    for nm in names:
                        obj[nm].get(**kw)
                except Exception:
                    chk.dist("series:get(**kwargs) raises (the processing is not C02's subject)")
                    continue
            for nm, s in series_windows(c, rq, data):
                if plain:
                    exp[nm] = [tuple(float(v) for v in row) for row in sorted(parse_table(model[(False, tuple(s))][2]))]
                    counted[nm] = [float(v) for v in s]
                else:
                    counted[nm] = [float(v) for v in obj[nm].get(**kw)[1]]
                    exp[nm] = [tuple(float(v) for v in row) for row in ref_all(counted[nm], False)["table"]] \
                        if len(counted[nm]) >= 2 else []
            if any(len(counted[nm]) < 2 for nm in names):
                chk.dist("series:fewer than two samples after processing (outside the quantifier)")
                continue
            what = ("the samples inside the time window, whatever their sampling instants (Lean model Qats.Rainflow)" if plain else
                    "the series that get(**kwargs) returns (independent reference, 1e-12 of the magnitude)")
            if via == "ts.rfc":
                nm = names[0]
                tab_a = obj[nm].rfc(**kw)
                shape = tuple(np.shape(tab_a))
                if len(shape) != 2 or shape[1] != 3:
                    chk.fail("table has three columns", inp, "(n,3)", str(shape), stream="series")
                    continue
                got = [tuple(float(v) for v in row) for row in tab_a]
                if any(got[i][:2] > got[i + 1][:2] for i in range(len(got) - 1)):
                    chk.fail("table sorted by range then mean", inp, "sorted", show(got), stream="series")
                npts = len(ref_reversals(counted[nm], False)) if len(counted[nm]) >= 2 else 0
                if any(r[2] not in (1.0, 0.5) for r in got) or 2 * sum(r[2] for r in got) != max(npts - 1, 0):
                    chk.fail("counts are 1.0 or 0.5 and 2*full + half == counted points - 1 (turning points of " + what + ")",
                             inp, max(npts - 1, 0), 2 * sum(r[2] for r in got), stream="series")
                if plain:
                    ok = sorted(got) == sorted(exp[nm])
                else:
                    fr = ref_all([Fraction(v) for v in counted[nm]], False)["table"] if len(counted[nm]) >= 2 else []
                    robust = len(fr) == len(exp[nm]) and _rows_close(exp[nm], [tuple(float(v) for v in r) for r in fr], tol)
                    ok = _rows_close(got, exp[nm], tol) or not robust
                if not ok:
                    chk.fail("TimeSeries.rfc(**kwargs) == ASTM E1049-85 5.4.4 table of " + what, inp, show(exp[nm]), show(got),
                             stream="series")
                continue
            # -- the other entry points show (range, count) of each series' table, raw or re-binned by range
            if any(not exp[nm] for nm in names):
                chk.dist("series:no-cycle (not evaluated through %s)" % via)   # an empty table cannot be unpacked / re-binned there
                continue
            if via == "calculate_rfc":
                rb = dict(n=rq["nbins"]) if rq["nbins"] is not None else None
            elif rq.get("default"):
                rb = dict(n=200)
            else:
                rb = dict(n=rq.get("n"), w=float(Fraction(rq["w"])) if rq.get("w") else None)
            want = {}
            try:
                for nm in names:
                    rows = exp[nm] if rb is None else [tuple(r) for r in rf.rebin(np.array(exp[nm]), binby="range", **rb)]
                    want[nm] = [(float(r[0]), float(r[2])) for r in rows]
            except Exception:
                chk.dist("series:re-binning undefined (C04's subject)")
                continue
            if rb is not None and any(len(want[nm]) < 2 for nm in names) and via != "calculate_rfc":
                continue                                                       # a single bin: the bar width is undefined
            if via == "calculate_rfc":
                cont = {nm: obj[nm] for nm in names}
                fargs = kw.get("filterargs")
                res = calculate_rfc(cont, kw.get("twin"), fargs, rq["nbins"]) if rq["nbins_as"] == "pos" else \
                    calculate_rfc(cont, kw.get("twin"), fargs, nbins=rq["nbins"])
                got = {nm: [(float(a), float(b)) for a, b in zip(*res[nm])] for nm in names}
                if list(res.keys()) != names:
                    chk.fail("calculate_rfc answers for every series of the container", inp, names, list(res.keys()), stream="series")
                text = "calculate_rfc gives the ranges and counts%s of each series' ASTM E1049-85 table of " % \
                    (" (re-binned by range)" if rb else "") + what
            else:
                plt.close(fig)
                pk = {k2: v for k2, v in (("n", rq.get("n")), ("w", float(Fraction(rq["w"])) if rq.get("w") else None)) if k2 in rq}
                try:
                    if via == "ts.plot_cycle_range":
                        obj[names[0]].plot_cycle_range(show=False, num=fig, **pk, **kw)
                    else:
                        db.plot_cycle_range(names=None if rq["who"] == "all" else names if len(names) > 1 else names[0],
                                            show=False, num=fig, **pk, **kw)
                    got = _bars(fig)
                finally:
                    plt.close(fig)
                if sorted(got.keys()) != sorted(names):
                    chk.fail("plot_cycle_range draws one set of bars per requested series", inp, names, list(got.keys()),
                             stream="series")
                    continue
                text = "%s draws the ranges and counts (re-binned by range) of each series' ASTM E1049-85 table of " % via + what
            for nm in names:
                g, w_ = got[nm], want[nm]
                if plain and rb is None:
                    ok = sorted(g) == sorted(w_)
                else:
                    ok = _rows_close([(r, 0.0, n_) for r, n_ in g], [(r, 0.0, n_) for r, n_ in w_], 1e-9 * scale)
                if not ok:
                    chk.fail(text, dict(inp, series_name=nm), show(w_), show(g), stream="series")
        except Exception as e:
            chk.fail("TimeSeries.rfc / calculate_rfc / plot_cycle_range give well-formed results for a finite series of >= 2 samples "
                     "(request %d: %s)" % (k, via), inp, "no error", "%s: %s" % (type(e).__name__, str(e)[:200]), stream="series")
            return


def model_lines(seq, ep):
    xs = " ".join(rat(v) for v in seq)
    e = "1" if ep else "0"
    return ["rf.reversals %s %s" % (e, xs), "rf.cycles %s %s" % (e, xs), "rf.count %s %s" % (e, xs)]


def check_case(chk, seq, ep, m_rev, m_cyc, m_tab):
    """K0: list of floats / float64 array against the model, the clauses, and the harness reference against both"""
    inp = dict(series=[str(Fraction(v)) for v in seq], endpoints=ep)
    im = impl_all([float(v) for v in seq], ep)
    try:
        compare(chk, seq, ep, im, m_rev, m_cyc, m_tab)
        oracles(chk, [float(v) for v in seq], ep, im)
    except Exception as e:
        chk.fail("the results can be read as lists of (range, mean) pairs and an (n, 3) table", inp, "well-formed results",
                 "%s: %s" % (type(e).__name__, str(e)[:200]))
    if len(seq) >= 2:
        # the harness reference (used for arbitrary floats) is itself tied to the model on every exact case
        rf_ = ref_all([Fraction(v) for v in seq], ep)
        mrev, (mf, mh), mt = parse_rev(m_rev), parse_cycles(m_cyc), parse_table(m_tab)
        if isinstance(mrev, str) or rf_["rev"] != mrev or sorted(rf_["full"]) != sorted(mf) or sorted(rf_["half"]) != sorted(mh) \
                or sorted(rf_["table"]) != sorted(mt):
            chk.disagree("harness reference vs model", inp, str((m_rev, m_cyc))[:300], str(rf_)[:300])
        # counted points by the independent run-based definition (not by the implementation's own generator)
        if not isinstance(im["rev"], str) and im["rev"] != rf_["rev"]:
            chk.fail("counted points == turning points of the series (run-based reference), with its end points if asked", inp,
                     [str(v) for v in rf_["rev"]], [str(v) for v in im["rev"]])
        if not isinstance(im["table"], str) and len(rf_["rev"]) >= 2:
            span = max(rf_["rev"]) - min(rf_["rev"])
            top = max((r[0] for r in im["table"] if len(r) == 3), default=None)
            if top != span:
                chk.fail("largest range == span between highest and lowest turning point (run-based reference)", inp, str(span), str(top))
    return im


USES_TRANSLATOR = True          # rf_x, rf_y, rf_m, rf_left_* (three-point rule of rainflow.cycles) are regenerated from the source
ANCHOR_PREFIX = ("rf_",)


def run(chk):
    import qats  # noqa
    chk.extra["rule"] = RULE
    chk.assumptions += ["inputs are small integers / dyadic rationals so that the float arithmetic of the implementation is exact",
                        "floating-point rounding (range ties created by rounding) is outside the theorems",
                        "arbitrary binary64 signals: values compared with 1e-12 of the signal's magnitude, and only when exact and "
                        "float arithmetic take the same decisions; magnitudes within 2^+-200 (the product of two slopes neither "
                        "underflows nor the sums overflow)"]
    drv = core.Driver()
    cases, spelled, histories, floats, series = [], [], [], [], []
    for c in core.load_corpus("C02"):
        if c.get("kind") == "history":
            histories.append(c)
        elif c.get("kind") == "series":
            series.append(c)
        elif c.get("kind") in ("float", "long"):
            floats.append(c)
        elif "as" in c:
            spelled.append(([Fraction(v) for v in c["series"]], bool(c["endpoints"]), c["as"], c.get("ep_as", "kw")))
        else:
            cases.append(([Fraction(v) for v in c["series"]], bool(c["endpoints"])))
    ncorpus = len(cases)
    cases += list(gen_cases(chk))
    cases += list(gen_more_cases(chk))
    spelled += list(gen_spellings(chk, cases[ncorpus:] or cases))
    histories += list(gen_histories(chk, cases))
    floats += list(gen_floats(chk))
    floats += list(gen_long(chk))
    series += list(gen_series(chk, cases))
    # one batch of model requests: every K0 case, then what the spellings and histories need in addition
    index = {}
    lines = []

    def need(seq, ep):
        key = (bool(ep), tuple(Fraction(v) for v in seq))
        if key not in index:
            index[key] = len(lines)
            lines.extend(model_lines(key[1], ep))
        return key
    for seq, ep in cases:
        need(seq, ep)
    for seq, ep, _n, _e in spelled:
        need(seq, ep)
    for h in histories:
        for s, ep in history_requests(h):
            need(s, ep)
    for c in series:
        for s, ep in series_model_requests(c):
            need(s, ep)
    outs = drv.run(lines)
    model = {k: tuple(outs[i:i + 3]) for k, i in index.items()}
    for i, (seq, ep) in enumerate(cases):
        m_rev, m_cyc, m_tab = model[(bool(ep), tuple(seq))]
        chk.count("rf.reversals+cycles+count")
        chk.dist("len=%d" % min(len(seq), 61) if len(seq) <= 8 else "len>8")
        im = check_case(chk, seq, ep, m_rev, m_cyc, m_tab)
        if not isinstance(im["full"], str) and (im["full"] or im["half"]):
            chk.nontriv((ep, tuple(seq)))
            chk.dist("has_full" if im["full"] else "half_only")
        else:
            chk.dist("no_cycle_or_error")
        if i % 9973 == 7:
            chk.sample(dict(series=[str(v) for v in seq], endpoints=ep, model_table=m_tab))
    # series-level entry point
    from qats import TimeSeries
    rng = chk.rng
    sub = [c for c in cases if len(c[0]) >= 2 and not c[1]]
    for seq, ep in rng.sample(sub, min(len(sub), 300 if chk.quick else 3000)):
        x = np.array([float(v) for v in seq])
        ts = TimeSeries("a", np.arange(len(x), dtype=float), x)
        try:
            got = [tuple(Fraction(float(v)) for v in row) for row in ts.rfc()]
        except Exception as e:
            got = "err:" + type(e).__name__
        im = impl_all(x, False)
        chk.count("ts.rfc")
        if got != im["table"]:
            chk.fail("TimeSeries.rfc() == count_cycles(x)", dict(series=[str(v) for v in seq], endpoints=False),
                     str(im["table"])[:300], str(got)[:300])
    # K1 spellings, K2 histories, K3 arbitrary floats
    for seq, ep, name, ep_as in spelled:
        check_spelled(chk, seq, ep, name, ep_as, model[(bool(ep), tuple(seq))])
    for h in histories:
        chk.count("history")
        chk.dist("history:" + h["obj"])
        try:
            run_history(chk, h, model)
        except Exception as e:
            chk.fail("every use of the same object gives the ASTM table of its current content", h, "no error",
                     "%s: %s" % (type(e).__name__, str(e)[:200]))
    for c in floats:
        check_float(chk, c)
    for c in series:
        chk.count("series")
        chk.dist("grid=" + c.get("grid", "?"))
        run_series(chk, c, model)
    if series:
        chk.sample(series[-1])
    chk.sample(dict(series=[0, -2, 1, -3, 5, -1, 3, -4, 4, -2, 0], endpoints=False, note="docstring example, also a Lean `example`"))
    if histories:
        chk.sample(histories[-1])


def replay(rp):
    inp = rp["input"]
    chk = core.Check("C02", "quick", 0)
    drv = core.Driver()
    if isinstance(inp, dict) and inp.get("kind") in ("float", "long"):
        check_float(chk, inp)
    elif isinstance(inp, dict) and inp.get("kind") == "history":
        h = {k: v for k, v in inp.items() if k != "step"}
        keys, lines = [], []
        for s, ep in history_requests(h):
            keys.append((bool(ep), tuple(s)))
            lines += model_lines(s, ep)
        outs = drv.run(lines)
        model = {k: tuple(outs[3 * i:3 * i + 3]) for i, k in enumerate(keys)}
        try:
            run_history(chk, h, model)
        except Exception as e:
            chk.fail("every use of the same object gives the ASTM table of its current content", h, "no error",
                     "%s: %s" % (type(e).__name__, str(e)[:200]))
    elif isinstance(inp, dict) and inp.get("kind") == "series":
        c = {k: v for k, v in inp.items() if k not in ("step", "series_name")}
        keys, lines = [], []
        for s, ep in series_model_requests(c):
            keys.append((bool(ep), tuple(s)))
            lines += model_lines(s, ep)
        outs = drv.run(lines)
        run_series(chk, c, {k: tuple(outs[3 * i:3 * i + 3]) for i, k in enumerate(keys)})
    else:
        seq = [Fraction(v) for v in inp["series"]]
        ep = bool(inp["endpoints"])
        outs = drv.run(model_lines(seq, ep))
        if "as" in inp:
            check_spelled(chk, seq, ep, inp["as"], inp.get("ep_as", "kw"), tuple(outs))
        else:
            check_case(chk, seq, ep, *outs)
            if len(seq) >= 2 and not ep:
                from qats import TimeSeries
                x = np.array([float(v) for v in seq])
                try:
                    got = [tuple(Fraction(float(v)) for v in row) for row in TimeSeries("a", np.arange(len(x), dtype=float), x).rfc()]
                except Exception as e:
                    got = "err:" + type(e).__name__
                if got != impl_all(x, False)["table"]:
                    chk.fail("TimeSeries.rfc() == count_cycles(x)", inp, "count_cycles(x)", str(got)[:300])
    for f in chk.failing:
        print("FAILS:", f["oracle"], "expected", str(f["expected"])[:400], "observed", str(f["observed"])[:400])
    for d in chk.disagreements:
        print("DISAGREES:", d["stream"], "model", d["model"], "impl", d["impl"])
    print("replay: %d failing clause(s)" % len(chk.failing))
    return 1 if chk.failing else 0
