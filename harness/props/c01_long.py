"""C01, oracle stream `long`: LONG files (999 ... 70001 samples per series: just below / at / just above 1000, 1024, 4096, 10000,
65536) and WIDE files (33 ... 300 series per file: around 32, 64, 128, 256) of all ten formats.

The clauses of the property are evaluated sample by sample on the real `TsDB` (no model): after `TsDB.fromfile` every name of the
file is registered in file order; a series obtained by name / full key / index / '*', alone or with others, in and out of file order,
uncached and cached, carries the name it is registered under and exactly the time and data arrays the generator wrote (to the
precision of the format) -- over the WHOLE length.  Every column has its own recognisable content (a sequence whose step differs per
column, so that a block of one column that ends up in another, or at another offset, differs), full double mantissas in the formats
that store doubles, and spikes in the first / last sample and immediately before / at / after every multiple of 1024 and 4096 that
the series has, so that a reader that treats the first or the last (partial) block differently returns something else there.

A failing input is the compact case (format, layout, n, k, seed, store): the file is regenerated from it.
`.asc` files are compared modulo the known first-row finding F15 (reported by the main stream)."""
import os
import random
import shutil
import tempfile

import numpy as np

LONG_N = [999, 1000, 1001, 1023, 1024, 1025, 4095, 4096, 4097, 9999, 10000, 10001, 65535, 65536, 65537, 70001]
WIDE_K = [33, 65, 129, 300, 31, 64, 257]
FMTS = ["ts", "tda", "bin", "asc", "dat", "csv", "h5", "pkl", "mat", "tdms"]
FLOAT32 = ("ts", "tda", "bin")
CHEAP = ("ts", "tda", "h5", "pkl", "mat", "tdms")


def marks(n):
    pos = {0, 1, n - 2, n - 1}
    for b in (1000, 1024, 4096, 10000, 65536):
        for m in range(b, n + 2, b):
            pos.update([m - 1, m, m + 1])
            if len(pos) > 400:
                break
    return sorted(p for p in pos if 0 <= p < n)


def make_spec(case):
    """the spec (as `c01.write_file` takes it) of the file of a case; arrays instead of lists"""
    from . import c01
    fmt, n, k = case["fmt"], case["n"], case["k"]
    r = random.Random(case["seed"])
    nrg = np.random.RandomState(case["seed"] % (2 ** 31))
    t0, dt = r.choice([0.0, 0.5, 2.0, -1.0]), r.choice([0.25, 0.5, 1.0])
    i = np.arange(n, dtype=float)
    time = t0 + dt * i
    cols = []
    mk = np.array(marks(n), dtype=int)
    for j in range(k):
        c = np.mod(i * (2 * j + 3) + 7 * j, 9973.0) - 4986.0 + 10000.0 * (j % 50)
        if fmt not in FLOAT32:
            c = c + nrg.random_sample(n)                # full double mantissa
        c[mk] += 1.0e5 * (1 + j % 7) * np.where(mk % 2 == 0, 1.0, -1.0)
        cols.append(c)
    # names: not in alphabetical order, some a prefix of another (s1, s10, s100)
    ids = list(range(1, k + 1))
    r.shuffle(ids)
    plain = ["s%d" % q for q in ids]
    own, wf, rows = None, {}, None
    if fmt in ("bin", "asc"):
        rows = c01.sima_rows(k)
        names = c01.sima_names(k, rows)
    elif fmt == "h5":
        grp = set(plain[: k // 3])
        names = sorted(nm for nm in plain if nm not in grp) + ["g1\\" + nm for nm in sorted(grp)]
        own = []
        for j in range(k):
            s, d = t0 + 0.5 * (j % 3), [0.25, 0.5, 1.0][j % 3]
            own.append(s + d * i)
    elif fmt == "tdms":
        cut = max(1, (2 * k) // 3)
        names = ["g1\\" + nm for nm in plain[:cut]] + ["g2\\" + nm for nm in plain[cut:]]
        wf = {"g1": case["seed"] % 2 == 0, "g2": False}
        own = []
        for j, nm in enumerate(names):
            g = nm.split("\\")[0]
            if wf.get(g):
                own.append((-0.5 + 0.5 * (j % 4)) + [0.25, 0.5, 1.0][j % 3] * i)
            else:
                own.append((t0 if g == "g1" else t0 + 0.5) + dt * i)
    else:
        names = plain
    return dict(fmt=fmt, base="long_elmfor", dir="", names=names, time=time, cols=cols, own=own, tdms_wf=wf, fi=0, sima_rows=rows)


def requests(case, names):
    """[(api, by, selection, store)]: `by` = names / keys / ind / star"""
    r = random.Random(case["seed"] + 1)
    k = len(names)
    store = bool(case["store"])
    edge = sorted({p for p in (0, 1, 31, 32, 33, 63, 64, 65, 127, 128, 129, 255, 256, 257, k - 2, k - 1) if 0 <= p < k})
    reqs = [("get", "names", [k - 1], False), ("getm", "names", list(range(k))[::-1], store), ("get", "ind", [0], store),
            ("geta", "ind", [k - 1], not store)]
    if case["layout"] == "wide":
        for p in r.sample(edge, min(len(edge), 8)):
            reqs.append((r.choice(["get", "geta"]), r.choice(["names", "keys", "ind"]), [p], r.random() < 0.5))
        sub = r.sample(range(k), min(k, 40))
        reqs.append(("getm", "names", sub, store))
        reqs.append(("getl", "ind", r.sample(range(k), min(k, 40)), False))
        reqs.append(("getm", "keys", [edge[-1], edge[0]] + edge[1:-1], True))
    else:
        sub = r.sample(range(k), r.randint(1, k))
        reqs.append(("getm", r.choice(["names", "keys"]), sub, store))
        reqs.append(("getda", "ind", r.sample(range(k), r.randint(1, k)), False))
    reqs.append(("getm", "star", list(range(k)), False))
    reqs.append(("get", "keys", [r.randrange(k)], True))                 # (possibly) cached by now
    return reqs


def eval_case(case, limit=3):
    """[(clause, detail, expected, observed)]"""
    from qats import TsDB
    from . import c01
    bad = []
    root = tempfile.mkdtemp(prefix="qv01L_")
    try:
        sp = make_spec(case)
        path = c01.write_file(root, sp)
        fmt, names, k, n = sp["fmt"], sp["names"], len(sp["names"]), case["n"]
        tol = 1e-6 if fmt in FLOAT32 else 1e-12
        keys = [path + os.path.sep + nm for nm in names]

        def same(a, b):
            a = np.asarray(a, dtype=float)
            return a.shape == b.shape and bool(np.all(np.abs(a - b) <= tol * np.maximum(1.0, np.abs(b))))

        def describe(a, b):
            a = np.asarray(a, dtype=float)
            if a.shape != b.shape:
                return "length %s instead of %s" % (a.shape, b.shape)
            w = np.flatnonzero(~(np.abs(a - b) <= tol * np.maximum(1.0, np.abs(b))))
            return "%d of %d samples differ, first at %d (stored %r, read %r), last at %d" % (
                len(w), len(b), w[0], float(b[w[0]]), float(a[w[0]]), w[-1])

        try:
            db = TsDB.fromfile(path)
            listed = list(db.register_keys)
        except Exception as e:      # noqa
            return [("a readable long / wide file can be loaded", dict(step="load"), "database", "raised %s: %s" % (type(e).__name__, e))]
        if listed != keys:
            bad.append(("every name stored in a file is registered, in file order", dict(step="load"), [len(keys), names[:5], names[-3:]],
                        [len(listed), [os.path.basename(q) for q in listed[:5]], [os.path.basename(q) for q in listed[-3:]]]))
            return bad
        for api, by, sel, store in requests(case, names):
            det = dict(api=api, by=by, sel=sel[:12], nsel=len(sel), store=store)
            try:
                if by == "star":
                    kw = dict(names="*")
                elif by == "ind":
                    kw = dict(ind=sel[0] if api in ("get", "geta") else list(sel))
                else:
                    src = names if by == "names" else keys
                    kw = dict(names=[src[j] for j in sel]) if api not in ("get", "geta") else dict(name=src[sel[0]])
                if api == "get":
                    out = [db.get(store=store, **kw)]
                    out = [(None, o.name, o.t, o.x) for o in out]
                elif api == "geta":
                    tt, xx = db.geta(store=store, **kw)
                    out = [(None, None, tt, xx)]
                elif api == "getm":
                    got = db.getm(store=store, fullkey=True, **kw)
                    out = [(q, v.name, v.t, v.x) for q, v in got.items()]
                elif api == "getl":
                    out = [(None, v.name, v.t, v.x) for v in db.getl(store=store, **kw)]
                elif api == "getda":
                    got = db.getda(store=store, fullkey=True, **kw)
                    out = [(q, None, v[0], v[1]) for q, v in got.items()]
            except Exception as e:      # noqa
                bad.append(("a request for registered series of a long / wide file is answered", det, "series",
                            "raised %s: %s" % (type(e).__name__, str(e)[:200])))
                if len(bad) >= limit:
                    break
                continue
            # container order: order of the request; for getm / getda with unique keys one entry per distinct key
            want = list(dict.fromkeys(sel)) if api in ("getm", "getda") else list(sel)
            if by == "star":
                want = list(range(k))
            if len(out) != len(want):
                bad.append(("a request returns exactly the requested series", det, len(want), len(out)))
                continue
            for j, (key, nm, tt, xx) in zip(want, out):
                if key is not None and key != keys[j]:
                    bad.append(("the series are returned under their keys in the order of the request", dict(det, position=want.index(j)),
                                os.path.basename(keys[j]), os.path.basename(str(key))))
                    break
                if nm is not None and nm != names[j]:
                    bad.append(("a series obtained from a file-backed database carries the name it is registered under",
                                dict(det, column=j), names[j], nm))
                    break
                wt = sp["own"][j] if sp["own"] else sp["time"]
                wx = sp["cols"][j]
                if same(tt, wt) and same(xx, wx):
                    continue
                if fmt == "asc" and same(tt, wt[1:]) and same(xx, wx[1:]):
                    continue                    # known finding F15 (first row of an .asc file), reported by the main stream
                what = "time: " + describe(tt, wt) if not same(tt, wt) else "data: " + describe(xx, wx)
                if fmt == "asc" and np.asarray(xx).shape == wx[1:].shape:
                    what = ("time: " + describe(tt, wt[1:])) if not same(tt, wt[1:]) else ("data: " + describe(xx, wx[1:]))
                bad.append(("a series read from a file carries exactly the time and data arrays stored in the file under that name "
                            "(over its whole length)", dict(det, column=j, name=names[j], n=n), "the %d stored samples" % n, what))
                break
            if len(bad) >= limit:
                break
    finally:
        shutil.rmtree(root, ignore_errors=True)
    return bad


def gen_cases(rng, quick):
    cases = []
    fm = list(FMTS)
    rng.shuffle(fm)
    bands = [LONG_N[0:3], LONG_N[3:6], LONG_N[6:9], LONG_N[9:12], LONG_N[12:16]]
    if quick:
        # every format: one size around 1000 / 1024; the formats that are cheap to write and read: one size of each of the bands
        # around 4096, 10000 and 65536; the others (row-wise binary and text): one size of one of those bands
        plan = []
        for q, fmt in enumerate(fm):
            plan.append((fmt, rng.choice(bands[q % 2])))
            if fmt in CHEAP:
                plan += [(fmt, rng.choice(bands[2])), (fmt, rng.choice(bands[3])), (fmt, rng.choice(bands[4]))]
            else:
                plan.append((fmt, rng.choice(bands[2 + q % 3])))
    else:
        plan = [(fmt, nn) for fmt in FMTS for nn in LONG_N]
    for fmt, nn in plan:
        cases.append(dict(kind="long", layout="long", fmt=fmt, n=nn, k=rng.choice([2, 3, 4]), store=rng.random() < 0.5,
                          seed=rng.randrange(10 ** 6)))
    if quick:
        wplan = [(fmt, rng.choice(WIDE_K[:4])) for fmt in fm]
    else:
        wplan = [(fmt, kk) for fmt in FMTS for kk in WIDE_K]
    for fmt, kk in wplan:
        cases.append(dict(kind="long", layout="wide", fmt=fmt, n=rng.choice([3, 4, 6]), k=kk, store=rng.random() < 0.5,
                          seed=rng.randrange(10 ** 6)))
    return cases


def run_long(chk):
    for case in gen_cases(chk.rng, chk.quick):
        chk.count("long:" + case["layout"])
        chk.dist("long:%s %s n=%d k=%d" % (case["layout"], case["fmt"], case["n"], case["k"]))
        try:
            bad = eval_case(case)
        except Exception as e:      # noqa
            bad = [("a long / wide file can be evaluated", {}, "result", "raised %s: %s" % (type(e).__name__, str(e)[:300]))]
        chk.nontriv(("long", case["layout"], case["fmt"], case["n"], case["k"], case["seed"]))
        for clause, detail, exp, obs in bad[:1]:
            chk.fail(clause, dict(case, detail=detail), exp, obs, clause="long", fmt=case["fmt"])


def replay_long(inp):
    case = {k: v for k, v in inp.items() if k != "detail"}
    bad = eval_case(case, limit=5)
    for clause, detail, exp, obs in bad[:5]:
        print("FAILS: %s: %s\n   expected %s\n   observed %s" % (clause, detail, str(exp)[:300], str(obs)[:300]))
    print("replay: %d failing clause(s)" % len(bad))
    return 1 if bad else 0
