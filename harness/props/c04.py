"""
C04 — re-binning and meshing conserve cycles.

Tie: strict Rat correspondence of `rebin`, `mesh`, `_create_bins` on dyadic tables (ranges/means/counts small dyadic
rationals, widths powers of two or small integers / their halves), where the float arithmetic of the implementation is
exact up to the final divisions (compared to 1e-12).
Search: conservation / containment / mid-point / marginal clauses on the implementation over random float tables and
adversarial (max, w) pairs (w decimal, max = k*w computed in floats); the data path of TimeSeries.plot_cycle_range and
app.funcs.calculate_rfc.
"""
from fractions import Fraction

import numpy as np

from .. import core
from ..core import rat

RULE = ("dyadic cycle tables (1-12 rows) x binby {range, mean} x n in 1..9 / w in {1/4,1/2,1,2,3/2,...}; float search: random tables and "
        "adversarial (max,w) pairs with decimal widths; non-trivial = at least 2 rows and 2 bins; distinct by (table, binby, spec)")


def close(a, b, tol=1e-12):
    if a is None or b is None:
        return a is None and b is None
    return abs(a - b) <= tol * max(1.0, abs(a), abs(b))


def dy(rng, lo, hi, den=(1, 2, 4)):
    return Fraction(rng.randint(lo * 4, hi * 4), 4 * rng.choice(den) // rng.choice(den) or 1)


def gen_table(rng):
    n = rng.choice([1, 2, 3, 4, 6, 9, 12])
    t = []
    for _ in range(n):
        r = Fraction(rng.randint(0, 40), rng.choice([1, 2, 4]))
        m = Fraction(rng.randint(-20, 20), rng.choice([1, 2, 4]))
        c = rng.choice([Fraction(1), Fraction(1, 2), Fraction(1), Fraction(3), Fraction(5, 2)])
        t.append((r, m, c))
    if rng.random() < 0.1:
        t = [(r, t[0][1], c) for r, m, c in t]      # all means equal
    if rng.random() < 0.05:
        t = [(Fraction(0), m, c) for r, m, c in t]  # all ranges zero
    return t


def impl_rebin(t, binby, n=None, w=None):
    from qats.fatigue.rainflow import rebin
    arr = np.array([[float(v) for v in row] for row in t])
    out = rebin(arr, binby=binby, n=n, w=None if w is None else float(w))
    return [[None if np.isnan(v) else float(v) for v in row] for row in out]


def parse_rows(o):
    body = o[3:].strip()
    return [[None if v == "nan" else float(Fraction(v)) for v in r.split(",")] for r in body.split(";")] if body else []


def conservation_oracles(chk, t, binby, spec, out, inp, degenerate=False):
    """property clauses on the implementation's result (float table `t` as list of tuples of floats)"""
    tot = sum(c for _, _, c in t)
    btot = sum(row[2] for row in out)
    if abs(btot - tot) > 1e-9 * max(1.0, tot):
        chk.fail("total cycle count conserved", inp, tot, btot, clause="total")
        return
    sec = 1 if binby == "range" else 0
    wsum = sum(c * (m if binby == "range" else r) for r, m, c in t)
    bsum = sum(row[2] * row[sec] for row in out if row[2] > 0 and row[sec] is not None)
    if abs(bsum - wsum) > 1e-9 * max(1.0, sum(abs(c * (m if binby == "range" else r)) for r, m, c in t)):
        chk.fail("count-weighted sum of the other quantity conserved", inp, wsum, bsum, clause="weighted")
    for row in out:
        if (row[2] == 0) != (row[sec] is None):
            chk.fail("empty bins carry count 0 (and nan), non-empty bins a value", inp, "consistent", row, clause="empty")
            break
    prim = [row[0 if binby == "range" else 1] for row in out]
    if len(prim) >= 2 and not degenerate:
        d = [b - a for a, b in zip(prim, prim[1:])]
        if any(x <= 0 for x in d) or max(d) - min(d) > 1e-9 * max(1.0, abs(prim[-1])):
            chk.fail("bin mid-points equidistant and increasing", inp, "equidistant", prim[:6], clause="mid")
        # containment: every cycle lies in a bin [mid-h/2, mid+h/2] that holds at least its count
        h = d[0]
        for r, m, c in t:
            v = r if binby == "range" else m
            j = min(range(len(prim)), key=lambda k: abs(prim[k] - v))
            if abs(prim[j] - v) > h / 2 * (1 + 1e-9) + 1e-12:
                chk.fail("every cycle lies in the bin whose interval contains it", inp, v, prim, clause="contain")
                break


def run(chk):
    from qats.fatigue.rainflow import rebin, mesh, count_cycles, _create_bins
    chk.extra["rule"] = RULE
    chk.assumptions += ["np.histogram / np.histogram2d bin rule (half-open, last closed, outside dropped) as modelled in Qats.Rebin",
                        "float edge construction is outside the theorems; searched against the exact model"]
    rng = chk.rng
    drv = core.Driver()
    N = 400 if chk.quick else 6000
    lines, meta = [], []
    for c in core.load_corpus("C04"):
        # corpus cases are float tables (decimal widths: the F5 shape); only the clauses on the implementation apply —
        # the exact model differs from float edge construction by design (DESIGN.md section 3)
        rows = [tuple(float(Fraction(v)) for v in row) for row in c["table"]]
        wv = float(Fraction(c["value"]))
        inp = dict(table=[list(r) for r in rows], binby=c["binby"], kind=c["kind"], value=wv)
        chk.count("corpus")
        try:
            out = rebin(np.array(rows), binby=c["binby"], **({"w": wv} if c["kind"] == "w" else {"n": int(wv)}))
            out = [[None if np.isnan(v) else float(v) for v in row] for row in out]
            conservation_oracles(chk, rows, c["binby"], (c["kind"], wv), out, inp)
        except Exception as e:
            chk.fail("rebin must not raise on a valid table", inp, "table", type(e).__name__, clause="raise")
    for _ in range(N):
        t = gen_table(rng)
        binby = rng.choice(["range", "mean"])
        if rng.random() < 0.5:
            kind, val = "n", rng.choice([1, 2, 3, 4, 5, 7, 9])
        else:
            kind, val = "w", rng.choice([Fraction(1, 4), Fraction(1, 2), Fraction(1), Fraction(2), Fraction(3, 2), Fraction(5), Fraction(3, 4)])
        lines.append("rebin %s %s %s %s" % (binby, kind, val if kind == "n" else rat(val), " ".join(rat(v) for row in t for v in row)))
        meta.append((t, binby, kind, val))
    M = 150 if chk.quick else 2000
    mmeta = []
    for _ in range(M):
        t = gen_table(rng)
        nr, nm = rng.choice([1, 2, 3, 5]), rng.choice([1, 2, 4])
        lines.append("mesh %d %d %s" % (nr, nm, " ".join(rat(v) for row in t for v in row)))
        mmeta.append((t, nr, nm))
    outs = drv.run(lines)
    for (t, binby, kind, val), o in zip(meta, outs[:len(meta)]):
        chk.count("rebin")
        inp = dict(table=[[str(v) for v in row] for row in t], binby=binby, kind=kind, value=str(val))
        if len(t) >= 2:
            chk.nontriv(repr(inp))
        chk.dist("rebin:%s:%s" % (binby, kind))
        try:
            im = impl_rebin(t, binby, n=val if kind == "n" else None, w=val if kind == "w" else None)
        except Exception as e:
            im = "err:" + type(e).__name__
        degenerate = (binby == "range" and all(r == 0 for r, _, _ in t)) or (binby == "mean" and len(set(m for _, m, _ in t)) == 1)
        if isinstance(im, str):
            if not degenerate:
                chk.fail("rebin must not raise on a valid table", inp, "table", im, clause="raise")
            else:
                chk.dist("degenerate-span-raises")
            continue
        mrows = parse_rows(o)
        if degenerate:
            # all-equal primary values: numpy handles zero-width edges; only the oracles apply
            conservation_oracles(chk, [tuple(float(v) for v in row) for row in t], binby, (kind, val), im, inp, degenerate=True)
            continue
        same = len(mrows) == len(im) and all(all(close(a, b) for a, b in zip(r1, r2)) for r1, r2 in zip(mrows, im))
        if not same:
            chk.disagree("rebin", inp, mrows[:6], im[:6])
        conservation_oracles(chk, [tuple(float(v) for v in row) for row in t], binby, (kind, val), im, inp)
        if len(chk.samples) < 3 and len(t) in (3, 4):
            chk.sample(dict(inp, result=im))
    for (t, nr, nm), o in zip(mmeta, outs[len(meta):]):
        chk.count("mesh")
        inp = dict(table=[[str(v) for v in row] for row in t], nr=nr, nm=nm)
        arr = np.array([[float(v) for v in row] for row in t])
        rm, mm, cm = mesh(arr, nr=nr, nm=nm)
        rb, mb, cells = [s.strip() for s in o[3:].split("|")]
        mr = [float(Fraction(v)) for v in rb.split()]
        mmid = [float(Fraction(v)) for v in mb.split()]
        mc = [[float(Fraction(v)) for v in row.split()] for row in cells.split(";")]
        ok = cm.shape == (nm, nr) and all(close(a, b) for a, b in zip(mr, rm[0])) and all(close(a, b) for a, b in zip(mmid, mm[:, 0])) \
            and all(close(a, b) for r1, r2 in zip(mc, cm) for a, b in zip(r1, r2))
        if not ok:
            chk.disagree("mesh", inp, (mr, mmid, mc), (rm[0].tolist(), mm[:, 0].tolist(), cm.tolist()))
        if len(t) >= 2 and nr * nm >= 2:
            chk.nontriv(repr(inp))
        tot = float(sum(c for _, _, c in t))
        if abs(cm.sum() - tot) > 1e-12 * max(1, tot):
            chk.fail("mesh total == table total", inp, tot, float(cm.sum()), clause="mesh-total")
        if any(r > 0 for r, _, _ in t):
            rb1 = impl_rebin(t, "range", n=nr)
            if not all(close(a, row[2]) for a, row in zip(cm.sum(axis=0), rb1)):
                chk.fail("mesh marginal over means == rebin by range", inp, [row[2] for row in rb1], cm.sum(axis=0).tolist(), clause="mesh-marginal")
        if len(set(m for _, m, _ in t)) >= 2:
            rb2 = impl_rebin(t, "mean", n=nm)
            if not all(close(a, row[2]) for a, row in zip(cm.sum(axis=1), rb2)):
                chk.fail("mesh marginal over ranges == rebin by mean", inp, [row[2] for row in rb2], cm.sum(axis=1).tolist(), clause="mesh-marginal")
    # ---- float search: adversarial widths ------------------------------------------------------------------------------------
    F = 600 if chk.quick else 20000
    for i in range(F):
        w = rng.choice([0.1, 0.2, 0.3, 0.7, 0.05, 1.1, 2.3, 0.9, 1e-3, max(round(rng.uniform(0.01, 5), rng.choice([1, 2, 3])), 1e-3)])
        k = rng.randint(1, 40)
        mx = k * w if rng.random() < 0.7 else rng.uniform(0.1, 50)
        rows = [(mx, rng.uniform(-3, 3), 1.0)] + [(rng.uniform(0, mx), rng.uniform(-3, 3), rng.choice([0.5, 1.0])) for _ in range(rng.randint(0, 4))]
        binby = "range" if rng.random() < 0.7 else "mean"
        if binby == "mean":
            ms = sorted(m for _, m, _ in rows)
            if ms[0] == ms[-1]:
                continue
        inp = dict(table=[list(r) for r in rows], binby=binby, kind="w", value=w)
        chk.count("float-search")
        try:
            out = rebin(np.array(rows), binby=binby, w=w)
        except Exception as e:
            chk.fail("rebin must not raise on a valid table", inp, "table", type(e).__name__, clause="raise")
            continue
        out = [[None if np.isnan(v) else float(v) for v in row] for row in out]
        conservation_oracles(chk, rows, binby, ("w", w), out, inp)
    # ---- float search, enumerated: largest range an exact decimal multiple of a decimal width (i/100 = m * j/100) -------------------
    for j in range(1, 401 if not chk.quick else 201):
        w = j / 100
        for m in range(1, min(2000 // j, 60) + 1):
            mx = (j * m) / 100
            rows = [(mx, 0.5, 1.0), (mx / 2, -0.5, 0.5)]
            chk.count("float-multiples")
            inp = dict(table=[list(r) for r in rows], binby="range", kind="w", value=w)
            try:
                out = rebin(np.array(rows), binby="range", w=w)
            except Exception as e:
                chk.fail("rebin must not raise on a valid table", inp, "table", type(e).__name__, clause="raise")
                continue
            tot = float(np.nansum(out[:, 2]))
            if abs(tot - 1.5) > 1e-9:
                chk.fail("total cycle count conserved", inp, 1.5, tot, clause="total")
    # ---- histories on one table object: the caller's ndarray is passed to several groupings in a row ---------------------------------
    # (the clauses are about the table the caller holds: every grouping of it must conserve its total and weighted sum and its mesh
    # marginals must equal its re-binnings, whatever was computed from the same array before)
    H = 120 if chk.quick else 3000
    for _ in range(H):
        t = gen_table(rng)
        if len(t) < 2 or all(r == 0 for r, _, _ in t) or len(set(m for _, m, _ in t)) < 2:
            continue
        ft = [tuple(float(v) for v in row) for row in t]
        arr = np.array(ft)
        ops = [rng.choice(["range", "mean", "mesh"]) for _ in range(rng.randint(2, 4))]
        hist = []
        for op in ops:
            n = rng.choice([1, 2, 3, 5])
            hist.append([op, n])
            inp = dict(kind="history", table=[[str(v) for v in row] for row in t], ops=list(hist))
            chk.count("history")
            try:
                if op == "mesh":
                    _, _, cm = mesh(arr, nr=n, nm=2)
                    fresh = mesh(np.array(ft), nr=n, nm=2)[2]
                    got, exp = cm.tolist(), fresh.tolist()
                else:
                    got = [[None if np.isnan(v) else float(v) for v in row] for row in rebin(arr, binby=op, n=n)]
                    exp = impl_rebin(t, op, n=n)
            except Exception as e:
                chk.fail("rebin/mesh must not raise on a valid table (same array used before)", inp, "table", type(e).__name__, clause="raise")
                break
            if op != "mesh":
                conservation_oracles(chk, ft, op, ("n", n), got, inp)
            elif abs(np.sum(cm) - sum(c for _, _, c in ft)) > 1e-9 * max(1, sum(c for _, _, c in ft)):
                chk.fail("mesh total == table total (same array used before)", inp, sum(c for _, _, c in ft), float(np.sum(cm)), clause="mesh-total")
            if got != exp and not np.allclose(np.array(got, dtype=float), np.array(exp, dtype=float), rtol=1e-12, atol=1e-12, equal_nan=True):
                chk.fail("grouping the caller's table gives the grouping of that table (independent of earlier groupings of the same array)",
                         inp, exp[:6], got[:6], clause="history")
                break
        chk.nontriv(repr((t, ops)))
        chk.dist("history:%s" % "-".join(o[0] for o in ops[:2]))
    # ---- the same table in the container types a caller may hold: ndarray of floats, ndarray of integers, list of tuples / lists with
    # Python ints and floats mixed (the first item decides nothing) ---------------------------------------------------------------------
    T = 150 if chk.quick else 3000
    for _ in range(T):
        k = rng.randint(1, 5)
        whole = rng.random() < 0.5
        rows = []
        for _i in range(k):
            r = rng.randint(0, 12) if whole or rng.random() < 0.5 else rng.randint(0, 48) / 4
            m = rng.randint(-6, 6) if whole or rng.random() < 0.5 else rng.randint(-24, 24) / 4
            c = rng.choice([1, 1, 2, 3]) if whole or rng.random() < 0.5 else 0.5
            rows.append((r, m, c))
        if all(r == 0 for r, _, _ in rows) or len(set(m for _, m, _ in rows)) < 2:
            continue
        ref = np.array([[float(v) for v in row] for row in rows])
        forms = [("list of tuples", lambda: [tuple(row) for row in rows]), ("list of lists", lambda: [list(row) for row in rows]),
                 ("tuple of tuples", lambda: tuple(tuple(row) for row in rows))]
        if whole:
            forms.append(("ndarray of integers", lambda: np.array(rows, dtype=int)))
        n, binby = rng.choice([1, 2, 3, 5]), rng.choice(["range", "mean"])
        exp = rebin(ref.copy(), binby=binby, n=n)
        expm = mesh(ref.copy(), nr=n, nm=2)[2]
        for label, mk in forms:
            inp = dict(kind="container", form=label, table=[[repr(v) for v in row] for row in rows], binby=binby, n=n)
            chk.count("container")
            chk.dist("container:" + label)
            try:
                got = rebin(mk(), binby=binby, n=n)
                gotm = mesh(mk(), nr=n, nm=2)[2]
            except Exception as e:
                chk.fail("rebin/mesh must not raise on a valid table (whatever container / number type holds it)", inp, "table",
                         "%s: %s" % (type(e).__name__, str(e)[:80]), clause="raise")
                continue
            if np.shape(got) != np.shape(exp) or not np.allclose(got, exp, rtol=1e-12, atol=1e-12, equal_nan=True) or \
                    not np.allclose(gotm, expm, rtol=1e-12, atol=1e-12):
                chk.fail("grouping a table gives the same result whatever container / number type holds it (total, weighted sum and bins "
                         "are those of the table's values)", inp, exp.tolist()[:6], np.asarray(got).tolist()[:6], clause="container")
        chk.nontriv(repr((rows, binby, n)))
    # ---- entry points: TimeSeries / GUI data path ------------------------------------------------------------------------------
    from qats import TimeSeries
    from qats.app.funcs import calculate_rfc
    for _ in range(10 if chk.quick else 100):
        n = rng.choice([50, 200])
        x = np.array([rng.randint(-40, 40) / 4 for _ in range(n)])
        ts = TimeSeries("s", np.arange(n, dtype=float), x)
        cyc = count_cycles(x)
        if len(cyc) == 0:
            continue
        nb = rng.choice([1, 5, 256])
        r, c = calculate_rfc({"s": ts}, (0.0, float(n)), None, nb)["s"]
        exp = rebin(cyc, binby="range", n=nb)
        chk.count("calculate_rfc")
        if not (np.allclose(np.array(r), exp[:, 0]) and np.allclose(np.array(c), exp[:, 2]) and abs(sum(c) - cyc[:, 2].sum()) < 1e-9):
            chk.fail("GUI cycle histogram == rebin(count_cycles(x), n): (range mid-points, counts), total conserved",
                     dict(n=n, nb=nb), [exp[:, 0].tolist()[:5], exp[:, 2].tolist()[:5]], [list(r)[:5], list(c)[:5]])


def replay(rp):
    from qats.fatigue.rainflow import rebin
    inp = rp["input"]
    if inp.get("kind") == "container":
        from qats.fatigue.rainflow import mesh
        rows = [tuple(eval(v, {"__builtins__": {}}) for v in row) for row in inp["table"]]
        ref = np.array([[float(v) for v in row] for row in rows])
        mk = {"list of tuples": lambda: [tuple(r) for r in rows], "list of lists": lambda: [list(r) for r in rows],
              "tuple of tuples": lambda: tuple(tuple(r) for r in rows), "ndarray of integers": lambda: np.array(rows, dtype=int)}[inp["form"]]
        exp = rebin(ref, binby=inp["binby"], n=inp["n"])
        try:
            got = rebin(mk(), binby=inp["binby"], n=inp["n"])
            bad = 0 if np.shape(got) == np.shape(exp) and np.allclose(got, exp, equal_nan=True) else 1
            print("expected", exp.tolist(), "observed", np.asarray(got).tolist())
        except Exception as e:
            print("raised", type(e).__name__, e)
            bad = 1
        print("replay: %d failing clause(s)" % bad)
        return 1 if bad else 0
    if inp.get("kind") == "history":
        from qats.fatigue.rainflow import mesh
        ft = [tuple(float(Fraction(v)) for v in row) for row in inp["table"]]
        arr, bad = np.array(ft), 0
        for op, n in inp["ops"]:
            if op == "mesh":
                got, exp = mesh(arr, nr=n, nm=2)[2], mesh(np.array(ft), nr=n, nm=2)[2]
            else:
                got, exp = rebin(arr, binby=op, n=n), rebin(np.array(ft), binby=op, n=n)
            same = np.allclose(got, exp, equal_nan=True)
            print(op, n, "same as on a fresh copy of the table:", same)
            bad += 0 if same else 1
        print("replay: %d failing clause(s)" % bad)
        return 1 if bad else 0
    t = [tuple(float(Fraction(v)) if isinstance(v, str) else float(v) for v in row) for row in inp["table"]]
    kw = dict(n=int(inp["value"])) if inp["kind"] == "n" else dict(w=float(Fraction(inp["value"])) if isinstance(inp["value"], str) else float(inp["value"]))
    out = rebin(np.array(t), binby=inp["binby"], **kw)
    print(out)
    tot, btot = sum(c for _, _, c in t), float(np.nansum(out[:, 2]))
    print("table total", tot, "binned total", btot)
    bad = 0 if abs(tot - btot) <= 1e-9 * max(1, tot) else 1
    print("replay: %d failing clause(s)" % bad)
    return 1 if bad else 0
