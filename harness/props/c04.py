"""
C04 — re-binning and meshing conserve cycles.

Tie: strict Rat correspondence of `rebin`, `mesh`, `_create_bins` on dyadic tables (ranges/means/counts small dyadic
rationals, widths powers of two or small integers / their halves), where the float arithmetic of the implementation is
exact up to the final divisions (compared to 1e-12).
Search: conservation / containment / mid-point / marginal clauses on the implementation over random float tables and
adversarial (max, w) pairs (w decimal, max = k*w computed in floats); the data path of TimeSeries.plot_cycle_range and
app.funcs.calculate_rfc.

Audit round (after three rounds of seeded changes): an independent reference in exact rational arithmetic (`interval_oracles`:
number of bins, mid-points and per-bin counts computed from the table and the bin specification with Fractions; values closer to
an edge than float rounding may fall on either side) is evaluated on every stream, so that no clause is decided by comparing the
implementation with itself.  New streams (all inputs are JSON dictionaries evaluated by `eval_case` / `eval_hist` / `eval_entry`,
which `replay()` calls as well):
  case   spelling of the table (ndarray C/F/view/read-only/float32/int, lists, tuples, rows as ndarrays, numpy scalars, mixed
         int/float) x spelling of the arguments (keyword, positional, defaults, n and w both given, explicit None, numpy integer /
         float32 / Python int numbers); boundary values (one / two rows, all ranges zero, all means equal, w equal to / above the
         span, values on edges, n up to 1000, tables scaled by 2^p with |p| <= 200, means on offsets up to 2^40, non-dyadic counts)
  hist   histories on one object mixing n / w / bin-by / mesh / rejected calls and a second table with the same span
  entry  TimeSeries.plot_cycle_range / plot_cycle_rangemean / plot_cycle_rangemean3d, TsDB.plot_cycle_range / plot_cycle_rangemean
         (data handed to matplotlib, observed by a recorder), calculate_rfc; second call after the data changed
  big    LARGE tables (999 .. 70001 rows: just below / at / above 1000, 1024, 4096, 10000, beyond 65536) rebuilt from a few parameters,
         sorted as count_cycles returns them / reversed / shuffled, the single largest cycle in the first / last row or at a multiple of
         1000 / 1024 / 4096 / 10000 / 65536, one row carrying 2^24 + 0.5 cycles, rows exactly on bin edges; histories of groupings on
         the one table (range / mean, n in 1 .. 4097 incl. 255 / 256 / 257 / 1024 / 1025, widths 1/8 .. 5 and decimal), mesh with
         33 / 65 / 129 / 300 bins: total, weighted sum, empty bins, exact-rational interval reference, marginals
"""
import math
from fractions import Fraction

import numpy as np

from .. import core
from ..core import rat

RULE = ("dyadic cycle tables (1-12 rows) x binby {range, mean} x n in 1..9 / w in {1/4,1/2,1,2,3/2,...}; float search: random tables and "
        "adversarial (max,w) pairs with decimal widths; case / hist / entry streams: table container x argument spelling x boundary "
        "values (scales 2^p, offsets, w = span, n up to 1000) x histories on one object x plotting entry points, every result judged by "
        "the exact-rational interval reference; non-trivial = at least 2 rows and 2 bins; distinct by (table, binby, spec)")


def close(a, b, tol=1e-12):
    if a is None or b is None:
        return a is None and b is None
    return abs(a - b) <= tol * max(1.0, abs(a), abs(b))


def dy(rng, lo, hi, den=(1, 2, 4)):
    return Fraction(rng.randint(lo * 4, hi * 4), 4 * rng.choice(den) // rng.choice(den) or 1)


def gen_table(rng):
    n = rng.choice([1, 2, 3, 4, 6, 9, 12])
    t = []
    for _ in range(n):
        r = Fraction(rng.randint(0, 40), rng.choice([1, 2, 4]))
        m = Fraction(rng.randint(-20, 20), rng.choice([1, 2, 4]))
        c = rng.choice([Fraction(1), Fraction(1, 2), Fraction(1), Fraction(3), Fraction(5, 2)])
        t.append((r, m, c))
    if rng.random() < 0.1:
        t = [(r, t[0][1], c) for r, m, c in t]      # all means equal
    if rng.random() < 0.05:
        t = [(Fraction(0), m, c) for r, m, c in t]  # all ranges zero
    return t


def impl_rebin(t, binby, n=None, w=None):
    from qats.fatigue.rainflow import rebin
    arr = np.array([[float(v) for v in row] for row in t])
    out = rebin(arr, binby=binby, n=n, w=None if w is None else float(w))
    return _rows_out(out)


def parse_rows(o):
    body = o[3:].strip()
    return [[None if v == "nan" else float(Fraction(v)) for v in r.split(",")] for r in body.split(";")] if body else []


def conservation_oracles(chk, t, binby, spec, out, inp, degenerate=False, ctol=0.0):
    """property clauses on the implementation's result (float table `t` as list of tuples of floats);
    `ctol`: absolute slack for mid-point comparisons = a few units in the last place of the largest edge (tables on large offsets)"""
    tot = sum(c for _, _, c in t)
    btot = sum(row[2] for row in out)
    if abs(btot - tot) > 1e-9 * max(1.0, tot):
        chk.fail("total cycle count conserved", inp, tot, btot, clause="total")
        return
    sec = 1 if binby == "range" else 0
    wsum = sum(c * (m if binby == "range" else r) for r, m, c in t)
    bsum = sum(row[2] * row[sec] for row in out if row[2] > 0 and row[sec] is not None)
    if abs(bsum - wsum) > 1e-9 * max(1.0, sum(abs(c * (m if binby == "range" else r)) for r, m, c in t)):
        chk.fail("count-weighted sum of the other quantity conserved", inp, wsum, bsum, clause="weighted")
    for row in out:
        if (row[2] == 0) != (row[sec] is None):
            chk.fail("empty bins carry count 0 (and nan), non-empty bins a value", inp, "consistent", row, clause="empty")
            break
    prim = [row[0 if binby == "range" else 1] for row in out]
    if len(prim) >= 2 and not degenerate:
        d = [b - a for a, b in zip(prim, prim[1:])]
        if any(x <= 0 for x in d) or max(d) - min(d) > 1e-9 * max(1.0, abs(prim[-1])) + 4 * ctol:
            chk.fail("bin mid-points equidistant and increasing", inp, "equidistant", prim[:6], clause="mid")
        # containment: every cycle lies in a bin [mid-h/2, mid+h/2] that holds at least its count
        h = d[0]
        for r, m, c in t:
            v = r if binby == "range" else m
            j = min(range(len(prim)), key=lambda k: abs(prim[k] - v))
            if abs(prim[j] - v) > h / 2 * (1 + 1e-9) + 1e-12 + 2 * ctol:
                chk.fail("every cycle lies in the bin whose interval contains it", inp, v, prim, clause="contain")
                break


# =====================================================================================================================
# independent reference (exact rational arithmetic) and the evaluators shared by run() and replay()
# =====================================================================================================================
EDGE_TOL = 1e-14      # rounding of float edges / mid-points relative to the largest edge (about 45 units in the last place)


class Sink:
    """stand-in for core.Check in replay(): collects / prints failing clauses"""

    def __init__(self, verbose=True):
        self.failing, self.verbose = [], verbose

    def fail(self, oracle, inp, expected, observed, **kw):
        self.failing.append(dict(oracle=oracle, expected=expected, observed=observed, **kw))
        if self.verbose:
            print("FAILS: %s\n   expected %s\n   observed %s" % (oracle, str(expected)[:300], str(observed)[:300]))

    def disagree(self, *a, **k):
        pass

    def count(self, *a, **k):
        pass

    def nontriv(self, *a, **k):
        pass

    def dist(self, *a, **k):
        pass

    def sample(self, *a, **k):
        pass


def _rows_out(out):
    a = np.asarray(out, dtype=float)
    if a.ndim != 2 or a.shape[1] != 3:
        raise ValueError("result of rebin has shape %s, expected (bins, 3)" % (a.shape,))
    return [[None if np.isnan(v) else float(v) for v in row] for row in a]



def exact_spec(t, binby, kind, val):
    """start, stop, width and number of the bins the specification describes, in exact arithmetic on the table's float values:
    range bins start at 0, mean bins at the smallest mean; n bins over [start, stop] or bins of width w from start up to stop"""
    prim = [Fraction(r if binby == "range" else m) for r, m, _ in t]
    start = Fraction(0) if binby == "range" else min(prim)
    stop = max(prim)
    if kind == "n":
        n = int(val)
        return prim, start, stop, (stop - start) / n, n
    w = Fraction(val)
    return prim, start, stop, w, max(math.ceil((stop - start) / w), 1)


def interval_oracles(chk, t, binby, kind, val, out, inp):
    """'puts every cycle in the bin whose interval contains it, and reports bin mid-points (empty bins carry count 0)', judged
    against bins computed exactly from the table and the specification.  A value closer to an edge than the rounding of the float
    edges (1e-14 of the largest edge, about 45 units in the last place) may be counted on either side.  `out` rows: [range, mean, count] (None = nan)."""
    pcol = 0 if binby == "range" else 1
    P, N = [row[pcol] for row in out], [row[2] for row in out]
    if len(out) == 0 or any(p is None for p in P) or any(c is None for c in N):
        chk.fail("bins report mid-points and counts (no nan, at least one bin)", inp, "numbers", [P[:6], N[:6]], clause="mid-exact")
        return
    prim, start, stop, h, L = exact_spec(t, binby, kind, val)
    if kind == "n" and len(out) != L:
        chk.fail("grouping by number of bins n gives n bins", inp, L, len(out), clause="nbins")
        return
    Lo = len(out)
    scale = float(max(abs(start), abs(stop), abs(start + Lo * h)))
    mtol, delta = EDGE_TOL * scale, Fraction(EDGE_TOL * scale)
    tot = sum(c for _, _, c in t)
    ctol = 1e-9 * max(tot, 1e-300)
    if h == 0:
        # all primary values equal and n bins over [a, a]: every edge is a; any bin's interval contains the cycles
        if any(abs(p - float(start)) > mtol for p in P):
            chk.fail("bins report mid-points (all edges equal the single value)", inp, float(start), P[:6], clause="mid-exact")
        return
    if start + Lo * h < stop - delta:
        chk.fail("every cycle lies in the bin whose interval contains it (bins of width w from the start reach the largest value)", inp,
                 float(stop), float(start + Lo * h), clause="contain-exact")
        return
    for j in range(Lo):
        e = float(start + (2 * j + 1) * h / 2)
        if not abs(P[j] - e) <= mtol:
            chk.fail("bins report mid-points of the equidistant bins the specification describes", inp, dict(bin=j, mid=e), P[j],
                     clause="mid-exact")
            return
    S, A = [0.0] * Lo, [0.0] * Lo
    for v, (_, _, c) in zip(prim, t):
        j = min(max(math.floor((v - start) / h), 0), Lo - 1)
        lo = start + j * h
        cand = {j}
        if j > 0 and v - lo <= delta:
            cand.add(j - 1)
        if j + 1 < Lo and lo + h - v <= delta:
            cand.add(j + 1)
        if len(cand) == 1:
            S[j] += c
        else:
            for k in cand:
                A[k] += c
    for j in range(Lo):
        if not (S[j] - ctol <= N[j] <= S[j] + A[j] + ctol):
            chk.fail("every cycle is counted in the bin whose interval contains it (empty bins carry count 0)", inp,
                     dict(bin=j, interval=[float(start + j * h), float(start + (j + 1) * h)], count_between=[S[j], S[j] + A[j]]), N[j],
                     clause="contain-exact")
            return


def all_rebin_oracles(chk, t, binby, kind, val, out, inp, secondary=True):
    """every clause of the property about one re-binning; `t` = the table as floats, `out` = rows with None for nan"""
    prim = [row[0 if binby == "range" else 1] for row in out]
    ps = [Fraction(r if binby == "range" else m) for r, m, _ in t]
    degenerate = (binby == "range" and all(r == 0 for r, _, _ in t) and kind == "n") or \
        (binby == "mean" and len(set(m for _, m, _ in t)) == 1 and kind == "n")
    if secondary and len(out) and all(p is not None for p in prim) and all(row[2] is not None for row in out):
        sc = max(abs(float(min(ps))), abs(float(max(ps))), abs(prim[-1]))
        conservation_oracles(chk, t, binby, (kind, val), out, inp, degenerate=degenerate, ctol=16 * 2.3e-16 * sc)
        # the same clause without an absolute floor (tables in other units: 2^-200 ...)
        sec = 1 if binby == "range" else 0
        wsum = math.fsum(c * (m if binby == "range" else r) for r, m, c in t)
        wabs = math.fsum(abs(c * (m if binby == "range" else r)) for r, m, c in t)
        bsum = math.fsum(row[2] * row[sec] for row in out if row[2] > 0 and row[sec] is not None)
        if not abs(bsum - wsum) <= 1e-9 * wabs:
            chk.fail("count-weighted sum of the other quantity conserved (relative to the table's magnitude)", inp, wsum, bsum,
                     clause="weighted-rel")
    else:
        tot, btot = sum(c for _, _, c in t), sum(row[2] for row in out if row[2] is not None)
        if not abs(btot - tot) <= 1e-9 * max(1.0, tot):
            chk.fail("total cycle count conserved", inp, tot, btot, clause="total")
    interval_oracles(chk, t, binby, kind, val, out, inp)


def mesh_oracles(chk, t, nr, nm, res, inp):
    """mesh clauses: same total; marginal sums equal the one-dimensional re-binnings (which are judged by the exact reference)"""
    from qats.fatigue.rainflow import rebin
    try:
        cm = np.asarray(res[2], dtype=float)
        m0, m1 = cm.sum(axis=0), cm.sum(axis=1)
    except Exception as e:
        chk.fail("mesh returns (range mesh, mean mesh, count mesh)", inp, "three 2-d arrays", "%s: %s" % (type(e).__name__, str(e)[:80]),
                 clause="mesh-shape")
        return
    tot = sum(c for _, _, c in t)
    if not abs(float(cm.sum()) - tot) <= 1e-9 * max(1.0, tot):
        chk.fail("mesh total == table total", inp, tot, float(cm.sum()), clause="mesh-total")
    for binby, n, marg, ok in (("range", nr, m0, any(r > 0 for r, _, _ in t)), ("mean", nm, m1, len(set(m for _, m, _ in t)) >= 2)):
        if not ok:
            continue
        try:
            rb = _rows_out(rebin(np.array(t, dtype=float), binby=binby, n=n))
        except Exception as e:
            chk.fail("rebin must not raise on a valid table", inp, "table", "%s: %s" % (type(e).__name__, str(e)[:80]), clause="raise")
            continue
        if len(marg) != len(rb) or not all(abs(a - row[2]) <= 1e-9 * max(1.0, tot) for a, row in zip(marg, rb)):
            chk.fail("mesh marginal sums == one-dimensional re-binning by %s" % binby, inp, [row[2] for row in rb][:8],
                     np.asarray(marg).tolist()[:8], clause="mesh-marginal")
        interval_oracles(chk, t, binby, "n", n, rb, inp)


# ---- spelling of the table and of the arguments ------------------------------------------------------------------------------------
FORMS = ["ndarray", "ndarray-F", "ndarray-view", "ndarray-readonly", "ndarray-float32", "ndarray-int", "list-of-lists",
         "list-of-tuples", "tuple-of-tuples", "list-of-ndarrays", "list-np-scalars", "tuple-of-lists"]


def whole_table(rows):
    return all(float(v) == int(v) and abs(v) < 2 ** 31 for row in rows for v in row)


def build_table(form, rows):
    """(object handed to the implementation, the table it denotes as tuples of Python floats)"""
    seen = [tuple(float(v) for v in row) for row in rows]
    if form == "ndarray":
        return np.array(seen), seen
    if form == "ndarray-F":
        return np.asfortranarray(np.array(seen)), seen
    if form == "ndarray-view":
        big = np.full((2 * len(seen) + 1, 5), 777.0)
        big[1::2, 1:4] = seen
        return big[1::2, 1:4], seen
    if form == "ndarray-readonly":
        a = np.array(seen)
        a.setflags(write=False)
        return a, seen
    if form == "ndarray-float32":
        a = np.array(seen, dtype=np.float32)
        return a, [tuple(float(v) for v in row) for row in a]
    if form == "ndarray-int":
        return np.array([[int(v) for v in row] for row in rows], dtype=int), seen
    if form == "list-of-lists":
        return [list(row) for row in rows], seen
    if form == "list-of-tuples":
        return [tuple(row) for row in rows], seen
    if form == "tuple-of-tuples":
        return tuple(tuple(row) for row in rows), seen
    if form == "tuple-of-lists":
        return tuple(list(row) for row in rows), seen
    if form == "list-of-ndarrays":
        return [np.array([float(v) for v in row]) for row in rows], seen
    if form == "list-np-scalars":
        return [[np.int64(v) if isinstance(v, int) else np.float64(v) for v in row] for row in rows], seen
    raise ValueError("unknown table form %r" % (form,))


def num(v, typ):
    return {"int": int, "float": float, "np.int64": np.int64, "np.int32": np.int32, "np.float64": np.float64,
            "np.float32": np.float32}[typ](v)


def call_rebin(obj, binby, spec):
    """spec: dict(style=kw|pos|default-binby|both|explicit-none, n=.., w=.., ntype=.., wtype=..); returns (result, kind, value)"""
    from qats.fatigue.rainflow import rebin
    st = spec.get("style", "kw")
    n = None if spec.get("n") is None else num(spec["n"], spec.get("ntype", "int"))
    w = None if spec.get("w") is None else num(spec["w"], spec.get("wtype", "float"))
    kind, val = ("w", float(w)) if w is not None else ("n", int(n))
    if st == "kw":
        out = rebin(obj, binby=binby, **({"w": w} if kind == "w" else {"n": n}))
    elif st == "pos":
        out = rebin(obj, binby, None, w) if kind == "w" else rebin(obj, binby, n)
    elif st == "default-binby":
        assert binby == "range"
        out = rebin(obj, **({"w": w} if kind == "w" else {"n": n}))
    elif st == "both":          # n given although w is: the width decides
        out = rebin(obj, binby=binby, n=n, w=w)
    elif st == "explicit-none":
        out = rebin(obj, binby=binby, n=n, w=w)
    else:
        raise ValueError("unknown call style %r" % (st,))
    return out, kind, val


def call_mesh(obj, spec):
    from qats.fatigue.rainflow import mesh
    st = spec.get("style", "kw")
    if st == "default":
        return mesh(obj), 100, 100
    nr, nm = num(spec["nr"], spec.get("ntype", "int")), num(spec["nm"], spec.get("ntype", "int"))
    if st == "pos":
        return mesh(obj, nr, nm), int(nr), int(nm)
    if st == "swapped-kw":
        return mesh(obj, nm=nm, nr=nr), int(nr), int(nm)
    return mesh(obj, nr=nr, nm=nm), int(nr), int(nm)


def eval_case(chk, inp):
    """one grouping of one table: inp = dict(kind='case', table=[[r, m, c], ...] (JSON numbers), form=.., op='rebin'|'mesh',
    binby=.., spec={...})"""
    try:
        obj, seen = build_table(inp.get("form", "ndarray"), inp["table"])
    except Exception as e:       # harness side: cannot happen for generated inputs
        raise core.InfraError("cannot build table %r: %s" % (inp, e))
    try:
        if inp["op"] == "mesh":
            res, nr, nm = call_mesh(obj, inp["spec"])
        else:
            res, kind, val = call_rebin(obj, inp["binby"], inp["spec"])
            res = _rows_out(res)
    except Exception as e:
        chk.fail("rebin/mesh must not raise on a valid table (whatever container / number type holds it, however the arguments are "
                 "passed)", inp, "table", "%s: %s" % (type(e).__name__, str(e)[:100]), clause="raise")
        return
    if inp["op"] == "mesh":
        mesh_oracles(chk, seen, nr, nm, res, inp)
    else:
        all_rebin_oracles(chk, seen, inp["binby"], kind, val, res, inp)


def eval_hist(chk, inp):
    """a history on one object per table: inp = dict(kind='hist', tables=[T0, T1], form=.., steps=[dict(t=0|1, op=.., binby=..,
    spec=..) | dict(t=.., op='reject', how=..) | dict(t=.., op='mutate', row=.., values=[r, m, c])]); clauses evaluated after every step; stops at the first failing step"""
    from qats.fatigue.rainflow import rebin
    built = [list(build_table(inp.get("form", "ndarray"), T)) for T in inp["tables"]]
    for i, st in enumerate(inp["steps"]):
        obj, seen = built[st.get("t", 0)]
        sub = dict(inp, steps=inp["steps"][:i + 1])
        if st["op"] == "mutate":
            # the caller changes a row of the table he holds (writable ndarray / list of rows); later groupings are of the new table
            try:
                if isinstance(obj, np.ndarray):
                    obj[st["row"]] = st["values"]
                else:
                    obj[st["row"]] = type(obj[st["row"]])(st["values"])
            except (TypeError, ValueError):
                continue                     # read-only array / tuple of rows: nothing changes
            seen[st["row"]] = tuple(float(v) for v in st["values"])
            continue
        if st["op"] == "reject":
            # calls outside the quantifier (unknown bin-by, neither n nor w, no bins): whatever they do, later groupings must be right
            try:
                if st["how"] == "binby":
                    rebin(obj, binby="Range", n=2)
                elif st["how"] == "nospec":
                    rebin(obj, binby="mean")
                else:
                    rebin(obj, binby="range", n=0)
            except Exception:
                pass
            continue
        before = len(chk.failing)
        try:
            if st["op"] == "mesh":
                res, nr, nm = call_mesh(obj, st["spec"])
            else:
                res, kind, val = call_rebin(obj, st["binby"], st["spec"])
                res = _rows_out(res)
        except Exception as e:
            chk.fail("rebin/mesh must not raise on a valid table (same object grouped before)", sub, "table",
                     "%s: %s" % (type(e).__name__, str(e)[:100]), clause="raise")
            return
        if st["op"] == "mesh":
            mesh_oracles(chk, seen, nr, nm, res, sub)
        else:
            all_rebin_oracles(chk, seen, st["binby"], kind, val, res, sub)
        if len(chk.failing) > before:
            return


# ---- entry points: what the plotting methods hand to matplotlib, calculate_rfc -------------------------------------------------------
class _Recorder:
    """stands in for pyplot functions, figures and axes: records every call and returns itself"""

    def __init__(self):
        self.calls = []

    def __getattr__(self, name):
        if name.startswith("__"):
            raise AttributeError(name)

        def f(*a, **k):
            self.calls.append((name, a, k))
            return self
        return f

    def __iter__(self):                      # `fig, ax = plt.subplots()`
        return iter((self, self))

    def get(self, name):
        return [(a, k) for n_, a, k in self.calls if n_ == name]


PLT_NAMES = ["figure", "bar", "scatter", "plot", "xlabel", "ylabel", "grid", "legend", "savefig", "show", "title", "subplots", "gcf",
             "gca", "close", "tight_layout"]


def recorded(fn):
    """run fn() with matplotlib.pyplot's functions replaced by a recorder (nothing is drawn); returns the recorder"""
    import matplotlib.pyplot as plt
    rec = _Recorder()
    saved = {k: getattr(plt, k) for k in PLT_NAMES if hasattr(plt, k)}
    try:
        for k in saved:
            setattr(plt, k, getattr(rec, k))
        fn()
    finally:
        for k, v in saved.items():
            setattr(plt, k, v)
    return rec


def _spec_of(kw, default_n):
    if kw.get("w") is not None:
        return "w", float(kw["w"])
    return "n", int(kw.get("n", default_n))


def _judge_plot(chk, method, rec, tables, kw, inp):
    """tables: {label suffix: cycle table (list of float tuples)}"""
    if method.endswith("plot_cycle_range"):
        bars = rec.get("bar")
        if len(bars) != len(tables):
            chk.fail("plot_cycle_range draws one histogram per series", inp, len(tables), len(bars), clause="entry")
            return
        kind, val = _spec_of(kw, 200)
        for (a, k), (name, t) in zip(bars, tables.items()):
            lab = str(k.get("label", ""))
            tt = next((tb for nm_, tb in tables.items() if lab.endswith(nm_)), t)
            out = [[float(r), None, float(c)] for r, c in zip(a[0], a[1])]
            all_rebin_oracles(chk, tt, "range", kind, val, out, inp, secondary=False)
    elif method.endswith("plot_cycle_rangemean"):
        sc = rec.get("scatter")
        if len(sc) != len(tables):
            chk.fail("plot_cycle_rangemean draws one scatter per series", inp, len(tables), len(sc), clause="entry")
            return
        kind, val = _spec_of(kw, None)
        for (a, k), (name, t) in zip(sc, tables.items()):
            lab = str(k.get("label", ""))
            tt = next((tb for nm_, tb in tables.items() if lab.endswith(nm_)), t)
            size = k["s"] if "s" in k else a[2]
            out = _rows_out(np.array([np.asarray(a[1], float), np.asarray(a[0], float), np.asarray(size, float) / 2.0]).T)
            all_rebin_oracles(chk, tt, "range", kind, val, out, inp)
    else:   # 3d
        sf = rec.get("plot_surface")
        if len(sf) != 1:
            chk.fail("plot_cycle_rangemean3d draws one surface", inp, 1, len(sf), clause="entry")
            return
        a = sf[0][0]
        mesh_oracles(chk, next(iter(tables.values())), int(kw.get("nr", 100)), int(kw.get("nm", 100)), (a[0], a[1], a[2]), inp)


def eval_entry(chk, inp):
    """inp = dict(kind='entry', method=.., x=[...], x2=[...]|None, kw={...}, names=.., then=dict(x=.., kw=..)|None)"""
    from qats import TimeSeries, TsDB
    from qats.fatigue.rainflow import count_cycles
    from qats.app.funcs import calculate_rfc
    method = inp["method"]
    x = np.array(inp["x"], dtype=float)
    ts = TimeSeries("a", np.arange(len(x), dtype=float), x.copy())
    series = {"a": ts}
    if inp.get("x2") is not None:
        x2 = np.array(inp["x2"], dtype=float)
        series["b"] = TimeSeries("b", np.arange(len(x2), dtype=float), x2.copy())
    db = None
    if method.startswith("db."):
        db = TsDB()
        for s_ in series.values():
            db.add(s_)
    rounds = [(None, inp["kw"])] + ([(inp["then"]["x"], inp["then"]["kw"])] if inp.get("then") else [])
    for i, (newx, kw) in enumerate(rounds):
        sub = inp if i == len(rounds) - 1 else dict(inp, then=None)
        if newx is not None:
            ts.x = np.array(newx, dtype=float)      # the series' data replaced between two requests
        tables = {}
        for nm_, s_ in series.items():
            if inp.get("names") is not None and nm_ not in inp["names"]:
                continue
            tables[nm_] = [tuple(float(v) for v in row) for row in count_cycles(np.array(s_.x, dtype=float))]
        try:
            if method == "calculate_rfc":
                got = calculate_rfc({"a": ts}, (0.0, float(len(x))), None, kw["n"])["a"]
                out = [[float(r), None, float(c)] for r, c in zip(got[0], got[1])]
                all_rebin_oracles(chk, tables["a"], "range", "n", kw["n"], out, sub, secondary=False)
                continue
            if method.startswith("db."):
                names = inp.get("names")
                rec = recorded(lambda: getattr(db, method[3:])(names=names, show=False, **kw))
            else:
                rec = recorded(lambda: getattr(ts, method[3:])(show=False, **kw))
            _judge_plot(chk, method, rec, tables, kw, sub)
        except Exception as e:
            chk.fail("the cycle histogram / mesh of a series is available through %s for every n >= 1 / w > 0 that gives at least two "
                     "bins" % method, sub, "grouped cycles", "%s: %s" % (type(e).__name__, str(e)[:100]), clause="raise")
            return



# ---- LARGE tables described by a few parameters (size-conditioned code paths) -------------------------------------------------------
BIG_GROUPS = ((999, 1000, 1001, 1023, 1024, 1025), (4095, 4096, 4097), (9999, 10000, 10001), (65537, 70001))
BIG_BINS = (1, 2, 33, 65, 129, 255, 256, 257, 300, 1000, 1024, 1025, 4096, 4097)


def big_table(p):
    """cycle table of a `big` case rebuilt from its parameters: (rows, 3) float array, ranges / means multiples of 1/8, counts
    0.5 / 1 / 2.5 / 3; `order`: sorted by range then mean (as count_cycles returns it), reversed, shuffled; events:
      top-last / top-first   the single largest range (and the largest mean) in the last / first row
      top-at b               the single largest range in row b (a multiple of 1000 / 1024 / 4096 / 10000 / 65536, or next to one)
      heavy b                row b carries 2^24 + 0.5 cycles (a narrow accumulator drops the half)
      edge b                 row b lies exactly on a bin edge of the case's specification (range / mean = k * w)"""
    n = int(p["rows"])
    g = np.random.default_rng(int(p["seed"]))
    r = g.integers(0, 4000, n) / 8.0
    m = g.integers(-800, 800, n) / 8.0 + float(p.get("offset", 0.0))
    c = g.choice([0.5, 1.0, 1.0, 2.5, 3.0], n)
    t = np.column_stack([r, m, c])
    order = p.get("order", "sorted")
    if order in ("sorted", "reversed"):
        t = t[np.lexsort((t[:, 1], t[:, 0]))]
        if order == "reversed":
            t = t[::-1].copy()
    for kind, pos in p.get("events", ()):
        pos = int(pos) % n
        if kind == "top":
            t[pos, 0], t[pos, 1] = 512.0 + 0.125 * (pos % 7), 128.0 + float(p.get("offset", 0.0))
        elif kind == "heavy":
            t[pos, 2] = 2.0 ** 24 + 0.5
        elif kind == "edge":
            w = float(Fraction(p["spec"].get("w", "1/2")))
            t[pos, 0] = w * (1 + pos % 40)
            t[pos, 1] = t[:, 1].min() + w * (pos % 40)
    return t * np.array([float(p.get("scale", 1.0)), float(p.get("scale", 1.0)), 1.0])


def gen_big(rng, quick):
    if quick:
        sizes = [rng.choice(gp) for gp in BIG_GROUPS]
    else:
        sizes = [n for gp in BIG_GROUPS for n in gp] * 2
    for k, n in enumerate(sizes):
        bs = sorted(set(b for q in (1000, 1024, 4096, 10000, 65536) for b in range(q, n - 1, q)))
        near = [b + d for b in bs for d in (-1, 0, 1)] or [0, n - 1]
        ev = [["top", rng.choice([0, n - 1] if k % 2 == 0 else near)], ["heavy", rng.choice(near + [0, n - 1])]]
        for _ in range(rng.randint(0, 3)):
            ev.append(["edge", rng.choice(near + [0, n - 1])])
        if rng.random() < 0.3:
            ev = [e for e in ev if e[0] != "heavy"]
        nreq = 1 if (quick and n > 20000) else 3
        reqs = []
        for j in range(nreq):
            binby = rng.choice(["range", "mean"])
            if rng.random() < 0.6:
                spec = dict(n=rng.choice(BIG_BINS if n < 20000 or not quick else BIG_BINS[:12]))
            else:
                spec = dict(w=rng.choice(["1/8", "1/4", "1/2", "1", "3/8", "5", "0.3", "0.7", "2.1"]))
            reqs.append(dict(op="rebin", binby=binby, spec=spec))
        if n < 20000 or not quick:
            reqs.append(dict(op="mesh", nr=rng.choice([1, 33, 65, 129, 300]), nm=rng.choice([1, 33, 65, 129, 300])))
        yield dict(kind="big", rows=n, seed=rng.getrandbits(40), order=rng.choice(["sorted", "sorted", "reversed", "shuffled"]),
                   offset=rng.choice([0.0, 0.0, 1024.0]), scale=rng.choice([1.0, 1.0, 0.5, 1024.0]), events=ev,
                   spec=dict(w=rng.choice(["1/2", "1/8", "1"])), form=rng.choice(["ndarray", "ndarray", "list-of-lists"]), requests=reqs)


def eval_big(chk, inp):
    """a history of groupings on ONE large table; every request judged by the total / weighted-sum / empty-bin clauses and by the
    exact-rational interval reference (`interval_oracles`; the quadratic nearest-bin search of `conservation_oracles` is left out)"""
    from qats.fatigue.rainflow import rebin, mesh
    try:
        arr = big_table(inp)
    except Exception as e:
        raise core.InfraError("cannot build big table %r: %s" % (inp, e))
    t = [tuple(row) for row in arr.tolist()]
    keep = arr.copy()
    obj = arr if inp.get("form", "ndarray") == "ndarray" else [list(row) for row in t]
    tot = math.fsum(c for _, _, c in t)
    for k, rq in enumerate(inp["requests"]):
        rin = dict(inp, step=k)
        try:
            if rq["op"] == "mesh":
                res = mesh(obj, nr=rq["nr"], nm=rq["nm"])
                mesh_oracles(chk, t, rq["nr"], rq["nm"], res, rin)
            else:
                binby = rq["binby"]
                kind = "w" if "w" in rq["spec"] else "n"
                val = Fraction(rq["spec"]["w"]) if kind == "w" else int(rq["spec"]["n"])
                if kind == "w":
                    val = Fraction(float(val) * float(inp.get("scale", 1.0)))       # (the width in the table's unit, as the float handed over)
                out = _rows_out(rebin(obj, binby=binby, n=None if kind == "w" else val, w=None if kind == "n" else float(val)))
                sec = 1 if binby == "range" else 0
                btot = math.fsum(row[2] for row in out if row[2] is not None)
                if not abs(btot - tot) <= 1e-9 * max(1.0, tot):
                    chk.fail("total cycle count conserved (large table)", rin, tot, btot, clause="total")
                wsum = math.fsum(c * (m if binby == "range" else r) for r, m, c in t)
                wabs = math.fsum(abs(c * (m if binby == "range" else r)) for r, m, c in t)
                bsum = math.fsum(row[2] * row[sec] for row in out if row[2] and row[sec] is not None)
                if not abs(bsum - wsum) <= 1e-9 * wabs:
                    chk.fail("count-weighted sum of the other quantity conserved (large table; relative to the table's magnitude)",
                             rin, wsum, bsum, clause="weighted-rel")
                bad = next((row for row in out if row[2] is not None and (row[2] == 0) != (row[sec] is None)), None)
                if bad is not None:
                    chk.fail("empty bins carry count 0 (and nan), non-empty bins a value", rin, "consistent", bad, clause="empty")
                interval_oracles(chk, t, binby, kind, val, out, rin)
        except Exception as e:
            chk.fail("rebin/mesh must not raise on a valid (large) table", rin, "table", "%s: %s" % (type(e).__name__, str(e)[:100]),
                     clause="raise")
        if not np.array_equal(np.asarray(obj, dtype=float), keep):
            chk.fail("a grouping leaves the caller's table as it was (the next grouping is of the same cycles)", rin, "unchanged",
                     "changed", clause="total")
            return

EVAL = {"case": eval_case, "hist": eval_hist, "entry": eval_entry, "big": eval_big}


# ---- generators (every choice from chk.rng) --------------------------------------------------------------------------------------------
def gen_rows(rng, k=None, whole=None, counts=(0.5, 1, 1, 1, 2, 3, 2.5)):
    """small table on a quarter grid; Python ints where the value is whole (so that lists mix int and float)"""
    k = k or rng.choice([1, 1, 2, 2, 3, 4, 6, 9])
    whole = rng.random() < 0.3 if whole is None else whole
    rows = []
    g = 4 if whole or rng.random() < 0.7 else 10        # quarter grid (exact in float32 as well) or decimal grid
    for _ in range(k):
        r = rng.randint(0, 12) if whole or rng.random() < 0.4 else rng.randint(0, 12 * g) / g
        m = rng.randint(-6, 6) if whole or rng.random() < 0.4 else rng.randint(-6 * g, 6 * g) / g
        c = rng.choice([1, 1, 2, 3]) if whole else rng.choice(counts)
        rows.append([r, m, c])
    u = rng.random()
    if u < 0.08:
        rows = [[0, m, c] for r, m, c in rows]                  # all ranges zero
    elif u < 0.16:
        rows = [[r, rows[0][1], c] for r, m, c in rows]         # all means equal
    elif u < 0.22:
        rows = [[rows[0][0], m, c] for r, m, c in rows]         # all ranges equal
    return rows


def gen_spec(rng, rows, binby):
    """bin specification with the boundary values: w equal to / above / a fraction of the span, n = 1 ... 1000, numpy number types"""
    prim = [float(r[0] if binby == "range" else r[1]) for r in rows]
    span = (max(prim) - 0.0) if binby == "range" else (max(prim) - min(prim))
    spec = {}
    if rng.random() < 0.5:
        spec["n"] = rng.choice([1, 1, 2, 3, 4, 5, 7, 10, 16, 64, 100, 200, 1000])
        spec["ntype"] = rng.choice(["int", "int", "np.int64", "np.int32"])
        spec["style"] = rng.choice(["kw", "kw", "pos", "explicit-none"] + (["default-binby"] if binby == "range" else []))
    else:
        cands = [0.25, 0.5, 1, 2, 1.5, 5, 0.75, 3, 0.1, 0.3, 0.7, 100]
        if span > 0:
            cands += [span, span, 2 * span, span / 2, span / 3, span / 4, span + 0.25, span / 200]
        w = rng.choice(cands)
        spec["w"] = w
        types = ["float", "np.float64"]
        if float(w) == int(w):
            types += ["int", "int", "np.int64"]
        if float(np.float32(w)) == float(w):
            types.append("np.float32")
        spec["wtype"] = rng.choice(types)
        if spec["wtype"] in ("int", "np.int64"):
            spec["w"] = int(w)
        spec["style"] = rng.choice(["kw", "kw", "pos", "both", "explicit-none"] + (["default-binby"] if binby == "range" else []))
        if spec["style"] == "both":
            spec["n"] = rng.choice([1, 2, 3, 7, 200])
    return spec


def gen_mesh_spec(rng):
    if rng.random() < 0.06:
        return {"style": "default"}
    return {"style": rng.choice(["kw", "kw", "pos", "swapped-kw"]), "nr": rng.choice([1, 2, 3, 5, 8, 16, 50]), "nm": rng.choice([1, 2, 3, 4, 7, 20]),
            "ntype": rng.choice(["int", "int", "np.int64"])}


def pick_form(rng, rows):
    forms = [f for f in FORMS if f != "ndarray-int" or whole_table(rows)]
    return rng.choice(forms)


def gen_case_spelling(rng):
    rows = gen_rows(rng)
    binby = rng.choice(["range", "mean"])
    if rng.random() < 0.25:
        return dict(kind="case", table=rows, form=pick_form(rng, rows), op="mesh", spec=gen_mesh_spec(rng))
    return dict(kind="case", table=rows, form=pick_form(rng, rows), op="rebin", binby=binby, spec=gen_spec(rng, rows, binby))


def gen_case_boundary(rng):
    """tables in other units (x 2^p), means on large offsets, non-dyadic counts, values on edges, big n, w tied to the span"""
    k = rng.choice([1, 2, 2, 3, 5, 8, 20]) if rng.random() < 0.99 else 600        # (now and then a table as long as a real one)
    p = rng.choice([0, 0, 200, -200, 100, -100, 60, -60, 31, -31, 10, -10])
    off = rng.choice([0, 0, 0, 0, 2.0 ** 20, -2.0 ** 20, 2.0 ** 30, 2.0 ** 40, -2.0 ** 35, 1e6, 12345.678, -1e9])
    nb = rng.choice([2, 3, 4, 5, 7, 10])
    rmax = rng.randint(1, 12) * rng.choice([1, 0.25, 0.1, 0.7])
    mlo, mspan = rng.randint(-8, 4) * rng.choice([1, 0.5, 0.3]), rng.randint(1, 9) * rng.choice([1, 0.25, 0.1])
    cnt = rng.choice([(0.5, 1.0), (0.5, 1.0), (0.1, 0.3, 1e-3), (1e6, 0.5, 3.0), (2.0, 2.5, 7.0)])
    rows = []
    for i in range(k):
        u = rng.random()
        r = rmax * rng.randint(0, nb) / nb if u < 0.4 else (rng.uniform(0, rmax) if u < 0.9 else rmax)     # on edges of nb bins
        u = rng.random()
        m = mlo + mspan * rng.randint(0, nb) / nb if u < 0.4 else (rng.uniform(mlo, mlo + mspan) if u < 0.9 else mlo)
        rows.append([r, m, rng.choice(cnt)])
    if k >= 2:
        rows[rng.randrange(k)][0] = rmax
        rows[rng.randrange(k)][1] = mlo + mspan
    f = 2.0 ** p
    rows = [[r * f, (m + off) * f, c] for r, m, c in rows]
    binby = rng.choice(["range", "mean"])
    if rng.random() < 0.25:
        return dict(kind="case", table=rows, form="ndarray", op="mesh",
                    spec={"style": "kw", "nr": rng.choice([1, nb, 2 * nb, 3]), "nm": rng.choice([1, nb, 2, 5])})
    prim = [r[0] if binby == "range" else r[1] for r in rows]
    span = max(prim) if binby == "range" else max(prim) - min(prim)
    scale = max(abs(v) for v in prim) or 1.0
    hmin = 2.3e-12 * scale                    # keep bins wider than 10^4 units in the last place of the values (offset tables)
    if rng.random() < 0.5 or span <= 0:
        n = rng.choice([1, nb, nb, 2 * nb, 2, 3, 64, 100, 1000])
        spec = {"style": "kw", "n": n if span <= 0 or span / n > hmin else 1}
        if span <= 0 and rng.random() < 0.5:
            spec = {"style": "kw", "w": scale * rng.choice([1.0, 0.5, 0.1, 4.0])}
    else:
        w = rng.choice([span, span / nb, span / nb, span / (2 * nb), span * 2, span / 3, span * 0.7, span / 300, span * 1.0000000000000002])
        spec = {"style": "kw", "w": w if w > hmin else max(span, 4 * hmin)}
    return dict(kind="case", table=rows, form=rng.choice(["ndarray", "ndarray", "list-of-tuples", "ndarray-readonly"]), op="rebin",
                binby=binby, spec=spec)


def gen_hist(rng):
    rows = gen_rows(rng, k=rng.choice([2, 3, 4, 6]))
    if all(r[0] == 0 for r in rows):
        rows[0][0] = 4
    # a second table with the same largest range and the same extreme means but other rows
    rmax = max(r[0] for r in rows)
    mlo, mhi = min(r[1] for r in rows), max(r[1] for r in rows)
    other = [[rmax, mlo, 1], [rmax / 4 if rmax / 4 != int(rmax / 4) else int(rmax / 4), mhi, 0.5]] + \
            [[rng.randint(0, int(4 * rmax)) / 4, mlo + rng.randint(0, 4) * (mhi - mlo) / 4, rng.choice([0.5, 1, 2])] for _ in range(rng.randint(0, 3))]
    tables = [rows, other]
    steps = []
    v = rng.choice([1, 2, 2, 3, 4])          # the same number used as n and as w, by range and by mean
    for _ in range(rng.randint(2, 6)):
        u = rng.random()
        ti = 0 if rng.random() < 0.65 else 1
        if u < 0.12:
            steps.append(dict(t=ti, op="reject", how=rng.choice(["binby", "nospec", "n0"])))
        elif u < 0.24 and steps:
            row = list(rng.choice(tables[ti]))
            j = rng.randrange(3)
            row[j] = [rng.randint(1, 12), rng.randint(-6, 6), rng.choice([1, 2, 3])][j]
            steps.append(dict(t=ti, op="mutate", row=rng.randrange(len(tables[ti])), values=row))
            steps.append(dict(steps[-2] if steps[-2]["op"] in ("rebin", "mesh") and steps[-2]["t"] == ti and rng.random() < 0.7 else
                              dict(t=ti, op="rebin", binby=rng.choice(["range", "mean"]), spec={"style": "kw", "n": v})))
        elif u < 0.3:
            steps.append(dict(t=ti, op="mesh", spec={"style": "kw", "nr": rng.choice([v, 2, 3]), "nm": rng.choice([v, 1, 2])}))
        else:
            binby = rng.choice(["range", "mean"])
            if rng.random() < 0.7:
                spec = {"style": "kw", "n": v} if rng.random() < 0.5 else {"style": "kw", "w": v, "wtype": rng.choice(["int", "float"])}
            else:
                spec = gen_spec(rng, tables[ti], binby)
            steps.append(dict(t=ti, op="rebin", binby=binby, spec=spec))
    if all(s["op"] in ("reject", "mutate") for s in steps):
        steps.append(dict(t=0, op="rebin", binby="range", spec={"style": "kw", "n": v}))
    form = rng.choice(["ndarray", "ndarray", "ndarray-readonly", "ndarray-view", "list-of-lists", "ndarray-F"] +
                      (["ndarray-int"] if whole_table(rows) and whole_table(other) else []))
    return dict(kind="hist", tables=tables, form=form, steps=steps)


def gen_signal(rng, n=None):
    n = n or rng.choice([12, 30, 50, 200])
    return [rng.randint(-40, 40) / 4 for _ in range(n)]


def gen_entry(rng):
    from qats.fatigue.rainflow import count_cycles
    for _ in range(20):
        x = gen_signal(rng)
        cyc = count_cycles(np.array(x))
        if len(cyc) >= 2 and cyc[:, 0].max() > 0:
            break
    rmax = float(cyc[:, 0].max())
    method = rng.choice(["ts.plot_cycle_range", "ts.plot_cycle_range", "ts.plot_cycle_rangemean", "ts.plot_cycle_rangemean3d",
                         "db.plot_cycle_range", "db.plot_cycle_rangemean", "calculate_rfc"])

    def kw_for(method, rmax):
        if method == "calculate_rfc":
            return {"n": rng.choice([1, 2, 5, 10, 256])}
        if method.endswith("3d"):
            return {} if rng.random() < 0.1 else {"nr": rng.choice([1, 2, 3, 10]), "nm": rng.choice([1, 2, 4, 7])}
        single_ok = method.endswith("rangemean")
        u = rng.random()
        if u < 0.4:
            return {"n": rng.choice(([1] if single_ok else []) + [2, 3, 5, 50])}
        if u < 0.5 and method.endswith("plot_cycle_range"):
            return {}                                         # default n = 200
        ws = [rmax / 2, rmax / 3, rmax / 4, 0.25, 0.5, 0.3, 0.7] + ([rmax, 2 * rmax] if single_ok else [])
        ws = [w for w in ws if w > 0 and (single_ok or w < rmax)]
        kw = {"w": rng.choice(ws)}
        if rng.random() < 0.3:
            kw["n"] = rng.choice([2, 3, 7])                   # given but overridden by w
        return kw
    inp = dict(kind="entry", method=method, x=x, x2=None, kw=kw_for(method, rmax), names=None, then=None)
    if method.startswith("db."):
        for _ in range(20):
            x2 = gen_signal(rng)
            c2 = count_cycles(np.array(x2))
            if len(c2) >= 2 and c2[:, 0].max() > 0:
                break
        inp["x2"] = x2
        rmax = min(rmax, float(c2[:, 0].max()))
        inp["kw"] = kw_for(method, rmax)
        inp["names"] = rng.choice([None, None, ["a"], ["b"], ["b", "a"]])
    elif rng.random() < 0.5:
        for _ in range(20):
            y = gen_signal(rng, n=len(x))
            cy = count_cycles(np.array(y))
            if len(cy) >= 2 and cy[:, 0].max() > 0:
                break
        inp["then"] = dict(x=y, kw=kw_for(method, float(cy[:, 0].max())))
    return inp


def run(chk):
    from qats.fatigue.rainflow import rebin, mesh, count_cycles, _create_bins
    chk.extra["rule"] = RULE
    chk.assumptions += ["np.histogram / np.histogram2d bin rule (half-open, last closed, outside dropped) as modelled in Qats.Rebin",
                        "float edge construction is outside the theorems; searched against the exact model"]
    rng = chk.rng
    drv = core.Driver()
    N = 400 if chk.quick else 6000
    lines, meta = [], []
    for c in core.load_corpus("C04"):
        if c.get("kind") in EVAL:
            c = {k: v for k, v in c.items() if k != "note"}
            chk.count("corpus")
            chk.dist("corpus:" + c["kind"])
            EVAL[c["kind"]](chk, c)
            continue
        # corpus cases are float tables (decimal widths: the F5 shape); only the clauses on the implementation apply —
        # the exact model differs from float edge construction by design (DESIGN.md section 3)
        rows = [tuple(float(Fraction(v)) for v in row) for row in c["table"]]
        wv = float(Fraction(c["value"]))
        inp = dict(table=[list(r) for r in rows], binby=c["binby"], kind=c["kind"], value=wv)
        chk.count("corpus")
        try:
            out = _rows_out(rebin(np.array(rows), binby=c["binby"], **({"w": wv} if c["kind"] == "w" else {"n": int(wv)})))
            conservation_oracles(chk, rows, c["binby"], (c["kind"], wv), out, inp)
            interval_oracles(chk, rows, c["binby"], c["kind"], wv, out, inp)
        except Exception as e:
            chk.fail("rebin must not raise on a valid table", inp, "table", type(e).__name__, clause="raise")
    for _ in range(N):
        t = gen_table(rng)
        binby = rng.choice(["range", "mean"])
        if rng.random() < 0.5:
            kind, val = "n", rng.choice([1, 2, 3, 4, 5, 7, 9])
            if rng.random() < 0.08:
                kind, val = "n", rng.choice([16, 64, 256])      # (powers of two: the float edges stay exact)
        else:
            kind, val = "w", rng.choice([Fraction(1, 4), Fraction(1, 2), Fraction(1), Fraction(2), Fraction(3, 2), Fraction(5), Fraction(3, 4)])
            pv = [r if binby == "range" else m for r, m, _ in t]
            span = max(pv) - (0 if binby == "range" else min(pv))
            if span > 0 and rng.random() < 0.2:
                # the width tied to the table: equal to the span (largest value on the last edge), above it, a power-of-two fraction
                kind, val = "w", rng.choice([span, 2 * span, span + Fraction(1, 4), span / 2, span / 4])
        lines.append("rebin %s %s %s %s" % (binby, kind, val if kind == "n" else rat(val), " ".join(rat(v) for row in t for v in row)))
        meta.append((t, binby, kind, val))
    M = 150 if chk.quick else 2000
    mmeta = []
    for _ in range(M):
        t = gen_table(rng)
        nr, nm = rng.choice([1, 2, 3, 5]), rng.choice([1, 2, 4])
        lines.append("mesh %d %d %s" % (nr, nm, " ".join(rat(v) for row in t for v in row)))
        mmeta.append((t, nr, nm))
    outs = drv.run(lines)
    for (t, binby, kind, val), o in zip(meta, outs[:len(meta)]):
        chk.count("rebin")
        inp = dict(table=[[str(v) for v in row] for row in t], binby=binby, kind=kind, value=str(val))
        if len(t) >= 2:
            chk.nontriv(repr(inp))
        chk.dist("rebin:%s:%s" % (binby, kind))
        try:
            im = impl_rebin(t, binby, n=val if kind == "n" else None, w=val if kind == "w" else None)
        except Exception as e:
            im = "err:" + type(e).__name__
        degenerate = (binby == "range" and all(r == 0 for r, _, _ in t)) or (binby == "mean" and len(set(m for _, m, _ in t)) == 1)
        if isinstance(im, str):
            # (a table whose primary values are all equal is a table: the quantifier is over all non-empty tables)
            chk.fail("rebin must not raise on a valid table", inp, "table", im, clause="raise")
            if degenerate:
                chk.dist("degenerate-span-raises")
            continue
        ft_ = [tuple(float(v) for v in row) for row in t]
        interval_oracles(chk, ft_, binby, kind, val, im, inp)
        try:
            mrows = parse_rows(o)
        except Exception:
            chk.disagree("rebin", inp, o[:80], im[:6])
            conservation_oracles(chk, ft_, binby, (kind, val), im, inp, degenerate=degenerate)
            continue
        if degenerate:
            # all-equal primary values: numpy handles zero-width edges; only the oracles apply
            conservation_oracles(chk, [tuple(float(v) for v in row) for row in t], binby, (kind, val), im, inp, degenerate=True)
            continue
        same = len(mrows) == len(im) and all(all(close(a, b) for a, b in zip(r1, r2)) for r1, r2 in zip(mrows, im))
        if not same:
            chk.disagree("rebin", inp, mrows[:6], im[:6])
        conservation_oracles(chk, [tuple(float(v) for v in row) for row in t], binby, (kind, val), im, inp)
        if len(chk.samples) < 3 and len(t) in (3, 4):
            chk.sample(dict(inp, result=im))
    for (t, nr, nm), o in zip(mmeta, outs[len(meta):]):
        chk.count("mesh")
        inp = dict(table=[[str(v) for v in row] for row in t], nr=nr, nm=nm)
        arr = np.array([[float(v) for v in row] for row in t])
        try:
            rm, mm, cm = mesh(arr, nr=nr, nm=nm)
            rm, mm, cm = np.asarray(rm, dtype=float), np.asarray(mm, dtype=float), np.asarray(cm, dtype=float)
            if not (rm.ndim == mm.ndim == cm.ndim == 2):
                raise ValueError("mesh arrays are not 2-d: %s %s %s" % (rm.shape, mm.shape, cm.shape))
        except Exception as e:
            chk.fail("mesh must not raise on a valid table", inp, "table", "%s: %s" % (type(e).__name__, str(e)[:80]), clause="raise")
            continue
        try:
            rb, mb, cells = [s.strip() for s in o[3:].split("|")]
            mr = [float(Fraction(v)) for v in rb.split()]
            mmid = [float(Fraction(v)) for v in mb.split()]
            mc = [[float(Fraction(v)) for v in row.split()] for row in cells.split(";")]
            ok = cm.shape == (nm, nr) and rm.shape == (nm, nr) and mm.shape == (nm, nr) and \
                all(close(a, b) for a, b in zip(mr, rm[0])) and all(close(a, b) for a, b in zip(mmid, mm[:, 0])) \
                and all(close(a, b) for r1, r2 in zip(mc, cm) for a, b in zip(r1, r2)) \
                and bool(np.all(rm == rm[0])) and bool(np.all(mm == mm[:, :1]))          # (meshgrid layout)
        except Exception:
            ok, mr, mmid, mc = False, o[:80], None, None
        if not ok:
            chk.disagree("mesh", inp, (mr, mmid, mc), (rm[0].tolist(), mm[:, 0].tolist(), cm.tolist()))
        mesh_oracles(chk, [tuple(float(v) for v in row) for row in t], nr, nm, (rm, mm, cm), inp)
        if len(t) >= 2 and nr * nm >= 2:
            chk.nontriv(repr(inp))
        tot = float(sum(c for _, _, c in t))
        if abs(cm.sum() - tot) > 1e-12 * max(1, tot):
            chk.fail("mesh total == table total", inp, tot, float(cm.sum()), clause="mesh-total")
        try:
            rb1, rb2 = impl_rebin(t, "range", n=nr), impl_rebin(t, "mean", n=nm)
        except Exception as e:
            chk.fail("rebin must not raise on a valid table", inp, "table", "%s: %s" % (type(e).__name__, str(e)[:80]), clause="raise")
            continue
        if any(r > 0 for r, _, _ in t):
            if len(rb1) != cm.shape[1] or not all(close(a, row[2]) for a, row in zip(cm.sum(axis=0), rb1)):
                chk.fail("mesh marginal over means == rebin by range", inp, [row[2] for row in rb1], cm.sum(axis=0).tolist(), clause="mesh-marginal")
        if len(set(m for _, m, _ in t)) >= 2:
            if len(rb2) != cm.shape[0] or not all(close(a, row[2]) for a, row in zip(cm.sum(axis=1), rb2)):
                chk.fail("mesh marginal over ranges == rebin by mean", inp, [row[2] for row in rb2], cm.sum(axis=1).tolist(), clause="mesh-marginal")
    # ---- float search: adversarial widths ------------------------------------------------------------------------------------
    F = 600 if chk.quick else 20000
    for i in range(F):
        w = rng.choice([0.1, 0.2, 0.3, 0.7, 0.05, 1.1, 2.3, 0.9, 1e-3, max(round(rng.uniform(0.01, 5), rng.choice([1, 2, 3])), 1e-3)])
        k = rng.randint(1, 40)
        mx = k * w if rng.random() < 0.7 else rng.uniform(0.1, 50)
        rows = [(mx, rng.uniform(-3, 3), 1.0)] + [(rng.uniform(0, mx), rng.uniform(-3, 3), rng.choice([0.5, 1.0])) for _ in range(rng.randint(0, 4))]
        binby = "range" if rng.random() < 0.7 else "mean"
        if binby == "mean":
            ms = sorted(m for _, m, _ in rows)
            if ms[0] == ms[-1]:
                continue
        inp = dict(table=[list(r) for r in rows], binby=binby, kind="w", value=w)
        chk.count("float-search")
        try:
            out = _rows_out(rebin(np.array(rows), binby=binby, w=w))
        except Exception as e:
            chk.fail("rebin must not raise on a valid table", inp, "table", type(e).__name__, clause="raise")
            continue
        conservation_oracles(chk, rows, binby, ("w", w), out, inp)
        interval_oracles(chk, rows, binby, "w", w, out, inp)
    # ---- float search, enumerated: largest range an exact decimal multiple of a decimal width (i/100 = m * j/100) -------------------
    for j in range(1, 401 if not chk.quick else 201):
        w = j / 100
        for m in range(1, min(2000 // j, 60) + 1):
            mx = (j * m) / 100
            rows = [(mx, 0.5, 1.0), (mx / 2, -0.5, 0.5)]
            chk.count("float-multiples")
            inp = dict(table=[list(r) for r in rows], binby="range", kind="w", value=w)
            try:
                out = np.asarray(rebin(np.array(rows), binby="range", w=w), dtype=float)
                tot = float(np.nansum(out[:, 2]))
            except Exception as e:
                chk.fail("rebin must not raise on a valid table", inp, "table", type(e).__name__, clause="raise")
                continue
            if abs(tot - 1.5) > 1e-9:
                chk.fail("total cycle count conserved", inp, 1.5, tot, clause="total")
            else:
                try:
                    interval_oracles(chk, rows, "range", "w", w, _rows_out(out), inp)
                except Exception as e:
                    chk.fail("rebin returns rows (range, mean, count)", inp, "(bins, 3)", "%s: %s" % (type(e).__name__, str(e)[:80]), clause="raise")
    # ---- histories on one table object: the caller's ndarray is passed to several groupings in a row ---------------------------------
    # (the clauses are about the table the caller holds: every grouping of it must conserve its total and weighted sum and its mesh
    # marginals must equal its re-binnings, whatever was computed from the same array before)
    H = 120 if chk.quick else 3000
    for _ in range(H):
        t = gen_table(rng)
        if len(t) < 2 or all(r == 0 for r, _, _ in t) or len(set(m for _, m, _ in t)) < 2:
            continue
        ft = [tuple(float(v) for v in row) for row in t]
        arr = np.array(ft)
        ops = [rng.choice(["range", "mean", "mesh"]) for _ in range(rng.randint(2, 4))]
        hist = []
        for op in ops:
            n = rng.choice([1, 2, 3, 5])
            hist.append([op, n])
            inp = dict(kind="history", table=[[str(v) for v in row] for row in t], ops=list(hist))
            chk.count("history")
            try:
                if op == "mesh":
                    _, _, cm = mesh(arr, nr=n, nm=2)
                    fresh = mesh(np.array(ft), nr=n, nm=2)[2]
                    got, exp = cm.tolist(), fresh.tolist()
                else:
                    got = _rows_out(rebin(arr, binby=op, n=n))
                    exp = impl_rebin(t, op, n=n)
            except Exception as e:
                chk.fail("rebin/mesh must not raise on a valid table (same array used before)", inp, "table", type(e).__name__, clause="raise")
                break
            if op != "mesh":
                conservation_oracles(chk, ft, op, ("n", n), got, inp)
                interval_oracles(chk, ft, op, "n", n, got, inp)
            elif abs(np.sum(cm) - sum(c for _, _, c in ft)) > 1e-9 * max(1, sum(c for _, _, c in ft)):
                chk.fail("mesh total == table total (same array used before)", inp, sum(c for _, _, c in ft), float(np.sum(cm)), clause="mesh-total")
            if got != exp and not np.allclose(np.array(got, dtype=float), np.array(exp, dtype=float), rtol=1e-12, atol=1e-12, equal_nan=True):
                chk.fail("grouping the caller's table gives the grouping of that table (independent of earlier groupings of the same array)",
                         inp, exp[:6], got[:6], clause="history")
                break
        chk.nontriv(repr((t, ops)))
        chk.dist("history:%s" % "-".join(o[0] for o in ops[:2]))
    # ---- the same table in the container types a caller may hold: ndarray of floats, ndarray of integers, list of tuples / lists with
    # Python ints and floats mixed (the first item decides nothing) ---------------------------------------------------------------------
    T = 150 if chk.quick else 3000
    for _ in range(T):
        k = rng.randint(1, 5)
        whole = rng.random() < 0.5
        rows = []
        for _i in range(k):
            r = rng.randint(0, 12) if whole or rng.random() < 0.5 else rng.randint(0, 48) / 4
            m = rng.randint(-6, 6) if whole or rng.random() < 0.5 else rng.randint(-24, 24) / 4
            c = rng.choice([1, 1, 2, 3]) if whole or rng.random() < 0.5 else 0.5
            rows.append((r, m, c))
        if all(r == 0 for r, _, _ in rows) or len(set(m for _, m, _ in rows)) < 2:
            continue
        ref = np.array([[float(v) for v in row] for row in rows])
        forms = [("list of tuples", lambda: [tuple(row) for row in rows]), ("list of lists", lambda: [list(row) for row in rows]),
                 ("tuple of tuples", lambda: tuple(tuple(row) for row in rows))]
        if whole:
            forms.append(("ndarray of integers", lambda: np.array(rows, dtype=int)))
        n, binby = rng.choice([1, 2, 3, 5]), rng.choice(["range", "mean"])
        try:
            exp = rebin(ref.copy(), binby=binby, n=n)
            expm = mesh(ref.copy(), nr=n, nm=2)[2]
        except Exception as e:
            chk.fail("rebin/mesh must not raise on a valid table", dict(kind="container", form="ndarray of floats", table=[[repr(v) for v in row] for row in rows],
                                                                       binby=binby, n=n), "table", "%s: %s" % (type(e).__name__, str(e)[:80]), clause="raise")
            continue
        for label, mk in forms:
            inp = dict(kind="container", form=label, table=[[repr(v) for v in row] for row in rows], binby=binby, n=n)
            chk.count("container")
            chk.dist("container:" + label)
            try:
                got = rebin(mk(), binby=binby, n=n)
                gotm = mesh(mk(), nr=n, nm=2)[2]
            except Exception as e:
                chk.fail("rebin/mesh must not raise on a valid table (whatever container / number type holds it)", inp, "table",
                         "%s: %s" % (type(e).__name__, str(e)[:80]), clause="raise")
                continue
            if np.shape(got) != np.shape(exp) or not np.allclose(got, exp, rtol=1e-12, atol=1e-12, equal_nan=True) or \
                    not np.allclose(gotm, expm, rtol=1e-12, atol=1e-12):
                chk.fail("grouping a table gives the same result whatever container / number type holds it (total, weighted sum and bins "
                         "are those of the table's values)", inp, exp.tolist()[:6], np.asarray(got).tolist()[:6], clause="container")
            else:
                interval_oracles(chk, [tuple(float(v) for v in row) for row in rows], binby, "n", n, _rows_out(got), inp)
        chk.nontriv(repr((rows, binby, n)))
    # ---- entry points: TimeSeries / GUI data path ------------------------------------------------------------------------------
    from qats import TimeSeries
    from qats.app.funcs import calculate_rfc
    for _ in range(10 if chk.quick else 100):
        n = rng.choice([50, 200])
        x = np.array([rng.randint(-40, 40) / 4 for _ in range(n)])
        ts = TimeSeries("s", np.arange(n, dtype=float), x)
        cyc = count_cycles(x)
        if len(cyc) == 0:
            continue
        nb = rng.choice([1, 5, 256])
        chk.count("calculate_rfc")
        inp = dict(kind="calculate_rfc", x=x.tolist(), nb=nb)
        try:
            r, c = calculate_rfc({"s": ts}, (0.0, float(n)), None, nb)["s"]
            exp = rebin(cyc, binby="range", n=nb)
        except Exception as e:
            chk.fail("GUI cycle histogram must not raise for a series with cycles", inp, "histogram", "%s: %s" % (type(e).__name__, str(e)[:80]),
                     clause="raise")
            continue
        if not (len(r) == len(exp) and np.allclose(np.array(r), exp[:, 0]) and np.allclose(np.array(c), exp[:, 2]) and abs(sum(c) - cyc[:, 2].sum()) < 1e-9):
            chk.fail("GUI cycle histogram == rebin(count_cycles(x), n): (range mid-points, counts), total conserved",
                     inp, [exp[:, 0].tolist()[:5], exp[:, 2].tolist()[:5]], [list(r)[:5], list(c)[:5]])
    # ---- audit streams: spelling, boundary values, histories, entry points (all judged by the exact-rational reference) ---------------------
    for label, gen, k in (("case-spelling", gen_case_spelling, 700 if chk.quick else 8000),
                          ("case-boundary", gen_case_boundary, 700 if chk.quick else 8000),
                          ("hist", gen_hist, 300 if chk.quick else 3000),
                          ("entry", gen_entry, 60 if chk.quick else 400)):
        for _ in range(k):
            inp = gen(rng)
            chk.count(label)
            if inp["kind"] == "case":
                chk.dist("%s:%s" % (label, inp["form"] if label == "case-spelling" else inp["op"]))
                if label == "case-spelling":
                    chk.dist("args:%s" % inp["spec"].get("style"))
                if len(inp["table"]) >= 2:
                    chk.nontriv(repr(inp))
            elif inp["kind"] == "hist":
                chk.dist("hist:%s" % inp["form"])
                chk.nontriv(repr(inp))
            else:
                chk.dist("entry:%s%s" % (inp["method"], "+then" if inp.get("then") else ""))
                chk.nontriv(repr(inp))
            EVAL[inp["kind"]](chk, inp)
    # ---- large tables: 999 .. 70001 rows (around 1000 / 1024 / 4096 / 10000, beyond 65536), 1 .. 4097 bins ---------------------------------
    for inp in gen_big(rng, chk.quick):
        chk.count("big")
        chk.dist("big:rows=%d:%s" % (inp["rows"], inp["order"]))
        chk.nontriv(("big", inp["rows"], inp["seed"]))
        eval_big(chk, inp)


def replay(rp):
    from qats.fatigue.rainflow import rebin
    inp = rp["input"]
    if inp.get("kind") in EVAL:
        sink = Sink()
        EVAL[inp["kind"]](sink, inp)
        print("replay: %d failing clause(s)" % len(sink.failing))
        return 1 if sink.failing else 0
    if inp.get("kind") == "calculate_rfc":
        from qats import TimeSeries
        from qats.app.funcs import calculate_rfc
        from qats.fatigue.rainflow import count_cycles
        x = np.array(inp["x"], dtype=float)
        sink = Sink()
        try:
            r, c = calculate_rfc({"s": TimeSeries("s", np.arange(len(x), dtype=float), x)}, (0.0, float(len(x))), None, inp["nb"])["s"]
            t = [tuple(float(v) for v in row) for row in count_cycles(x)]
            all_rebin_oracles(sink, t, "range", "n", inp["nb"], [[float(a), None, float(b)] for a, b in zip(r, c)], inp, secondary=False)
        except Exception as e:
            sink.fail("GUI cycle histogram must not raise for a series with cycles", inp, "histogram", "%s: %s" % (type(e).__name__, e))
        print("replay: %d failing clause(s)" % len(sink.failing))
        return 1 if sink.failing else 0
    if "nr" in inp and "kind" not in inp:
        from qats.fatigue.rainflow import mesh
        t = [tuple(float(Fraction(v)) if isinstance(v, str) else float(v) for v in row) for row in inp["table"]]
        sink = Sink()
        try:
            res = mesh(np.array(t), nr=inp["nr"], nm=inp["nm"])
            print(np.asarray(res[2]))
            mesh_oracles(sink, t, inp["nr"], inp["nm"], res, inp)
        except Exception as e:
            sink.fail("mesh must not raise on a valid table", inp, "table", "%s: %s" % (type(e).__name__, e))
        print("replay: %d failing clause(s)" % len(sink.failing))
        return 1 if sink.failing else 0
    if inp.get("kind") == "container":
        from qats.fatigue.rainflow import mesh
        rows = [tuple(eval(v, {"__builtins__": {}}) for v in row) for row in inp["table"]]
        ref = np.array([[float(v) for v in row] for row in rows])
        mk = {"list of tuples": lambda: [tuple(r) for r in rows], "list of lists": lambda: [list(r) for r in rows],
              "tuple of tuples": lambda: tuple(tuple(r) for r in rows), "ndarray of integers": lambda: np.array(rows, dtype=int),
              "ndarray of floats": lambda: ref.copy()}[inp["form"]]
        try:
            exp = rebin(ref, binby=inp["binby"], n=inp["n"])
            expm = mesh(ref.copy(), nr=inp["n"], nm=2)[2]
            got = rebin(mk(), binby=inp["binby"], n=inp["n"])
            gotm = mesh(mk(), nr=inp["n"], nm=2)[2]
            bad = 0 if np.shape(got) == np.shape(exp) and np.allclose(got, exp, equal_nan=True) and np.allclose(gotm, expm) else 1
            print("expected", exp.tolist(), "observed", np.asarray(got).tolist())
            sink = Sink()
            interval_oracles(sink, [tuple(float(v) for v in row) for row in rows], inp["binby"], "n", inp["n"], _rows_out(got), inp)
            bad += len(sink.failing)
        except Exception as e:
            print("raised", type(e).__name__, e)
            bad = 1
        print("replay: %d failing clause(s)" % bad)
        return 1 if bad else 0
    if inp.get("kind") == "history":
        from qats.fatigue.rainflow import mesh
        ft = [tuple(float(Fraction(v)) for v in row) for row in inp["table"]]
        arr, bad = np.array(ft), 0
        sink = Sink()
        try:
            for op, n in inp["ops"]:
                if op == "mesh":
                    got, exp = mesh(arr, nr=n, nm=2)[2], mesh(np.array(ft), nr=n, nm=2)[2]
                else:
                    got, exp = rebin(arr, binby=op, n=n), rebin(np.array(ft), binby=op, n=n)
                    all_rebin_oracles(sink, ft, op, "n", n, _rows_out(got), inp)
                same = np.allclose(got, exp, equal_nan=True)
                print(op, n, "same as on a fresh copy of the table:", same)
                bad += 0 if same else 1
        except Exception as e:
            print("raised", type(e).__name__, e)
            bad += 1
        bad += len(sink.failing)
        print("replay: %d failing clause(s)" % bad)
        return 1 if bad else 0
    t = [tuple(float(Fraction(v)) if isinstance(v, str) else float(v) for v in row) for row in inp["table"]]
    kw = dict(n=int(inp["value"])) if inp["kind"] == "n" else dict(w=float(Fraction(inp["value"])) if isinstance(inp["value"], str) else float(inp["value"]))
    try:
        out = rebin(np.array(t), binby=inp["binby"], **kw)
    except Exception as e:
        print("raised", type(e).__name__, e)
        print("replay: 1 failing clause(s)")
        return 1
    print(out)
    tot, btot = sum(c for _, _, c in t), float(np.nansum(out[:, 2]))
    print("table total", tot, "binned total", btot)
    bad = 0 if abs(tot - btot) <= 1e-9 * max(1, tot) else 1
    sink = Sink()
    try:
        all_rebin_oracles(sink, t, inp["binby"], inp["kind"], list(kw.values())[0], _rows_out(out), inp)
    except Exception as e:
        sink.fail("rebin returns rows (range, mean, count)", inp, "(bins, 3)", "%s: %s" % (type(e).__name__, e))
    bad = max(bad, len(sink.failing))
    print("replay: %d failing clause(s)" % bad)
    return 1 if bad else 0
