"""C15, stream `strict`: the inverse cdf in a process where numpy raises on floating-point errors and warnings are errors
(np.seterr(all='raise'), pytest -W error).  The end-point clauses of the property (1 -> upper end of the support, values outside [0, 1]
-> nan) and the agreement of scalar / array evaluation must not depend on that state.  Only arguments whose evaluation is free of
floating-point events on the unchanged tree are used (p = 0 takes log(0) = -inf in the Gumbel formulas, far tails under/overflow in exp:
these are left to the default-state streams)."""
import numpy as np

from .. import core

PS = [1.0, -0.25, 1.5, 0.5, 0.3, 1 - 2.0 ** -53, 2.0, -1e-300]


def _make(kind, par):
    from qats.stats.gumbel import Gumbel
    from qats.stats.gumbelmin import GumbelMin
    from qats.stats.weibull import Weibull
    return {"wb": Weibull, "gu": Gumbel, "gm": GumbelMin}[kind](*par)


def eval_case(case):
    kind, par = case["dist"], tuple(case["params"])
    bad = []
    p = np.array(case["p"], dtype=float)
    ref = np.asarray(_make(kind, par).invcdf(p=p.copy()), dtype=float)          # default state
    for how in ("array", "scalar", "list"):
        try:
            with core.strict_env():
                o = _make(kind, par)
                if how == "array":
                    got = np.asarray(o.invcdf(p=p.copy()), dtype=float)
                elif how == "list":
                    got = np.asarray(o.invcdf(p=[float(v) for v in p]), dtype=float)
                else:
                    got = np.array([float(np.asarray(o.invcdf(p=float(v))).ravel()[0]) for v in p])
        except Exception as e:      # noqa
            bad.append(("invcdf maps 1 to the upper end of the support and values outside [0, 1] to nan also when numpy raises on "
                        "floating-point errors and warnings are errors (%s argument)" % how, ref.tolist(), "raised %s: %s" % (type(e).__name__, e)))
            continue
        if got.shape != ref.shape or not np.allclose(got, ref, rtol=1e-12, atol=0, equal_nan=True):
            bad.append(("invcdf does not depend on numpy's error state (%s argument)" % how, ref.tolist(), got.tolist()))
    # the end-point clauses themselves
    for v, r in zip(p, ref):
        if v == 1.0 and not (np.isinf(r) and r > 0):
            bad.append(("invcdf(1) is the upper end of the support", "inf", float(r)))
        if (v < 0 or v > 1) and not np.isnan(r):
            bad.append(("invcdf of a value outside [0, 1] is nan", "nan", float(r)))
    return bad


def run_strict(chk):
    rng = chk.rng
    for _ in range(9 if chk.quick else 60):
        kind = rng.choice(["wb", "gu", "gm"])
        loc, scale = rng.choice([0.0, 1.0, -12.5]), rng.choice([1.0, 2.0, 0.25, 40.0])
        par = [loc, scale, rng.choice([0.5, 1.0, 2.0, 3.6])] if kind == "wb" else [loc, scale]
        ps = PS[:]
        rng.shuffle(ps)
        case = dict(check="strict", dist=kind, params=par, p=ps[:rng.randint(3, len(ps))])
        if 1.0 not in case["p"]:
            case["p"].append(1.0)
        chk.count("strict")
        chk.nontriv(("strict", kind, tuple(par), tuple(case["p"])))
        try:
            bad = eval_case(case)
        except Exception as e:      # noqa
            bad = [("the inverse cdf can be evaluated in the default state", "values", "raised %s: %s" % (type(e).__name__, e))]
        for clause, exp, obs in bad[:1]:
            chk.fail(clause, case, exp, obs)


def replay_strict(case):
    bad = eval_case(case)
    for clause, exp, obs in bad:
        print("FAILS: %s | expected %s | observed %s" % (clause, exp, obs))
    print("replay: %d failing clause(s)" % len(bad))
    return 1 if bad else 0
