"""C09, oracle stream `big`: selection by name in LARGE databases (33 ... 300 series over one to three .pkl files, several files
sharing channel names, names with unit brackets incl. '/' inside brackets, parentheses, carets, spaces).  Independent of the Lean
model: the reference is c09.reference_all (only * and ? are special; by pattern, then by registration order).

Clauses: the listing is the registered keys in registration order; every series at the watched positions (first, last, 31-33,
63-65, 127-129, 255-257, a few random) is selected by its full key, and by its listed relative name exactly as the reference says
(itself, plus the series of other files that carry the same relative name -- none for the names unique by construction); single
retrieval and containment agree with the listing (one match: that series, recognised by its data; none: LookupError; several:
ValueError); wildcard patterns and lists of patterns built from the names select exactly the reference's keys in its order, through
list / getm / getl."""
import os
import random
import shutil
import tempfile

import numpy as np

SIZES = [33, 65, 129, 300, 64, 128, 257]
EDGES = (0, 1, 31, 32, 33, 63, 64, 65, 127, 128, 129, 255, 256, 257)
STEMS = ["Tension", "acc(1)", "a", "x y", "Heave", "m_1-2.5", "z^2", "T", "Moment.y", "Line-1 force"]
UNITS = ["", " [kN]", " [N]", " [kN/m]", "[m/s^2]", " [g]", " [-]", " (m)", " [deg]", "[rad/s]", " [m^2 s/rad]", " [kNm]"]
LAYOUTS = [["f.pkl"], ["f.pkl", "g.pkl"], ["d1/f.pkl", "d2/f.pkl"], ["d1/f.pkl", "d2/f.pkl", "d1/g.pkl"], ["f.pkl", "sub/f.pkl"]]

T_LIST = "selecting by names returns exactly the registered series whose name (or full key) matches the pattern, ordered by pattern and then by registration order"
T_OWN = "every registered series can be selected unambiguously by its own listed relative name and by its full key"
T_SINGLE = "containment and single retrieval agree with the listing (no match: lookup error; several: value error)"


def build(case, root):
    """-> (db, keys, value of each key)"""
    import pandas as pd
    from qats import TsDB
    r = random.Random(case["seed"])
    files = LAYOUTS[case["layout"]]
    K = case["k"]
    per = [K // len(files) + (1 if i < K % len(files) else 0) for i in range(len(files))]
    pool = []
    q = 0
    while len(pool) < K:
        q += 1
        pool.append("%s_%d%s" % (STEMS[q % len(STEMS)], q, UNITS[(q // 3) % len(UNITS)]))
    r.shuffle(pool)
    keys, vals, paths = [], {}, []
    start = 0
    for i, (rel, cnt) in enumerate(zip(files, per)):
        names = pool[start:start + cnt]
        start += cnt
        if i > 0 and case["shared"]:
            # several files share channel names: the first / last / some middle names of the first file
            first = pool[:per[0]]
            bare = [nm for nm in first if not any(c in nm for c in "[]()^")]
            for pos, src in zip((0, cnt - 1, cnt // 2, cnt // 3), (first[0], first[-1], first[len(first) // 2], (bare or first)[-1])):
                if src not in names:
                    names[pos] = src
        path = os.path.join(root, rel)
        os.makedirs(os.path.dirname(path), exist_ok=True)
        t = np.arange(3, dtype=float)
        df = pd.DataFrame({nm: 10000.0 * (i + 1) + j + t / 4 for j, nm in enumerate(names)})
        df.index = t
        df.to_pickle(path)
        paths.append(path)
        for j, nm in enumerate(names):
            keys.append(path + os.path.sep + nm)
            vals[keys[-1]] = 10000.0 * (i + 1) + j
    db = TsDB()
    if case["oneload"]:
        db.load(paths)
    else:
        for p in paths:
            db.load(p)
    return db, keys, vals


def eval_case(case, limit=4):
    from .c09 import reference_all, ref_common, dedup
    bad = []
    root = tempfile.mkdtemp(prefix="qv09b_")
    try:
        try:
            db, keys, vals = build(case, root)
            listed = list(db.list(display=False))
            rels = list(db.list(display=False, relative=True))
        except Exception as e:      # noqa
            return [("a database of many series can be built and listed", {}, "listing", "raised %s: %s" % (type(e).__name__, str(e)[:200]))]
        if listed != keys or list(db.register_keys) != keys:
            return [(T_LIST, dict(query="list()"), "%d keys in registration order" % len(keys), "%d keys%s" % (
                len(listed), "" if len(listed) != len(keys) else ", first difference at %d" % next(
                    i for i, (a, b) in enumerate(zip(listed, keys)) if a != b)))]
        r = random.Random(case["seed"] + 1)
        n = len(keys)
        common = ref_common(keys)
        pos = {p for p in EDGES if p < n} | {n - 1, n - 2} | {r.randrange(n) for _ in range(4)}
        tails = [k.rsplit(".pkl" + os.path.sep, 1)[-1] for k in keys]
        pos = sorted(pos | {p for p in range(n) if tails.count(tails[p]) > 1})        # channel names that several files carry

        def show(ks):
            return [k[len(root):] for k in ks][:8] + (["... %d in all" % len(ks)] if len(ks) > 8 else [])

        def sel(arg, how="list"):
            if how == "list":
                return list(db.list(names=arg, display=False))
            if how == "getm":
                return list(db.getm(names=arg, store=False, fullkey=True).keys())
            return [next(k for k in keys if vals[k] == float(ts.x[0])) for ts in db.getl(names=arg, store=False)]

        def query(arg, how, clause):
            exp = reference_all(keys, arg)
            try:
                got = sel(arg, how)
            except Exception as e:      # noqa
                bad.append((clause, dict(query=how, arg=arg), show(exp), "raised %s: %s" % (type(e).__name__, str(e)[:160])))
                return None
            if dedup(got) != exp or (how != "list" and got != exp):
                bad.append((clause, dict(query=how, arg=arg, n=n), show(exp), show(got)))
                return None
            return exp

        for p in pos:
            key = keys[p]
            relname = rels[p]
            if common and key != os.path.join(common, relname):
                bad.append((T_OWN, dict(position=p, n=n), key[len(root):], "listed relative name " + relname))
                break
            for arg in (key, relname):
                exp = query(arg, r.choice(["list", "list", "getm", "getl"]), T_OWN if arg == key else T_LIST)
                if exp is None:
                    break
                # single retrieval and containment agree with the listing
                try:
                    inside = arg in db
                    try:
                        one = db.get(name=arg, store=False)
                        out = float(one.x[0])
                    except Exception as e:      # noqa
                        out = type(e)
                    want = vals[exp[0]] if len(exp) == 1 else ValueError if len(exp) > 1 else LookupError
                    okk = (isinstance(out, type) and issubclass(out, want)) if isinstance(want, type) else out == want
                    if not okk or inside != (len(exp) > 0):
                        bad.append((T_SINGLE, dict(name=arg if arg == relname else arg[len(root):], position=p, n=n, matches=len(exp)),
                                    dict(get=str(want), contains=len(exp) > 0), dict(get=str(out), contains=inside)))
                        break
                except Exception as e:      # noqa
                    bad.append((T_SINGLE, dict(name=arg, position=p), "answer", "raised %s: %s" % (type(e).__name__, str(e)[:160])))
                    break
            if len(bad) >= limit:
                return bad
        # wildcard patterns and lists of patterns built from the names
        names = [k.rsplit(".pkl" + os.path.sep, 1)[-1] for k in keys]
        pats = []
        for p in r.sample(pos, min(len(pos), 6)):
            nm = names[p]
            stem = nm.split("_")[0]
            pats += [stem + "_*", nm[:-1] + "?", "*" + nm[len(stem):], nm.split(" ")[0] + "*"]
        pats += ["*[[]kN[]]", "*(1)*", "*^2*", "f.pkl" + os.path.sep + "*", "*_1?", "*_%d*" % (n // 2), "no_such_series*", "*"]
        pats = [q for q in pats if "[[]" not in q] + ["*[kN]", "*[m/s^2]"]
        r.shuffle(pats)
        for q in pats[:14]:
            if query(q, r.choice(["list", "list", "getm", "getl"]), T_LIST) is None and len(bad) >= limit:
                return bad
        for _ in range(6):
            lst = r.sample(pats, r.randint(2, 3)) if r.random() < 0.5 else [names[p] for p in r.sample(pos, min(len(pos), r.randint(2, 5)))]
            if query(lst, r.choice(["list", "getm", "getl"]), T_LIST) is None and len(bad) >= limit:
                return bad
    finally:
        shutil.rmtree(root, ignore_errors=True)
    return bad


def gen_cases(rng, quick):
    ks = list(SIZES[:4]) if quick else SIZES * 4
    rng.shuffle(ks)
    out = []
    for i, k in enumerate(ks):
        # quick: three of the four databases span several files, and those share channel names
        layout = rng.randrange(len(LAYOUTS)) if (not quick or i == 0) else rng.randrange(1, len(LAYOUTS))
        out.append(dict(kind="big", k=k, layout=layout, shared=(quick and i > 0) or rng.random() < 0.6, oneload=rng.random() < 0.5,
                        seed=rng.randrange(10 ** 6)))
    return out


def run_big(chk):
    for case in gen_cases(chk.rng, chk.quick):
        chk.count("big-selection")
        chk.dist("big: k=%d files=%d" % (case["k"], len(LAYOUTS[case["layout"]])))
        try:
            bad = eval_case(case)
        except Exception as e:      # noqa
            bad = [("selection in a large database can be evaluated", {}, "result", "raised %s: %s" % (type(e).__name__, str(e)[:300]))]
        chk.nontriv(("big", case["k"], case["seed"]))
        for clause, detail, exp, obs in bad[:1]:
            chk.fail(clause, dict(case, detail=detail), exp, obs, clause="big")


def replay_big(inp):
    case = {k: v for k, v in inp.items() if k != "detail"}
    bad = eval_case(case, limit=5)
    for clause, detail, exp, obs in bad[:5]:
        print("FAILS: %s: %s\n   expected %s\n   observed %s" % (clause, detail, str(exp)[:300], str(obs)[:300]))
    print("replay: %d failing clause(s)" % len(bad))
    return 1 if bad else 0
