"""C01, oracle stream `gaps`: files that hold missing values (an empty csv cell, `nan` in a text column, NaN in a binary container).
A gap is part of what the file stores under that name: the series read back must have the full length, NaN exactly where the file
has a gap, the written value everywhere else, and its own time array — for every subset of names, in every request order, read
alone or together with the series holding the gap, cached or not.  Independent of the Lean model (value oracle only)."""
import os
import tempfile

import numpy as np


def _write(root, fmt, variant, t, names, cols):
    path = os.path.join(root, "gaps_%s_%s.%s" % (fmt, variant, fmt))
    if fmt == "csv":
        with open(path, "w") as f:
            f.write(",".join(["time"] + names) + "\n")
            for i in range(len(t)):
                cells = [repr(float(t[i]))] + [("" if variant == "empty" else "nan") if np.isnan(c[i]) else repr(float(c[i])) for c in cols]
                f.write(",".join(cells) + "\n")
    elif fmt == "dat":
        with open(path, "w") as f:
            f.write("  ".join(["time"] + names) + "\n")
            for i in range(len(t)):
                f.write("  ".join([repr(float(t[i]))] + ["nan" if np.isnan(c[i]) else repr(float(c[i])) for c in cols]) + "\n")
    elif fmt == "pkl":
        import pandas as pd
        df = pd.DataFrame({nm: c for nm, c in zip(names, cols)})
        df.index = t
        df.to_pickle(path)
    elif fmt == "h5":
        import h5py
        with h5py.File(path, "w") as f:
            for nm, c in zip(names, cols):
                d = f.create_dataset(nm, data=c)
                d.attrs["start"] = float(t[0])
                d.attrs["delta"] = float(t[1] - t[0])
                d.attrs["name"] = nm
    elif fmt == "ts":
        from qats.io.direct_access import write_ts_data
        write_ts_data(path, t, {nm: (t, c) for nm, c in zip(names, cols)})
    return path


def _requests(rng, names):
    k = len(names)
    reqs = [list(names), list(reversed(names))]
    for nm in names:
        reqs.append([nm])
    for _ in range(3):
        reqs.append(rng.sample(names, rng.randint(1, k)))
    return reqs


def gen_case(rng):
    fmt = rng.choice(["csv", "csv", "dat", "pkl", "h5", "ts"])
    variant = rng.choice(["empty", "nan"]) if fmt == "csv" else "nan"
    n = rng.choice([3, 5, 8, 12])
    k = rng.choice([2, 3, 4])
    names = ["s%d" % j for j in range(k)]
    rng.shuffle(names)
    gaps = {}
    for j in rng.sample(range(k), rng.choice([1, 1, 2])):
        gaps[j] = sorted(rng.sample(range(n), rng.choice([1, 1, 2])))
    return dict(kind="gaps", fmt=fmt, variant=variant, n=n, names=names, gaps={str(j): v for j, v in gaps.items()},
                store=rng.choice([True, False]), seed=rng.randrange(10 ** 6))


def eval_case(case):
    """[(clause, detail, expected, observed)]"""
    import random
    from qats import TsDB
    rng = random.Random(case["seed"])
    fmt, n, names = case["fmt"], case["n"], case["names"]
    t = np.arange(n) * 0.5
    cols = []
    for j in range(len(names)):
        c = np.array([100.0 * (j + 1) + i + 0.25 for i in range(n)])
        for i in case["gaps"].get(str(j), []):
            c[i] = np.nan
        cols.append(c)
    bad = []
    root = tempfile.mkdtemp(prefix="qv01g_")
    try:
        path = _write(root, fmt, case["variant"], t, names, cols)
        tol = 1e-5 if fmt == "ts" else 0.0
        for req in _requests(rng, names):
            for fresh in (True, False):
                try:
                    db = TsDB.fromfile(path)
                    if not fresh:
                        db.getm(names=[names[0]], store=True)      # something was read (and cached) before
                    got = db.getm(names=req, store=case["store"])
                except Exception as e:      # noqa
                    bad.append(("a file holding gaps can be read", dict(request=req, fresh=fresh), "series",
                                "raised %s: %s" % (type(e).__name__, e)))
                    continue
                by_name = {os.path.basename(k_): v for k_, v in got.items()}
                for nm in req:
                    ts = by_name.get(nm)
                    exp = cols[names.index(nm)]
                    if ts is None:
                        bad.append(("every requested series is returned", dict(request=req, fresh=fresh, name=nm), nm, sorted(by_name)))
                        continue
                    x, tt = np.asarray(ts.x, dtype=float), np.asarray(ts.t, dtype=float)
                    ok = x.shape == exp.shape and np.array_equal(np.isnan(x), np.isnan(exp)) and \
                        np.allclose(x[~np.isnan(exp)], exp[~np.isnan(exp)], rtol=tol, atol=0.0)
                    okt = tt.shape == t.shape and np.allclose(tt, t, rtol=tol, atol=0.0)
                    if not (ok and okt):
                        bad.append(("a series read from a file with gaps holds the stored samples (NaN exactly at the gaps, full "
                                    "length, own time array), whatever else is requested with it",
                                    dict(request=req, fresh=fresh, name=nm), [t.tolist(), exp.tolist()], [tt.tolist(), x.tolist()]))
    finally:
        import shutil
        shutil.rmtree(root, ignore_errors=True)
    return bad


def run_gaps(chk):
    for _ in range(10 if chk.quick else 60):
        case = gen_case(chk.rng)
        chk.count("gaps")
        chk.dist("gaps:%s/%s" % (case["fmt"], case["variant"]))
        try:
            bad = eval_case(case)
        except Exception as e:      # noqa
            bad = [("a file holding gaps can be evaluated", {}, "result", "raised %s: %s" % (type(e).__name__, e))]
        chk.nontriv(("gaps", case["fmt"], case["variant"], case["n"], tuple(case["names"]), str(case["gaps"])))
        for clause, detail, exp, obs in bad[:1]:
            chk.fail(clause, dict(case, detail=detail), exp, obs)


def replay_gaps(inp):
    case = {k: v for k, v in inp.items() if k != "detail"}
    bad = eval_case(case)
    for clause, detail, exp, obs in bad[:5]:
        print("FAILS: %s: %s\n   expected %s\n   observed %s" % (clause, detail, str(exp)[:300], str(obs)[:300]))
    print("replay: %d failing clause(s)" % len(bad))
    return 1 if bad else 0
