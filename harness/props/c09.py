"""
C09 — selecting series by name is literal, complete and ordered.

Tie: correspondence of `TsDB.list(names, relative)`, `get(name)` (key or error kind), `name in db`, `getm` keys and `common`
with `Qats.Names` on databases built from generated files (names over the property's alphabet: letters, digits, `_ - .`
space `[ ] ( ) ^` and `/` inside brackets) in one or several directories plus in-memory series; also the string functions
themselves (`fnmatch` of escaped patterns, `_remove_special_characters`) against the Python originals.
Search: literal / complete / ordered / self-selection / retrieval-order clauses on the real database, on freshly built databases
and after operation histories (query, read-and-store, rename, clear, add, update, load of a further file).

Every database is described by a JSON `spec` (files with their column names, in-memory series, history of operations) and is
rebuilt from it on replay under the same temporary root, so that keys and patterns are identical.

Round 3: name families (one quantity in several units / several quantities in one unit, all names bracketed), purely in-memory
databases, new names of rename / add drawn from the same family; clause "'*' selects all"; an exception of a listing is a failing
clause, not a harness error.  This exposed F23 (common path cut inside a unit bracket) and F24 (relative + absolute keys mixed).

Audit after round 3 (classes of inputs, not particular changes):
* spelling — patterns passed positionally / by keyword, as `[p]` / `(p,)` / `numpy.str_`, with `display=True`, with `relative=True`;
  every public entry point that selects by names (`getd`, `getda`, `getl`, `geta`, `stats`, `copy`, `update(names=)`, `clear(names=)`,
  `rename(pattern)`, `to_dataframe`, `qats.app.funcs.read_timeseries`, iteration, `TimeSeries in db`, the GUI's `join(common, relative)`);
  files loaded by absolute / relative / un-normalised path, as a string, in one call, through `TsDB.fromfile`, with `read=True`;
  directory and file names with parentheses, spaces, dots and carets, deeper nesting, files under two different top-level
  directories (common path `/`);
* boundary — the empty pattern, the empty pattern list, wildcard-only patterns, the common path itself as a pattern, patterns with the
  other letter case, wildcards in the place of the special characters, names that are a prefix / suffix / case variant of another name
  or resemble the file or directory name;
* histories — the clauses are evaluated after EVERY step of a history on one database object (the same patterns asked again after
  each mutation), the same pattern list object is used twice, rejected operations (no match, ambiguous, clash) are part of the
  histories, selections by pattern (`copy`, `clear`) produce the next state;
* references — the reference matcher computes the common path from the keys with its own code (not `db.common`);
* crashes — an exception while building a database or running a history step is a failing clause.

Round 5 (aliasing of what the database hands out): every listing / container a selection returns (`list()` in all its spellings, with
and without patterns, relative; `getm` / `getd` containers; `getl`) is edited in place by the caller (sort / reverse / trim / pop /
clear / append / overwrite / rotate) — a history step that registers and removes nothing — and the clauses are evaluated again against
the harness's own record of the registration order taken BEFORE the step (not `db.register_keys` read afterwards): the complete listing,
`'*'`, the relative listing, the common path, `getm` keys, containment and single retrieval of every key, iteration.  Query kind
`owned`, asked of every database state (also after every step of the staged histories).
"""
import contextlib
import fnmatch as pyfnmatch
import io
import os
import re
import shutil
import tempfile

import numpy as np

from .. import core
from ..dbutil import Files, err_enum, hx, hxlist, unhx, unhxlist

RULE = ("seeded key sets: 1-3 generated files in 1-2 directories (incl. same file name in a sub-directory, same channel names in "
        "several files; directory / file names with ( ) ^ . space; deeper nesting; two top-level roots) with 1-4 series each, loaded "
        "by absolute / relative / un-normalised path, as str or list, in one call, via fromfile, read=True; names from the property's "
        "alphabet incl. unit brackets with '/' — from a fixed pool (incl. prefixes / case variants of other names, names resembling the "
        "file name) or composed as quantity+unit (1-2 quantities x 2-4 units: every name identical in front of the bracket, units "
        "agreeing up to a '/'), optionally in-memory series, also purely in-memory databases; optionally a history of 1-4 operations "
        "(query / get+store / getm+store / rename / clear / clear by pattern / add / update / load / copy by pattern / iterate / "
        "rejected operations) before the queries, in the staged group with the queries asked after every step; patterns: names=None, "
        "every name, full key, listed relative name, fragments with * and ?, wildcards in the place of special characters, other "
        "letter case, empty / wildcard-only / common-path patterns, pattern lists of 0-3 (also in non-registration order); every "
        "spelling and entry point on a sample of them; non-trivial = pattern with a special character or wildcard; distinct by "
        "(key set, pattern); eighth round (stream `big`, c09_big.py, oracles only): 4 (quick) / 28 (thorough) databases of 33 / 65 / 129 / "
        "300 (64 / 128 / 257) series over 1-3 .pkl files (layouts incl. the same file name in two directories), names stem_number unit "
        "(brackets with '/', parentheses, carets, spaces), 60% with channel names shared between the files (first / last / middle): "
        "listing, then for the positions first / last / 31-33 / 63-65 / 127-129 / 255-257 / 4 random: full key and listed relative "
        "name through list / getm / getl, single retrieval and containment against the reference, 14 wildcard patterns and 6 lists "
        "of patterns / exact names")

POOL = ["a", "b", "Tension [kN/m]", "Moment [kNm]", "x y", "Acc(1)", "z^2", "m_1-2.5", "T [kN/m]", "Heave (m)", "[raw]", "a b [m/s^2]",
        "Force", "force_2", "A", "p[0]", "q]",
        # names that are a prefix / suffix / case variant of another name, or resemble the file / directory name
        "y", "force", "Tension", "tension [kN/m]", "f.pkl", "sub", "x y ", "Acc(1) [m/s^2]", "2", "z^2 [m^2]"]
NEWNAMES = POOL + ["renamed_series", "Sway (lf) [m]", "Surge^2 [m^2]", "added_1"]
# names composed as <quantity><separator><unit>: the same quantity in several units, several quantities in one unit; a database whose
# names ALL carry a unit bracket (the bracket-aware path helpers and the common path then see nothing but bracketed keys)
STEMS = ["Tension", "acc(1)", "a", "x y", "Heave", "m_1-2.5", "z^2", "T", "Moment.y", "Line-1 force"]
UNITS = ["[kN]", "[N]", "[kN/m]", "[N/m]", "[m/s^2]", "[g]", "[-]", "[m]", "[deg]", "[rad/s]", "[m^2 s/rad]", "(m)", "[kNm]"]
# units that agree up to a '/' inside the bracket (kept apart: F23)
UNITS_SLASH = ["[m/s]", "[m/s^2]", "[kN/m]", "[kN/m^2]", "[deg/s]", "[deg/s^2]"]
LAYOUTS = [["f.pkl"], ["f.pkl", "g.pkl"], ["f.pkl", "sub/f.pkl"], ["d1/f.pkl", "d2/f.pkl", "d1/g.pkl"],
           ["f.pkl", "sub/deep/f.pkl", "sub/f.pkl"], ["f (1).pkl", "f (2).pkl", "run^2 a/f.v2.pkl"], ["d1/f.pkl", "d10/f.pkl", "d1/f.pkl2.pkl"]]
DIRDECOR = ["", "", "", " (1)", ".v2", " run^2", "-a b"]
HOWS = ["list", "list", "list", "str", "rel", "dot", "read", "tuple"]
OP_ERRORS = (KeyError, ValueError, LookupError, TypeError)
ALT = "@/"                 # prefix of a file path placed under the second temporary root (another top-level directory)


# ---------------------------------------------------------------------------------------------------------------------------------
# temporary trees
# ---------------------------------------------------------------------------------------------------------------------------------
def alt_parent():
    """a writable directory whose top-level component differs from the one of the default temporary directory (or None)"""
    top = os.path.abspath(tempfile.gettempdir()).split(os.sep)[1]
    for d in ("/dev/shm", "/var/tmp", "/tmp"):
        if os.path.isdir(d) and os.access(d, os.W_OK) and os.path.abspath(d).split(os.sep)[1] != top:
            return d
    return None


class Tree(Files):
    """temporary tree with an optional second root below another top-level directory (common path '/')"""

    def __init__(self):
        Files.__init__(self)
        self.root2 = None

    def path(self, rel):
        if rel.startswith(ALT):
            if self.root2 is None:
                self.root2 = tempfile.mkdtemp(prefix="qv_", dir=alt_parent())
            return os.path.join(self.root2, rel[len(ALT):])
        return os.path.join(self.root, rel)

    def make(self, rel, names, n=4, seed=0):
        import pandas as pd
        path = self.path(rel)
        os.makedirs(os.path.dirname(path), exist_ok=True)
        t = np.arange(n, dtype=float)
        df = pd.DataFrame({nm: (100.0 * (seed + 1) + 10.0 * j + t) for j, nm in enumerate(names)})
        df.index = t
        df.to_pickle(path)
        return path

    def base(self, spec):
        return dict(root=self.root, root2=self.root2, spec=spec) if self.root2 else dict(root=self.root, spec=spec)

    def close(self):
        Files.close(self)
        if self.root2:
            shutil.rmtree(self.root2, ignore_errors=True)


class FixedFiles(Tree):
    """the temporary tree of a past run, re-created under the same root(s) (replay: keys and patterns stay identical)"""

    def __init__(self, root, root2=None):
        self.root, self.root2 = root, root2
        self.created = [r for r in (root, root2) if r and not os.path.exists(r)]
        for r in (root, root2):
            if r:
                os.makedirs(r, exist_ok=True)

    def close(self):
        for r in self.created:
            shutil.rmtree(r, ignore_errors=True)


# ---------------------------------------------------------------------------------------------------------------------------------
# scenario description (JSON) and its realisation on the real TsDB
# ---------------------------------------------------------------------------------------------------------------------------------
class Gen:
    """generator of database specs; directory names carry a running number so that two specs never share a file"""

    def __init__(self, rng):
        self.rng = rng
        self.ndir = 0
        self.spare = []          # further names of the family the last spec was drawn from (new names for rename / add)
        self.alt = alt_parent() is not None

    def newdir(self):
        self.ndir += 1
        return "c%04d%02d%s" % (self.ndir, self.rng.randrange(100), self.rng.choice(DIRDECOR))

    def family(self):
        """a pool of composed names: 1-2 quantities x 2-4 units (one quantity: every name identical in front of the bracket)"""
        rng = self.rng
        stems = rng.sample(STEMS, rng.choice([1, 1, 2]))
        units = rng.sample(UNITS_SLASH if rng.random() < 0.2 else UNITS, rng.choice([2, 3, 4]))
        sep = rng.choice([" ", " ", "", "_"])
        names = [s + sep + u for s in stems for u in units]
        if rng.random() < 0.2:
            names.append(rng.choice(stems))                       # the bare quantity next to its unit variants
        if rng.random() < 0.2:
            v = rng.choice(names)
            v = rng.choice([v.swapcase(), v.lower(), v.upper()])  # a name that differs from another one only in letter case
            if v not in names:
                names.append(v)
        rng.shuffle(names)
        self.spare = [s + sep + u for s in stems for u in UNITS + UNITS_SLASH if s + sep + u not in names]
        return names

    def spec(self, seed0=0, mem=True):
        rng = self.rng
        if rng.random() < 0.35:
            return self.spec_from(self.family(), seed0, mem)
        self.spare = []
        return self.spec_from(POOL, seed0, mem)

    def spec_from(self, POOL, seed0, mem):
        rng = self.rng
        if mem and rng.random() < 0.12:                           # purely in-memory database
            return dict(files=[], mem=rng.sample(POOL, min(len(POOL), rng.choice([1, 2, 3, 4]))))
        nfiles = rng.choice([1, 1, 2, 3])
        layout = rng.choice(LAYOUTS)[:nfiles]
        one_dir = rng.random() < 0.5                  # the layout inside one directory / every file in a directory of its own
        same_names = rng.random() < 0.4               # the same channels in every file (case files of one model)
        d0 = self.newdir()
        base = rng.sample(POOL, min(len(POOL), rng.choice([2, 3, 4])))
        altroot = self.alt and nfiles > 1 and rng.random() < 0.08    # the last file below another top-level directory
        files = []
        for i, rel in enumerate(layout):
            d = d0 if one_dir else self.newdir()
            if same_names:
                names = list(base)
                if rng.random() < 0.3:
                    rng.shuffle(names)
            else:
                names = rng.sample(POOL, min(len(POOL), rng.choice([1, 1, 2, 3, 4])))
            if rng.random() < 0.1:
                v = rng.choice(names).swapcase()
                if v not in names:
                    names.append(v)                   # two series of one file that differ only in letter case
            p = os.path.join(d, rel)
            if altroot and i == len(layout) - 1:
                p = ALT + p
            files.append([p, names, seed0 + i, rng.choice(HOWS)])
        spec = dict(files=files)
        if rng.random() < 0.1:
            spec["fromfile"] = True                   # the first file through TsDB.fromfile
        if nfiles > 1 and rng.random() < 0.15:
            spec["multi"] = True                      # all files in one load call
        if mem and rng.random() < 0.25:
            spec["mem"] = rng.sample(POOL, rng.choice([1, 2]))
        return spec

    def allnames(self, spec):
        return [n for f in spec["files"] for n in f[1]] + list(spec.get("mem", []))

    def history(self, spec, staged=False):
        rng = self.rng
        ops = []
        spare = list(self.spare)

        def newname():
            return rng.choice(spare) if spare and rng.random() < 0.6 else rng.choice(NEWNAMES)

        def somepat():
            nm = rng.choice(self.allnames(spec))
            return rng.choice(["*", nm, nm[:1] + "*", [nm[:1] + "*", "*"], [nm, nm[:1] + "*"], "*" + nm[-1:], (nm, "nomatch")])

        ntot = len(self.allnames(spec))
        if rng.random() < (0.25 if staged else 0.1) and 1 <= ntot <= 6:
            # the database is emptied and filled again with AS MANY series from a file in another directory (anything remembered
            # about the former keys -- their number, their common path -- is stale although the size is what it was)
            ops.append(["query"])
            if staged:
                ops.append(["ask", None])
            ops.append(["clearp", "*"])
            ops.append(["load", [os.path.join(self.newdir(), rng.choice(["f.pkl", "g.pkl", "h.pkl"])),
                                 rng.sample(POOL, ntot), 70 + len(ops), rng.choice(HOWS)]])
            if staged:
                ops.append(["ask", None])
        for _ in range(rng.choice([2, 3, 4]) if staged else rng.choice([1, 1, 2, 3])):
            kind = rng.choice(["query", "get", "get", "getm", "rename", "rename", "clear", "add", "update", "load",
                               "clearp", "copy", "iter", "bad", "renamep"])
            if kind == "query":
                ops.append(["query"])
            elif kind == "get":
                ops.append(["get", rng.randrange(8), rng.random() < 0.8])
            elif kind == "getm":
                nm = rng.choice(self.allnames(spec))
                ops.append(["getm", rng.choice(["*", nm, nm[:1] + "*", [nm[:1] + "*", "*"]]), rng.random() < 0.8])
            elif kind == "rename":
                ops.append(["rename", rng.randrange(8), newname()])
            elif kind == "renamep":
                nm = rng.choice(self.allnames(spec))
                ops.append(["renamep", rng.choice([nm, nm[:-1] + "?", nm[:1] + "*"]), newname()])
            elif kind == "clear":
                ops.append(["clear", rng.randrange(8)])
            elif kind == "clearp":
                p = somepat()
                ops.append(["clearp", list(p) if isinstance(p, tuple) else p])
            elif kind == "copy":
                p = rng.choice([None, "*", somepat(), somepat()])
                ops.append(["copy", list(p) if isinstance(p, tuple) else p, rng.random() < 0.5])
            elif kind == "iter":
                ops.append(["iter"])
            elif kind == "bad":
                ops.append(["bad", rng.choice(["get-none", "get-many", "rename-clash", "rename-many", "rename-none", "add-dup",
                                               "update-self", "getm-ind", "list-type", "get-type"]), rng.randrange(8)])
            elif kind == "add":
                ops.append(["add", newname(), 2000.0 + len(ops)])
            elif kind == "update":
                ops.append(["update", self.spec(seed0=10 * (len(ops) + 1)), rng.random() < 0.5])
            else:
                ops.append(["load", [os.path.join(self.newdir(), rng.choice(["f.pkl", "g.pkl", "h.pkl"])),
                                     rng.sample(POOL, rng.choice([1, 2, 3])), 50 + len(ops), rng.choice(HOWS)]])
            if staged:
                ops.append(["ask", None])
        return ops


class Crash(Exception):
    """an exception of the implementation while a database is built or a history step runs"""

    def __init__(self, step, exc):
        Exception.__init__(self, "%s: %s: %s" % (step, err_enum(exc), exc))
        self.step = step


def spelled(path, how):
    """the same file, written in another way"""
    if how == "rel":
        return os.path.relpath(path)
    if how == "dot":
        d, f = os.path.split(path)
        return os.path.join(d, ".", "..", os.path.basename(d), f)
    return path


def realise(fl, spec, hook=None):
    """build the database described by `spec`; returns (db, vals): vals[i] = first data value of the i-th registered series
    (tracked by the harness along the history: load/add/update append, rename keeps the position, clear / copy select), or None
    when the bookkeeping could not follow an operation.  `hook(db, vals, i, op)` is called at every `ask` step of the history (the
    queries of a staged scenario); without a hook the recorded queries of the step are asked again (replay).
    Raises `Crash` when the implementation raises something the operation is not entitled to."""
    from qats import TsDB, TimeSeries
    st = dict(db=TsDB(), vals=[])

    def load(files, first=False):
        paths, args = [], []
        for f in files:
            rel, names, seed = f[:3]
            how = f[3] if len(f) > 3 else "list"
            p = fl.make(rel, names, seed=seed)
            paths.append(p)
            args.append((spelled(p, how), how))
            st["vals"] += [100.0 * (seed + 1) + 10.0 * j for j in range(len(names))]
        try:
            if len(files) > 1:
                st["db"].load([a for a, _ in args])
            else:
                a, how = args[0]
                if first and spec.get("fromfile"):
                    st["db"] = TsDB.fromfile(a if how == "str" else [a])
                elif how == "str":
                    st["db"].load(a)
                elif how == "tuple":
                    st["db"].load((a,))
                elif how == "read":
                    st["db"].load([a], read=True)
                else:
                    st["db"].load([a])
        except Exception as e:
            raise Crash("load %r" % ([a for a, _ in args],), e)

    def add(nm, v):
        t = np.arange(3.0)
        try:
            st["db"].add(TimeSeries(nm, t, t + v))
            st["vals"].append(float(v))
        except KeyError:
            pass

    def select(newkeys, keys):
        """bookkeeping after an operation that keeps a selection of the series"""
        if st["vals"] is not None and len(set(newkeys)) == len(newkeys) and all(k in keys for k in newkeys):
            st["vals"] = [st["vals"][keys.index(k)] for k in newkeys]
        else:
            st["vals"] = None

    try:
        if spec.get("multi") and len(spec["files"]) > 1:
            load(spec["files"])
        else:
            for i, f in enumerate(spec["files"]):
                load([f], first=(i == 0))
        for j, nm in enumerate(spec.get("mem", [])):
            add(nm, 1000.0 + 10.0 * j)
    except Crash:
        raise
    except Exception as e:
        raise Crash("building the database", e)
    for i, op in enumerate(spec.get("hist", [])):
        db = st["db"]
        n = len(db.register_keys)
        keys = list(db.register_keys)
        try:
            if op[0] == "ask":
                if hook is not None:
                    hook(db, st["vals"], i, op)
                else:
                    scratch = core.Check("C09", "quick", 0)
                    for what, arg, rel in (op[1] or []):
                        evaluate(scratch, db, st["vals"], {}, what, arg, rel=rel)
            elif op[0] == "query":
                _ = db.common, db.list(display=False, relative=True), db.list(names="*", display=False)
            elif op[0] == "get" and n:
                db.get(name=keys[op[1] % n], store=op[2])
            elif op[0] == "getm":
                db.getm(names=op[1], store=op[2])
            elif op[0] == "iter":
                _ = [ts.name for ts in db]
            elif op[0] == "rename" and n:
                db.rename(keys[op[1] % n], op[2])
            elif op[0] == "renamep":
                db.rename(op[1], op[2])
            elif op[0] == "clear" and n:
                db.clear(names=keys[op[1] % n], display=False)
                if list(db.register_keys) == keys[:op[1] % n] + keys[op[1] % n + 1:]:
                    if st["vals"] is not None:
                        st["vals"].pop(op[1] % n)
                else:
                    st["vals"] = None
            elif op[0] == "clearp":
                db.clear(names=op[1], display=False)
                select(list(db.register_keys), keys)
            elif op[0] == "copy":
                new = db.copy(names=op[1], shallow=op[2])
                if new.register_keys:                    # (an empty selection is not continued with)
                    st["db"] = new
                    select(list(new.register_keys), keys)
            elif op[0] == "bad" and n:
                k = keys[op[2] % n]
                try:
                    if op[1] == "get-none":
                        db.get(name="nomatch")
                    elif op[1] == "get-many" and n > 1:
                        db.get(name="*")
                    elif op[1] == "rename-clash" and n > 1:
                        other = keys[(op[2] + 1) % n]
                        if ref_dirname(other) == ref_dirname(k):
                            db.rename(k, other[len(ref_dirname(other)):].lstrip("/"))
                    elif op[1] == "rename-many" and n > 1:
                        db.rename("*", "renamed_series")
                    elif op[1] == "rename-none":
                        db.rename("nomatch", "renamed_series")
                    elif op[1] == "add-dup":
                        nm = k[len(db.common):].lstrip("/") if db.common else k
                        db.add(TimeSeries(nm, np.arange(3.0), np.arange(3.0)))
                    elif op[1] == "update-self":
                        db.update(db.copy(shallow=True))
                    elif op[1] == "getm-ind":
                        db.getm(ind=[0, n + 3], store=False)
                    elif op[1] == "list-type":
                        db.list(names=5, display=False)
                    elif op[1] == "get-type":
                        db.get(name=[k])
                except OP_ERRORS + (IndexError,):
                    pass
                if list(db.register_keys) != keys:
                    st["vals"] = None                    # (the register after a rejected operation is C08's subject)
            elif op[0] == "add":
                add(op[1], op[2])
            elif op[0] == "update":
                other, ovals = realise(fl, op[1])
                db.update(other, shallow=op[2])
                if st["vals"] is not None and ovals is not None:
                    st["vals"] += ovals
                else:
                    st["vals"] = None
            elif op[0] == "load":
                load([op[1]])
        except OP_ERRORS:
            # an operation may be rejected (clash of keys, no / several matches); whatever it did, the queries follow
            if len(db.register_keys) != len(keys) and op[0] not in ("ask",):
                st["vals"] = None
        except Crash:
            raise
        except Exception as e:
            raise Crash("history step %d %r" % (i, op[:2]), e)
        if st["vals"] is not None and len(st["vals"]) != len(st["db"].register_keys):
            st["vals"] = None
    return st["db"], st["vals"]


# ---------------------------------------------------------------------------------------------------------------------------------
# queries
# ---------------------------------------------------------------------------------------------------------------------------------
def short(k):
    """the series name of a key (bracket-aware; only used to build patterns)"""
    if ".pkl/" in k:
        return k.split(".pkl/")[-1]
    i = k.find("[")
    head, tail = (k[:i], k[i:]) if i >= 0 else (k, "")
    return head.rsplit("/", 1)[-1] + tail


def relative_names(db):
    """listed relative names, or the error kind when the listing itself raises"""
    try:
        return db.list(display=False, relative=True)
    except Exception as e:
        return err_enum(e)


def ref_dirname(k):
    """directory part of a key; the name starts after the last separator in front of the first '[' (own code, not `_path_dirname`)"""
    i = k.find("[")
    head = k if i < 0 else k[:i]
    j = head.rfind("/")
    if j < 0:
        return ""
    return head[:j] if j > 0 else "/"


def ref_common(keys):
    """common path of the keys, by own code: the directory part of the single key, else the longest common leading run of path
    components of the directory parts (none when absolute and relative keys are mixed or nothing is shared)"""
    if not keys:
        return ""
    dirs = [ref_dirname(k) for k in keys]
    if len(dirs) == 1:
        return dirs[0]
    if any(d == "" for d in dirs) or len(set(d.startswith("/") for d in dirs)) > 1:
        return ""
    split = [[c for c in d.split("/") if c and c != "."] for d in dirs]
    common = []
    for comps in zip(*split):
        if len(set(comps)) != 1:
            break
        common.append(comps[0])
    lead = "/" if dirs[0].startswith("/") else ""
    return lead + "/".join(common)


def casevariants(n):
    return [v for v in (n.swapcase(), n.lower(), n.upper()) if v != n]


def patterns(db):
    keys = list(db.register_keys)
    rel = relative_names(db)
    if not isinstance(rel, list) or len(rel) != len(keys):
        rel = keys
    names = [short(k) for k in keys]
    pats = set()
    for k, r, n in zip(keys, rel, names):
        pats.update([k, r, n])
        if len(n) > 1:
            pats.update([n[:-1] + "*", "*" + n[1:], n[0] + "?" + n[2:], n.replace(" ", "?")])
        pats.add(os.path.basename(os.path.dirname(k)) + "/" + n)
        pats.add("*/" + n)
        # the other letter case; wildcards in the place of the special characters; a star that has nothing to match
        pats.update(casevariants(n)[:2])
        pats.update([re.sub(r"[\[\]()^/]", "?", n), re.sub(r"\[.*\]|\(.*\)", "*", n), n + "*", "*" + n, n.split("[")[0] + "[*]"])
    cm = ref_common(keys)
    # boundary: empty, wildcards only, the common path itself, its children, its parent
    pats.update(["", "**", "*/*", "?*", "*/", "/*", cm, cm + "/*", cm + "*", os.path.dirname(cm) + "/*", cm.swapcase() + "/*"])
    pats.update(["*", "*[kN/m]", "*(*)", "nomatch", "[raw]", "*^*", "?", "*.pkl/*", "* *", "*[*", "*]", "*[[]*", "*!*", "[!a]*", "[a-z]*"])
    return sorted(pats)


def pattern_lists(rng, db, pats, count):
    """lists of 2-3 patterns: arbitrary ones, wildcard ones, and one pattern per distinct series name taken in an order that is
    not the registration order (the matches of such a list interleave the files)"""
    keys = list(db.register_keys)
    uniq = []
    for k in keys:
        if short(k) not in uniq:
            uniq.append(short(k))
    wild = [p for p in pats if "*" in p or "?" in p]
    out = []
    for i in range(count):
        m = rng.choice([2, 2, 3])
        mode = i % 3
        if mode == 0 and len(uniq) >= 2:
            pick = rng.sample(uniq, min(m, len(uniq)))
            pick.sort(key=lambda n: -uniq.index(n))
            if rng.random() < 0.3:
                rng.shuffle(pick)
            out.append([n if (rng.random() < 0.5 or len(n) < 2) else n[:1] + "*" for n in pick])
        elif mode == 1 and len(wild) >= 2:
            out.append(rng.sample(wild, min(m, len(wild))))
        else:
            out.append(rng.sample(pats, min(m, len(pats))))
    return out


def line_for(what, arg, keys, cwd, rel=False):
    K = hxlist(keys)
    if what == "common":
        return "nm.common %s" % K
    if what == "rel":
        return "nm.list %s 1 none %s" % (hx(cwd), K)
    if what == "none":
        return "nm.list %s 0 none %s" % (hx(cwd), K)
    if what == "list":
        return "nm.list %s 0 %s %s" % (hx(cwd), hxlist([arg]), K)
    if what == "listn":
        return "nm.list %s %d %s %s" % (hx(cwd), 1 if rel else 0, hxlist(list(arg)), K)
    if what == "get":
        return "nm.get %s %s" % (hx(arg), K)
    if what == "in":
        return "nm.contains %s %s" % (hx(arg), K)
    if what == "retkey":
        return "nm.retkey %s %s" % (hx(arg), K)
    return None


def dedup(l):
    out = []
    for x in l:
        if x not in out:
            out.append(x)
    return out


def reference(keys, common, pat):
    """reference matcher: only * and ? are special; a pattern that does not start with the common path matches below any directory"""
    if not (common == "" or pat.startswith(common)):
        pat = "*/" + pat
    rx = re.compile("".join(".*" if c == "*" else "." if c == "?" else re.escape(c) for c in pat) + r"\Z", re.S)
    return [k for k in keys if rx.match(k)]


def reference_all(keys, arg):
    """the keys selected by a pattern or a list of patterns (None: all): by pattern, then by registration order, each key once"""
    if arg is None:
        return list(keys)
    cm = ref_common(keys)
    return dedup([k for p in ([arg] if isinstance(arg, str) else arg) for k in reference(keys, cm, p)])


def first_values(tslist):
    return [float(ts.x[0]) for ts in tslist]


def attempt(f):
    """value of f(), or the error kind"""
    try:
        return f()
    except Exception as e:
        return err_enum(e)


def retrieval(chk, db, vals, keys, inp, names, listed):
    """selection through getm / getl returns the listed series, in listing order"""
    want = dedup(listed)
    try:
        got = list(db.getm(names=names, fullkey=True, store=False).keys())
    except Exception as e:
        got = err_enum(e)
    if got != want:
        chk.fail("retrieval of several series by names (getm keys) returns exactly the listed series, ordered by pattern and then by "
                 "registration order", inp, want, got, clause="getm-order")
    # short names (fullkey=False): one entry per selected series — none lost — each named by the end of its own key, holding its data
    try:
        short = db.getm(names=names, fullkey=False, store=False)
        sk = list(short.keys())
        bad = len(sk) != len(want) or any(not k.endswith(r) or r == "" for r, k in zip(sk, want))
        if not bad and vals is not None:
            bad = first_values(list(short.values())) != [vals[keys.index(k)] for k in want]
        obs = sk
    except Exception as e:
        bad, obs = True, err_enum(e)
    if bad:
        chk.fail("retrieval of several series by names with short names (getm fullkey=False) returns one entry per listed series, each "
                 "named by the trailing part of its own key and holding its data", inp, want, obs, clause="getm-short")
    if vals is not None:
        exp = [vals[keys.index(k)] for k in want]
        try:
            gv = first_values(db.getl(names=names, store=False))
        except Exception as e:
            gv = err_enum(e)
        if gv != exp:
            chk.fail("retrieval of several series by names (getl) returns the data of the listed series, ordered by pattern and "
                     "then by registration order", inp, exp, gv, clause="getl-order")


def second_database(chk, keys, inp, arg, same):
    """history over two databases: the list object `same` (handed to the first database as the patterns `arg`) is used to select
    from a second, in-memory database that holds series with the same names"""
    from qats import TsDB, TimeSeries
    probe = TsDB()
    for n in dedup([short(k) for k in keys]):
        probe.add(TimeSeries(n, np.arange(3.0), np.arange(3.0)))
    pk = list(probe.register_keys)
    exp = reference_all(pk, list(arg))
    got = attempt(lambda: dedup(probe.list(names=same, display=False)))
    if got != exp:
        chk.fail("a list of patterns that was used to select from one database selects from the next database (in-memory series of the "
                 "same names) exactly the matching series", dict(inp, second_keys=pk, patterns_now=list(same)), exp, got,
                 clause="list-again")


def compare(chk, what, inp, o, im):
    """correspondence: reply `o` of the model against the value `im` observed on the implementation"""
    if o is None:
        return
    if what == "common":
        if unhx(o.split()[1]) != im:
            chk.disagree("nm.common", inp, unhx(o.split()[1]), im)
    elif what == "rel":
        # (the model's relpath has the precondition "path non-empty"; an implementation error is reported by the clause)
        if isinstance(im, list) and (not o.startswith("ok") or unhxlist(o.split()[1]) != im):
            chk.disagree("nm.list(relative)", inp, unhxlist(o.split()[1]) if o.startswith("ok") else o, im)
    elif what == "none":
        if unhxlist(o.split()[1]) != im:
            chk.disagree("nm.list(all)", inp, unhxlist(o.split()[1]), im)
    elif what in ("list", "listn"):
        if unhxlist(o.split()[1]) != im:
            chk.disagree("nm.list", inp, unhxlist(o.split()[1]), im)
    elif what == "get":
        if o.strip() != im:
            chk.disagree("nm.get", inp, o, im)
    elif what == "in":
        if (o.strip() == "ok 1") != im:
            chk.disagree("nm.contains", inp, o, im)
    elif what == "retkey":
        if im != [unhx(o.split()[1])] and len(im) == 1:
            chk.disagree("nm.retkey", inp, unhx(o.split()[1]), im)


def evaluate(chk, db, vals, base, what, arg, reply=None, rel=False, defer=None):
    """one query; an exception of the implementation outside the places where the property names an error is a failing clause"""
    try:
        _evaluate(chk, db, vals, base, what, arg, reply, rel, defer)
    except Exception as e:
        inp = dict(base() if callable(base) else base, keys=list(db.register_keys), what=what, arg=arg)
        if rel:
            inp["rel"] = True
        chk.fail("selecting / listing by names returns the matching registered series (it does not raise)", inp, "a list of keys",
                 "%s: %s" % (err_enum(e), e), clause="raises")


def _evaluate(chk, db, vals, base, what, arg, reply=None, rel=False, defer=None):
    """correspondence with the model reply (when given; `defer`: collected for a later run of the model) and the property's
    clauses on the real database for one query"""
    keys = list(db.register_keys)
    if callable(base):
        base = base()
    inp = dict(base, keys=keys, what=what, arg=arg)
    if rel:
        inp["rel"] = True

    def tie(im):
        if reply is not None:
            compare(chk, what, inp, reply, im)
        elif defer is not None:
            ln = line_for(what, arg, keys, defer[0], rel)
            if ln is not None:
                defer[1].append((ln, what, inp, im))

    chk.count("nm." + what)
    if what == "common":
        tie(db.common)
    elif what == "rel":
        im = relative_names(db)
        tie(im)
        if not isinstance(im, list) or len(im) != len(keys):
            chk.fail("every registered series has a listed relative name (the relative listing has one entry per registered series)",
                     inp, len(keys), im if not isinstance(im, list) else len(im), clause="self-relative")
    elif what == "none":
        im = db.list(display=False)
        tie(im)
        if im != keys:
            chk.fail("without a pattern every registered series is listed, in registration order", inp, keys, im, clause="all-ordered")
        try:
            byind = list(db.getm(ind=list(range(len(keys))), fullkey=True, store=False).keys())
        except Exception as e:
            byind = err_enum(e)
        if byind != im:
            chk.fail("listing without a pattern and retrieval of all series by index agree (both in registration order)", inp, im, byind,
                     clause="all-ordered")
        retrieval(chk, db, vals, keys, inp, None, im)
    elif what in ("list", "listn"):
        same = list(arg) if what == "listn" else arg           # the object handed to the implementation (used more than once)
        im = db.list(names=same, display=False, relative=rel)
        tie(im)
        if what == "list":
            if any(c in arg for c in "[]()^*?"):
                chk.nontriv((tuple(keys), arg))
            chk.dist("matches=%d" % min(len(im), 3))
            # literal, complete, ordered: reference matcher where only * and ? are special
            ref = reference(keys, db.common, arg)
            if im != ref:
                chk.fail("selection returns exactly the registered keys matching the shell-style pattern with brackets, "
                         "parentheses and carets literal, in registration order", inp, ref, im, clause="literal")
            # the same with the common path worked out from the keys by the harness
            ref = reference(keys, ref_common(keys), arg)
            if im != ref:
                chk.fail("selection returns exactly the registered keys whose name (or full key) matches the shell-style pattern "
                         "with brackets, parentheses and carets literal, in registration order [common path of the keys by the "
                         "harness]", inp, ref, im, clause="literal-own")
            if arg == "*" and im != keys:
                chk.fail("the pattern '*' matches every name: it selects all registered series, in registration order", inp, keys, im,
                         clause="star-all")
            retrieval(chk, db, vals, keys, inp, arg, im)
        elif not rel:
            chk.nontriv((tuple(keys), tuple(arg)))
            cm = db.common
            ref = dedup([k for p in arg for k in reference(keys, cm, p)])
            if dedup(im) != ref:
                chk.fail("selection by a list of patterns returns exactly the matching registered keys, ordered by pattern and then "
                         "by registration order", inp, ref, dedup(im), clause="list-ordered")
            ref = reference_all(keys, list(arg))
            if dedup(im) != ref:
                chk.fail("selection by a list of patterns returns exactly the matching registered keys, ordered by pattern and then "
                         "by registration order [common path of the keys by the harness]", inp, ref, dedup(im), clause="list-ordered-own")
            # second use of the very same list object
            again = attempt(lambda: db.list(names=same, display=False))
            if again != im:
                chk.fail("selecting twice with the same list of patterns gives the same series", inp, im, again, clause="list-again")
            if same != list(arg):
                # the caller's list is no longer the list of patterns it was: what does it select in the caller's next database?
                second_database(chk, keys, inp, arg, same)
            retrieval(chk, db, vals, keys, inp, same, im)
            if isinstance(arg, list):
                tu = db.list(names=tuple(arg), display=False)
                if tu != im:
                    chk.fail("a tuple of patterns selects as the list of the same patterns", inp, im, tu, clause="list-ordered")
        else:
            # relative names listed under patterns are the relative names of the selected series
            full = attempt(lambda: db.list(names=list(arg), display=False))
            allrel = relative_names(db)
            if isinstance(full, list) and isinstance(allrel, list) and len(allrel) == len(keys) and all(k in keys for k in full):
                exp = [allrel[keys.index(k)] for k in full]
                if im != exp:
                    chk.fail("the relative names listed for a selection are the listed relative names of the selected series, in "
                             "the order of the selection", inp, exp, im, clause="relative-selection")
    elif what == "get":
        listed = db.list(names=arg, display=False)
        try:
            ts = db.get(name=arg, store=False)
            im = "ok " + hx(listed[0])            # get returns the series; its key is the listing's
        except Exception as e:
            ts = None
            im = err_enum(e)
        tie(im)
        n = len(listed)
        exp = "err lookup" if n == 0 else "err value" if n > 1 else "ok"
        if not im.startswith(exp):
            chk.fail("single retrieval agrees with the listing (no match: lookup error; several: value error)", inp, exp, im,
                     clause="get-agrees")
        if ts is not None and n == 1 and vals is not None and listed[0] in keys:
            v, e = float(ts.x[0]), vals[keys.index(listed[0])]
            if v != e:
                chk.fail("single retrieval returns the listed series", inp, e, v, clause="get-agrees")
    elif what == "in":
        im = arg in db
        tie(im)
        if im != (len(db.list(names=arg, display=False)) > 0):
            chk.fail("containment agrees with the listing", inp, len(db.list(names=arg, display=False)) > 0, im, clause="in-agrees")
    elif what == "retkey":
        c = db.getm(names=arg, store=False)
        tie(list(c.keys()))
    elif what == "self":
        # arg = position of the series in registration order
        k = keys[arg]
        rl = relative_names(db)
        r = rl[arg] if isinstance(rl, list) and len(rl) == len(keys) else None
        inp = dict(base, keys=keys, what=what, arg=arg, key=k, relative=r)
        got = db.list(names=k, display=False)
        if got != [k]:
            chk.fail("every registered series is selected unambiguously by its full key", inp, [k], got, clause="self-full")
        # ... and retrieved by it: single retrieval, containment, iteration's way (get(name=key)), a retrieved series is contained
        g = attempt(lambda: db.get(k, store=False))
        gv = g if isinstance(g, str) else float(g.x[0])
        if isinstance(g, str) or (vals is not None and gv != vals[arg]):
            chk.fail("every registered series is retrieved by its full key (single retrieval agrees with the listing)", inp,
                     vals[arg] if vals is not None else "a series", gv, clause="self-full-get")
        if (k in db) is not True:
            chk.fail("every registered series is contained by its full key (containment agrees with the listing)", inp, True, k in db,
                     clause="self-full-in")
        if not isinstance(g, str):
            fn = attempt(lambda: g.fullname)
            exp = attempt(lambda: len(db.list(names=fn, display=False)) > 0)
            got = attempt(lambda: g in db)
            if got != exp:
                chk.fail("containment of a series object agrees with the listing of its full name", dict(inp, fullname=fn), exp, got,
                         clause="in-agrees")
        if r is None:
            return                                  # reported by the "rel" query of this state
        got = db.list(names=r, display=False)
        if got != [k]:
            chk.fail("every registered series is selected unambiguously by its own listed relative name", inp, [k], got,
                     clause="self-relative")
        # the way of qats.app.gui: the checked item (listed relative name) joined with the common path is the name handed on
        joined = attempt(lambda: os.path.join(db.common, r))
        got = attempt(lambda: db.list(names=joined, display=False))
        if got != [k]:
            chk.fail("every registered series is selected unambiguously by its own listed relative name joined with the common path "
                     "(the full key as the GUI rebuilds it)", dict(inp, joined=joined), [k], got, clause="self-relative")
    elif what == "owned":
        owned(chk, db, vals, keys, inp, arg)
    elif what == "spell":
        spellings(chk, db, vals, keys, inp, arg)
    elif what == "entry":
        entries(chk, db, vals, keys, inp, arg)
    elif what == "iter":
        got = attempt(lambda: first_values(list(db)))
        if vals is not None and got != vals:
            chk.fail("iteration retrieves every registered series by its full key, in registration order (single retrieval agrees "
                     "with the listing)", inp, vals, got, clause="iter")
        elif isinstance(got, str) or len(got) != len(keys):
            chk.fail("iteration retrieves every registered series by its full key, in registration order (single retrieval agrees "
                     "with the listing)", inp, len(keys), got, clause="iter")


def spellings(chk, db, vals, keys, inp, p):
    """one pattern `p` (a string) passed in every way the signature allows: the selection is the same"""
    import qats
    want = reference(keys, ref_common(keys), p)
    quiet = io.StringIO()

    def shown():
        with contextlib.redirect_stdout(quiet):
            return db.list(names=p, display=True)

    ways = [("list(p)", lambda: db.list(p)),
            ("list(p, False)", lambda: db.list(p, False)),
            ("list(p, False, False)", lambda: db.list(p, False, False)),
            ("list(names=[p])", lambda: db.list(names=[p])),
            ("list(names=(p,))", lambda: db.list(names=(p,))),
            ("list(names=numpy.str_(p))", lambda: db.list(names=np.str_(p))),
            ("list(names=[numpy.str_(p)])", lambda: db.list(names=[np.str_(p)])),
            ("list(names=p, display=True)", shown),
            ("list(names=p, relative=False)", lambda: db.list(names=p, relative=False)),
            ("getm(p, None, False, True)", lambda: list(db.getm(p, None, False, True).keys())),
            ("getm(names=[p], fullkey=True)", lambda: list(db.getm(names=[p], fullkey=True, store=False).keys())),
            ("getd(p, fullkey=True)", lambda: list(db.getd(p, store=False, fullkey=True).keys())),
            ("list(names=p) again", lambda: db.list(names=p))]
    for label, f in ways:
        chk.count("nm.spell")
        got = attempt(f)
        if got != want:
            chk.fail("the selection does not depend on how the pattern is passed (positional / keyword / one-element list or tuple / "
                     "numpy string / display on): " + label, dict(inp, way=label), want, got, clause="spelling")
    # relative names of a selection: the listed relative names of the selected series
    allrel = relative_names(db)
    if isinstance(allrel, list) and len(allrel) == len(keys):
        exp = [allrel[keys.index(k)] for k in want]
        for label, f in [("list(names=p, relative=True)", lambda: db.list(names=p, relative=True)),
                         ("list(p, False, True)", lambda: db.list(p, False, True))]:
            got = attempt(f)
            if got != exp:
                chk.fail("the relative names listed for a selection are the listed relative names of the selected series: " + label,
                         dict(inp, way=label), exp, got, clause="relative-selection")
    # single retrieval, positional: agrees with the listing
    exp = "err lookup" if not want else "err value" if len(want) > 1 else \
        (vals[keys.index(want[0])] if vals is not None else "ok")
    for label, f in [("get(p)", lambda: db.get(p, None, False)), ("geta(name=p)", lambda: db.geta(name=p, store=False)[1]),
                     ("get(name=numpy.str_(p))", lambda: db.get(name=np.str_(p), store=False))]:
        g = attempt(f)
        if not isinstance(g, str):
            g = float((g.x if hasattr(g, "x") else g)[0]) if vals is not None else "ok"
        if g != exp:
            chk.fail("single retrieval agrees with the listing (no match: lookup error; several: value error; one: that series): "
                     + label, dict(inp, way=label), exp, g, clause="get-agrees")
    got = attempt(lambda: db.__contains__(np.str_(p)))
    if got != bool(want):
        chk.fail("containment agrees with the listing: numpy.str_(p) in db", dict(inp, way="numpy.str_ in db"), bool(want), got,
                 clause="in-agrees")
    _ = qats


def entries(chk, db, vals, keys, inp, arg):
    """every public entry point that selects by names selects the series of the listing, in its order.  `arg`: a pattern, a list of
    patterns or None.  The expected selection is worked out by the harness (reference matcher, own common path)."""
    from qats import TsDB
    from qats.app.funcs import read_timeseries
    want = reference_all(keys, arg)
    wv = [vals[keys.index(k)] for k in want] if vals is not None else None
    text = "selection by names through %s returns exactly the listed series, ordered by pattern and then by registration order"

    def verdict(label, exp, got):
        chk.count("nm.entry")
        if got != exp:
            chk.fail(text % label, dict(inp, way=label), exp, got, clause="entry")

    def given():
        return list(arg) if isinstance(arg, list) else arg       # a fresh object per call

    verdict("getd(names, fullkey=True)", want, attempt(lambda: list(db.getd(names=given(), store=False, fullkey=True).keys())))
    verdict("getda(names, fullkey=True)", want, attempt(lambda: list(db.getda(names=given(), store=False, fullkey=True).keys())))
    verdict("stats(names, fullkey=True)", want, attempt(lambda: list(db.stats(names=given(), store=False, fullkey=True).keys())))
    if wv is not None:
        verdict("getl(names, None, False)", wv, attempt(lambda: first_values(db.getl(given(), None, False))))
        verdict("getda(names) data", wv, attempt(lambda: [float(x[0]) for _, x in db.getda(names=given(), store=False).values()]))
        verdict("qats.app.funcs.read_timeseries(db, names)", wv, attempt(lambda: first_values(read_timeseries(db, given()).values())))
    else:
        verdict("qats.app.funcs.read_timeseries(db, names)", len(want), attempt(lambda: len(read_timeseries(db, given()))))

    def frame():
        df = db.to_dataframe(names=given(), store=False)
        return [float(v) for v in df.iloc[0]]

    if wv is not None and want:
        got = attempt(frame)
        if got != "err value":                                   # (series without a common time array are refused)
            verdict("to_dataframe(names)", wv, got)

    # selections that build / change a database: work on copies (a deep copy first, so that nothing is shared)
    def copied(shallow):
        new = db.copy(names=given(), shallow=shallow)
        return [list(new.register_keys), new.list(display=False), list(new.register.keys())]

    verdict("copy(names, shallow=True)", [want] * 3, attempt(lambda: copied(True)))
    verdict("copy(names, shallow=False)", [want] * 3, attempt(lambda: copied(False)))

    def updated():
        new = TsDB()
        new.update(db, names=given(), shallow=True)
        return list(new.register_keys)

    verdict("update(db, names)", want, attempt(updated))

    def cleared():
        new = db.copy(shallow=True)
        new.clear(names=given(), display=False)
        return list(new.register_keys)

    rest = [k for k in keys if k not in want] if arg is not None else []
    verdict("clear(names) on a copy", rest, attempt(cleared))
    if isinstance(arg, str):
        def renamed():
            new = db.copy(shallow=False)
            new.rename(arg, "renamed_by_check")
            return list(new.register_keys)

        if not want:
            exp = "err lookup"
        elif len(want) > 1:
            exp = "err value"
        else:
            nk = os.path.join(ref_dirname(want[0]), "renamed_by_check")
            exp = [nk if k == want[0] else k for k in keys]
        verdict("rename(pattern, new) on a copy", exp, attempt(renamed))



# ---------------------------------------------------------------------------------------------------------------------------------
# what the database hands out belongs to the caller
# ---------------------------------------------------------------------------------------------------------------------------------
# sources: every way to be handed a listing / a container of the selected series (label -> call on the database)
OWN_SOURCES = [("list()", lambda db: db.list()),
               ("list(display=False)", lambda db: db.list(display=False)),
               ("list(None, False, False)", lambda db: db.list(None, False, False)),
               ("list(names=None, relative=False)", lambda db: db.list(names=None, relative=False)),
               ("list(relative=True)", lambda db: db.list(relative=True)),
               ("list(names='*')", lambda db: db.list(names="*")),
               ("list(names='*', relative=True)", lambda db: db.list(names="*", relative=True)),
               ("list(names=['*'])", lambda db: db.list(names=["*"])),
               ("getm(fullkey=True)", lambda db: db.getm(fullkey=True, store=False)),
               ("getd(fullkey=True)", lambda db: db.getd(fullkey=True, store=False)),
               ("getl()", lambda db: db.getl(store=False))]
OWN_EDITS = ["sort", "reverse", "trim", "pop", "clear", "append", "overwrite", "rotate"]
BOGUS = "zz not registered [-]"


def edit_in_place(obj, how):
    """the caller tidies up a list / dict it was handed (in place: the very object is changed)"""
    if isinstance(obj, dict):
        items = list(obj.items())
        edit_in_place(items, how)
        obj.clear()
        for k, v in items:
            obj[k] = v
        return
    if how == "sort":
        obj.sort(key=lambda x: x if isinstance(x, str) else repr(x))
    elif how == "reverse":
        obj.reverse()
    elif how == "trim":
        del obj[max(1, len(obj) // 2):]
    elif how == "pop":
        if obj:
            obj.pop(0)
    elif how == "clear":
        del obj[:]
    elif how == "append":
        obj.append((BOGUS, None) if obj and isinstance(obj[0], tuple) else BOGUS)
    elif how == "overwrite":
        if obj:
            obj[0] = (BOGUS, None) if isinstance(obj[0], tuple) else BOGUS
    elif how == "rotate":
        obj[:] = obj[1:] + obj[:1]


def observe(db, keys):
    """the property's observation points on the database, for the keys the harness has on record"""
    def one(k):
        g = attempt(lambda: db.get(name=k, store=False))
        return g if isinstance(g, str) else float(g.x[0])
    return dict(listing=attempt(lambda: list(db.list(display=False))),
                star=attempt(lambda: list(db.list(names="*", display=False))),
                relative=attempt(lambda: list(db.list(display=False, relative=True))),
                common=attempt(lambda: db.common),
                getm=attempt(lambda: list(db.getm(fullkey=True, store=False).keys())),
                contained=[attempt(lambda: k in db) for k in keys],
                got=[one(k) for k in keys],
                iterated=attempt(lambda: first_values(list(db))),
                n=attempt(lambda: len(db)))


def owned(chk, db, vals, keys, inp, arg):
    """history step "the caller edits what it was handed" (`arg` = [source label, edit]): nothing is registered or removed, so every
    clause holds as before — evaluated against `keys` / `vals`, the harness's record of the registration taken before the step."""
    src, how = arg
    f = dict(OWN_SOURCES)[src]
    before = observe(db, keys)
    quiet = io.StringIO()
    with contextlib.redirect_stdout(quiet):
        handed = f(db)
    edit_in_place(handed, how)
    after = observe(db, keys)
    tail = " — also after the caller edited in place (%s) what %s had returned to it" % (how, src)
    if after["listing"] != keys:
        chk.fail("without a pattern every registered series is listed, in registration order" + tail, inp, keys, after["listing"],
                 clause="owned-all")
    if after["star"] != keys:
        chk.fail("the pattern '*' selects every registered series, in registration order" + tail, inp, keys, after["star"],
                 clause="owned-star")
    if after["getm"] != keys:
        chk.fail("retrieval of all series (getm keys) returns every registered series, in registration order" + tail, inp, keys,
                 after["getm"], clause="owned-getm")
    if after["contained"] != [True] * len(keys):
        chk.fail("every registered series is contained by its full key" + tail, inp, [True] * len(keys), after["contained"],
                 clause="owned-in")
    if any(isinstance(g, str) for g in after["got"]) or (vals is not None and after["got"] != vals):
        chk.fail("every registered series is retrieved by its full key (single retrieval agrees with the listing)" + tail, inp,
                 vals if vals is not None else "a series per key", after["got"], clause="owned-get")
    if vals is not None and after["iterated"] != vals:
        chk.fail("iteration retrieves every registered series, in registration order" + tail, inp, vals, after["iterated"],
                 clause="owned-iter")
    # whatever else was observed is as it was before the step (relative listing, common path, number of series)
    for what, text in (("relative", "the relative listing"), ("common", "the common path"), ("n", "the number of series"),
                       ("iterated", "the data retrieved by iteration"), ("got", "the data retrieved by every full key")):
        if after[what] != before[what]:
            chk.fail("a selection depends on the registered series and their registration order only: %s is as it was" % text + tail,
                     inp, before[what], after[what], clause="owned-same")


def enqueue(rng, quick, db, npats, nlists, extra_pats=(), extra_lists=(), nspell=3, nentry=2, nowned=0, extra_owned=()):
    """the queries asked of one database state: (what, arg, rel) triples"""
    keys = list(db.register_keys)
    pats = patterns(db)
    chosen = rng.sample(pats, min(len(pats), npats)) if quick else list(pats)
    for p in ["*"] + list(extra_pats):
        if p not in chosen:
            chosen.append(p)
    q = [("common", None, False), ("rel", None, False), ("none", None, False)]
    # the caller edits what it was handed: before the other queries, which then run on the database after that step (only in the
    # queries of a history step, which are recorded in the spec and asked again on replay) ...
    for a in [list(a) for a in extra_owned] + [[rng.choice(OWN_SOURCES)[0], rng.choice(OWN_EDITS)] for _ in range(nowned)]:
        q.append(("owned", a, False))
    for p in chosen:
        q += [("list", p, False), ("get", p, False), ("in", p, False)]
    for _ in range(3):
        q.append(("listn", rng.sample(pats, 2), rng.random() < 0.5))
    lists = pattern_lists(rng, db, pats, nlists) + [list(l) for l in extra_lists]
    if rng.random() < 0.3:
        lists.append([])
    if rng.random() < 0.3:
        lists.append([rng.choice(pats)])
    for l in lists:
        q.append(("listn", l, False))
        if rng.random() < 0.3:
            q.append(("listn", l, True))
    for k in keys:
        q.append(("retkey", k, False))
    for i in range(len(keys)):
        q.append(("self", i, False))
    for p in rng.sample(chosen, min(len(chosen), nspell)):
        q.append(("spell", p, False))
    for a in rng.sample(chosen, min(len(chosen), nentry)) + rng.sample(lists, min(len(lists), 1)) + \
            ([None] if rng.random() < 0.2 else []):
        q.append(("entry", a, False))
    if rng.random() < 0.5:
        q.append(("iter", None, False))
    # ... and after them (the listing handed out last)
    q.append(("owned", [rng.choice(OWN_SOURCES)[0], rng.choice(OWN_EDITS)], False))
    return q


def crashed(chk, base, e):
    chk.fail("a database can be built from files and series and taken through a history of operations (selection, renaming, "
             "clearing, merging): the implementation does not raise anything but the rejection of the operation",
             dict(base, what="build", arg=None), "no exception", str(e), clause="raises")


def run(chk):
    chk.extra["rule"] = RULE
    chk.assumptions += ["POSIX paths; keys are abspath(file)/name (normalised)",
                        "fnmatch character ranges are not modelled: every pattern reaches fnmatch escaped"]
    chk.partial += ["self_select_relative_partial: unambiguous selection by the listed relative name holds when no other key ends in "
                    "'/<relative name>'; false in general (known finding F18, machine-checked counterexample in Props/C09.lean)"]
    chk.matchers["F18"] = f18_shape
    chk.matchers["F22"] = f22_shape
    rng = chk.rng
    drv = core.Driver()
    fl = Tree()
    cwd = os.getcwd()
    try:
        gen = Gen(rng)
        scns = []          # (spec, extra single patterns, extra pattern lists, extra [source, edit] steps of the caller)
        for c in core.load_corpus("C09"):
            scns.append((c["spec"], c.get("pats", []), c.get("lists", []), c.get("owned", [])))
        ncorpus = len(scns)
        N = 40 if chk.quick else 450
        H = 35 if chk.quick else 400
        S = 25 if chk.quick else 250
        for _ in range(N):
            scns.append((gen.spec(), [], [], []))
        for _ in range(H):
            spec = gen.spec()
            spec["hist"] = gen.history(spec)
            scns.append((spec, [], [], []))
        for _ in range(S):
            spec = gen.spec()
            spec["hist"] = gen.history(spec, staged=True)
            scns.append((spec, [], [], []))
        # the caller edits listings it was handed: as the last step of the history of a not-staged scenario (in the staged ones it is
        # among the queries of every step); the queries of the final state follow on the same database object
        for spec, xp, xl, xo in scns:
            hist = spec.get("hist", [])
            if any(o[0] == "ask" and o[1] is None for o in hist) or not (xo or rng.random() < 0.75):
                continue
            steps = [list(a) for a in xo] + [[rng.choice(OWN_SOURCES)[0], rng.choice(OWN_EDITS)] for _ in range(rng.choice([1, 2]))]
            spec["hist"] = hist + [["ask", [["owned", a, False] for a in steps]]]
        states, todo = [], []
        deferred = (cwd, [])
        for i, (spec, xp, xl, xo) in enumerate(scns):
            carried = []          # patterns of the earlier stages of this scenario: asked again in the later ones

            spoiled = []          # set when an edit of the caller changed the database: its register is not the record any more

            def hook(db, vals, opi, op, spec=spec, carried=carried, xo=xo, spoiled=spoiled):
                if not db.register_keys or spoiled:
                    op[1] = []
                    return
                if op[1] is None:
                    op[1] = [list(t) for t in enqueue(rng, True, db, 5, 2, extra_pats=carried[-4:], nspell=1, nentry=1,
                                                         nowned=1, extra_owned=xo)]
                    carried.extend(a for w, a, r in op[1] if w == "list" and a not in carried and a != "*")
                qs = op[1]
                chk.dist("stage")
                for qi, (what, arg, rel) in enumerate(qs):
                    def base(qi=qi):
                        return fl.base(dict(spec, hist=spec["hist"][:opi] + [["ask", qs[:qi]]]))
                    nf = len(chk.failing)
                    evaluate(chk, db, vals, base, what, arg, rel=rel, defer=deferred)
                    if what == "owned" and len(chk.failing) > nf:
                        spoiled.append(opi)          # (reported; what follows on this object would only repeat it in other words)
                        return

            try:
                db, vals = realise(fl, spec, hook=hook)
            except Crash as e:
                crashed(chk, fl.base(spec), e)
                continue
            if not db.register_keys or spoiled:
                continue
            states.append((db, vals, fl.base(spec)))
            todo.append(enqueue(rng, chk.quick, db, 18, 6, xp, xl))
            chk.dist("history=%d" % min(len([o for o in spec.get("hist", []) if o[0] != "ask"]), 3))
            chk.dist("files=%d" % len(spec["files"]))
            if any(f[0].startswith(ALT) for f in spec["files"]):
                chk.dist("two top-level roots")
        lines, where = [], []
        for si, ((db, vals, base), q) in enumerate(zip(states, todo)):
            keys = list(db.register_keys)
            for qi, (what, arg, rel) in enumerate(q):
                ln = line_for(what, arg, keys, cwd, rel)
                if ln is not None:
                    where.append((si, qi))
                    lines.append(ln)
        nmain = len(lines)
        lines += [d[0] for d in deferred[1]]
        out = drv.run(lines)
        replies = dict(zip(where, out[:nmain]))
        for (ln, what, inp, im), o in zip(deferred[1], out[nmain:]):
            compare(chk, what, inp, o, im)
        for si, ((db, vals, base), q) in enumerate(zip(states, todo)):
            for qi, (what, arg, rel) in enumerate(q):
                evaluate(chk, db, vals, base, what, arg, reply=replies.get((si, qi)), rel=rel)
        chk.extra["corpus_cases"] = ncorpus
        # ---- the string functions against the Python originals ---------------------------------------------------------------------
        alpha = "ab [](^)!-:*?/."
        sl, sm = [], []
        for _ in range(400 if chk.quick else 6000):
            p = "".join(rng.choice(alpha) for _ in range(rng.randint(0, 7)))
            k = "".join(rng.choice(alpha) for _ in range(rng.randint(0, 6)))
            if rng.random() < 0.5 and p:
                k = p.replace("*", rng.choice(["", "x", "ab"])).replace("?", rng.choice("ab["))
            sl.append("nm.escape %s" % hx(p)); sm.append(("escape", p, k))
            sl.append("nm.fnmatch %s %s" % (hx(escape_py(p)), hx(k))); sm.append(("fnmatch", escape_py(p), k))
        for (what, p, k), o in zip(sm, drv.run(sl)):
            chk.count("str." + what)
            if what == "escape":
                if unhx(o.split()[1]) != escape_py(p):
                    chk.disagree("nm.escape", dict(s=p), unhx(o.split()[1]), escape_py(p))
            else:
                im = pyfnmatch.fnmatchcase(k, p)
                if (o.strip() == "ok 1") != im:
                    chk.disagree("nm.fnmatch", dict(pattern=p, name=k), o, im)
        if states:
            chk.sample(dict(keys=list(states[0][0].register_keys), common=attempt(lambda: states[0][0].common)))
        # large databases (33 ... 300 series over 1-3 files, shared channel names): decided by the clauses alone (c09_big.py)
        from .c09_big import run_big
        run_big(chk)
    finally:
        fl.close()


def escape_py(s):
    """verbatim copy of TsDB.list._remove_special_characters for one string (used to feed fnmatch as the code does)"""
    s = s.replace("[", ":[:")
    s = s.replace("]", "[]]")
    s = s.replace(":[:", "[[]")
    s = s.replace("^", "[^]")
    s = s.replace("(", "[(]")
    s = s.replace(")", "[)]")
    return s


def f18_shape(f):
    """F18: the listed relative name of a key is a path-suffix of another key (same file name in a sub-directory)"""
    if f.get("clause") != "self-relative":
        return False
    inp = f["input"]
    r, k = inp.get("relative"), inp.get("key")
    if r is None or k is None:
        return False
    others = [x for x in inp["keys"] if x != k and x.endswith("/" + r)]
    return bool(others) and sorted(f["observed"]) == sorted([k] + others)


def f22_shape(f):
    """F22: the series name itself starts with '[' — the bracket-aware path helpers split the key at its first '[' and take
    the whole name for a unit bracket, so the listed relative name is '.<name>' / '<dir><name>' and selects nothing"""
    if f.get("clause") != "self-relative" or "key" not in f["input"]:
        return False
    k = f["input"]["key"]
    name = k.split(".pkl/")[-1] if ".pkl/" in k else os.path.basename(k)
    return name.startswith("[") and f["observed"] == []


def replay(rp):
    inp = rp.get("input")
    if isinstance(inp, dict) and inp.get("kind") == "big":
        from .c09_big import replay_big
        return replay_big(inp)
    dis = None
    if inp is None and rp.get("first_disagreement"):
        dis = rp["first_disagreement"]
        inp = dis.get("input")
    if not isinstance(inp, dict) or "spec" not in inp:
        if isinstance(inp, dict) and ("pattern" in inp or "s" in inp):
            print("string-function disagreement:", dis)
            return 1
        print("nothing to replay (no database spec in this file); re-run: VERIF_SEED=%s ./check C09 %s" % (rp.get("seed"), rp.get("tier")))
        return 1
    fl = FixedFiles(inp["root"], inp.get("root2"))
    try:
        print("spec:", inp["spec"])
        base = fl.base(inp["spec"])
        chk = core.Check("C09", "quick", 0)
        try:
            db, vals = realise(fl, inp["spec"])
        except Crash as e:
            crashed(chk, base, e)
            print("FAILS:", chk.failing[0]["oracle"])
            print("   observed:", chk.failing[0]["observed"])
            return 1
        keys = list(db.register_keys)
        print("keys:", keys)
        print("query:", inp["what"], repr(inp["arg"]))
        if inp["what"] == "build":
            print("replay: the database is built and its history runs without an exception")
            return 0
        if keys != inp.get("keys"):
            print("note: the rebuilt database has different keys than the recorded ones:", inp.get("keys"))
        what, arg, rel = inp["what"], inp["arg"], bool(inp.get("rel"))
        reply = None
        ln = line_for(what, arg, keys, os.getcwd(), rel)
        if ln is not None:
            try:
                reply = core.Driver().run([ln])[0]
            except Exception as e:      # the clauses on the implementation do not need the model
                print("model not available:", e)
        evaluate(chk, db, vals, base, what, arg, reply=reply, rel=rel)
        for f in chk.failing:
            print("FAILS:", f["oracle"])
            print("   expected:", f["expected"])
            print("   observed:", f["observed"])
        for d in chk.disagreements:
            print("model and implementation differ on %s: model %r, implementation %r" % (d["stream"], d["model"], d["impl"]))
        print("replay: %d failing clause(s), %d disagreement(s)" % (len(chk.failing), len(chk.disagreements)))
        return 1 if (chk.failing or chk.disagreements) else 0
    finally:
        fl.close()
