"""
C09 — selecting series by name is literal, complete and ordered.

Tie: correspondence of `TsDB.list(names, relative)`, `get(name)` (key or error kind), `name in db`, `getm` keys and `common`
with `Qats.Names` on databases built from generated files (names over the property's alphabet: letters, digits, `_ - .`
space `[ ] ( ) ^` and `/` inside brackets) in one or several directories plus in-memory series; also the string functions
themselves (`fnmatch` of escaped patterns, `_remove_special_characters`) against the Python originals.
Search: literal / complete / ordered / self-selection clauses on the real database.
"""
import fnmatch as pyfnmatch
import os

import numpy as np

from .. import core
from ..dbutil import Files, err_enum, hx, hxlist, unhx, unhxlist

RULE = ("seeded key sets: 1-3 generated files in 1-2 directories (incl. same file name in a sub-directory) with 1-4 series each, names "
        "from the property's alphabet incl. unit brackets with '/', optionally in-memory series; patterns: every name, full key, listed "
        "relative name, fragments with * and ?, two-pattern lists; non-trivial = pattern with a special character or wildcard; "
        "distinct by (key set, pattern)")

POOL = ["a", "b", "Tension [kN/m]", "Moment [kNm]", "x y", "Acc(1)", "z^2", "m_1-2.5", "T [kN/m]", "Heave (m)", "[raw]", "a b [m/s^2]",
        "Force", "force_2", "A", "p[0]", "q]"]


def build(rng, fl):
    from qats import TsDB, TimeSeries
    nfiles = rng.choice([1, 1, 2, 3])
    layouts = rng.choice([["f.pkl"], ["f.pkl", "g.pkl"], ["f.pkl", "sub/f.pkl"], ["d1/f.pkl", "d2/f.pkl", "d1/g.pkl"]])[:nfiles]
    db = TsDB()
    for i, rel in enumerate(layouts):
        names = rng.sample(POOL, rng.choice([1, 1, 2, 3, 4]))
        p = fl.make(os.path.join("c%06d" % rng.randrange(10 ** 6), rel), names, seed=i)
        db.load([p])
    if rng.random() < 0.25:
        t = np.arange(3.0)
        for nm in rng.sample(POOL, rng.choice([1, 2])):
            try:
                db.add(TimeSeries(nm, t, t))
            except KeyError:
                pass
    return db


def patterns(rng, db):
    keys = list(db.register_keys)
    rel = db.list(display=False, relative=True)
    names = [k.split(".pkl/")[-1] if ".pkl/" in k else os.path.basename(k) for k in keys]
    pats = set()
    for k, r, n in zip(keys, rel, names):
        pats.update([k, r, n])
        if len(n) > 1:
            pats.update([n[:-1] + "*", "*" + n[1:], n[0] + "?" + n[2:], n.replace(" ", "?")])
        pats.add(os.path.basename(os.path.dirname(k)) + "/" + n)
        pats.add("*/" + n)
    pats.update(["*", "*[kN/m]", "*(*)", "nomatch", "[raw]", "*^*", "?", "*.pkl/*", "* *"])
    return sorted(pats)


def run(chk):
    chk.extra["rule"] = RULE
    chk.assumptions += ["POSIX paths; keys are abspath(file)/name (normalised)",
                        "fnmatch character ranges are not modelled: every pattern reaches fnmatch escaped"]
    chk.partial += ["self_select_relative_partial: unambiguous selection by the listed relative name holds when no other key ends in "
                    "'/<relative name>'; false in general (known finding F18, machine-checked counterexample in Props/C09.lean)"]
    chk.matchers["F18"] = f18_shape
    chk.matchers["F22"] = f22_shape
    rng = chk.rng
    drv = core.Driver()
    fl = Files()
    cwd = os.getcwd()
    try:
        N = 60 if chk.quick else 700
        lines, meta = [], []
        dbs = []
        for _ in range(N):
            db = build(rng, fl)
            keys = list(db.register_keys)
            dbs.append(db)
            K = hxlist(keys)
            pats = patterns(rng, db)
            if chk.quick:
                pats = rng.sample(pats, min(len(pats), 25))
            lines.append("nm.common %s" % K); meta.append((db, "common", None))
            lines.append("nm.list %s 1 none %s" % (hx(cwd), K)); meta.append((db, "rel", None))
            for p in pats:
                lines.append("nm.list %s 0 %s %s" % (hx(cwd), hxlist([p]), K)); meta.append((db, "list", p))
                lines.append("nm.get %s %s" % (hx(p), K)); meta.append((db, "get", p))
                lines.append("nm.contains %s %s" % (hx(p), K)); meta.append((db, "in", p))
            for _ in range(3):
                two = rng.sample(pats, 2)
                lines.append("nm.list %s %d %s %s" % (hx(cwd), rng.random() < 0.5, hxlist(two), K)); meta.append((db, "list2", two))
                lines[-1] = lines[-1]
            for k in keys:
                lines.append("nm.retkey %s %s" % (hx(k), K)); meta.append((db, "retkey", k))
        outs = drv.run(lines)
        for (db, what, arg), ln, o in zip(meta, lines, outs):
            keys = list(db.register_keys)
            inp = dict(keys=keys, what=what, arg=arg)
            chk.count("nm." + what)
            if what == "common":
                if unhx(o.split()[1]) != db.common:
                    chk.disagree("nm.common", inp, unhx(o.split()[1]), db.common)
            elif what == "rel":
                im = db.list(display=False, relative=True)
                if unhxlist(o.split()[1]) != im:
                    chk.disagree("nm.list(relative)", inp, unhxlist(o.split()[1]), im)
            elif what in ("list", "list2"):
                rel = ln.split()[2] == "1"
                names = arg if what == "list2" else arg
                im = db.list(names=names if what == "list2" else arg, display=False, relative=rel)
                if unhxlist(o.split()[1]) != im:
                    chk.disagree("nm.list", inp, unhxlist(o.split()[1]), im)
                if what == "list":
                    if any(c in arg for c in "[]()^*?"):
                        chk.nontriv((tuple(keys), arg))
                    chk.dist("matches=%d" % min(len(im), 3))
                    # literal, complete, ordered: reference matcher where only * and ? are special
                    cm = db.common
                    pat = arg if (cm == "" or arg.startswith(cm)) else "*/" + arg
                    import re
                    rx = re.compile("".join(".*" if c == "*" else "." if c == "?" else re.escape(c) for c in pat) + r"\Z", re.S)
                    ref = [k for k in keys if rx.match(k)]
                    if im != ref:
                        chk.fail("selection returns exactly the registered keys matching the shell-style pattern with brackets, "
                                 "parentheses and carets literal, in registration order", inp, ref, im, clause="literal")
            elif what == "get":
                try:
                    db.get(name=arg, store=False)
                    im = "ok " + hx(db.list(names=arg, display=False)[0])   # get returns the series; its key is the listing's
                except Exception as e:
                    im = err_enum(e)
                if o.strip() != im:
                    chk.disagree("nm.get", inp, o, im)
                n = len(db.list(names=arg, display=False))
                exp = "err lookup" if n == 0 else "err value" if n > 1 else "ok"
                if not im.startswith(exp):
                    chk.fail("single retrieval agrees with the listing (no match: lookup error; several: value error)", inp, exp, im,
                             clause="get-agrees")
            elif what == "in":
                im = arg in db
                if (o.strip() == "ok 1") != im:
                    chk.disagree("nm.contains", inp, o, im)
                if im != (len(db.list(names=arg, display=False)) > 0):
                    chk.fail("containment agrees with the listing", inp, len(db.list(names=arg, display=False)) > 0, im, clause="in-agrees")
            elif what == "retkey":
                c = db.getm(names=arg, store=False)
                got = list(c.keys())
                if got != [unhx(o.split()[1])] and len(got) == 1:
                    chk.disagree("nm.retkey", inp, unhx(o.split()[1]), got)
        # ---- self-selection on the real database ---------------------------------------------------------------------------------
        for db in dbs:
            keys = list(db.register_keys)
            rel = db.list(display=False, relative=True)
            for k, r in zip(keys, rel):
                chk.count("self-select")
                inp = dict(keys=keys, key=k, relative=r)
                if db.list(names=k, display=False) != [k]:
                    chk.fail("every registered series is selected unambiguously by its full key", inp, [k], db.list(names=k, display=False),
                             clause="self-full")
                got = db.list(names=r, display=False)
                if got != [k]:
                    chk.fail("every registered series is selected unambiguously by its own listed relative name", inp, [k], got,
                             clause="self-relative")
        # ---- histories: query, mutate the database (update / rename / clear / add), query again ------------------------------------
        # (derived state such as the common path must follow every mutation)
        from qats import TimeSeries
        hl, hm = [], []
        for db in dbs[:len(dbs) // 2]:
            other = build(rng, fl)
            op = rng.choice(["update", "update", "rename", "clear", "add"])
            keys0 = list(db.register_keys)
            _ = db.common, db.list(display=False, relative=True)          # query first
            try:
                if op == "update":
                    db.update(other, shallow=rng.random() < 0.5)
                elif op == "rename":
                    db.rename(keys0[0], "renamed_series")
                elif op == "clear":
                    db.clear(names=keys0[-1], display=False)
                else:
                    db.add(TimeSeries("added_1", np.arange(3.0), np.arange(3.0)))
            except (KeyError, ValueError, LookupError):
                continue
            keys = list(db.register_keys)
            if not keys:
                continue
            K = hxlist(keys)
            hl.append("nm.common %s" % K); hm.append((db, op, "common", None))
            hl.append("nm.list %s 1 none %s" % (hx(cwd), K)); hm.append((db, op, "rel", None))
            for k in keys:
                hl.append("nm.list %s 0 %s %s" % (hx(cwd), hxlist([k]), K)); hm.append((db, op, "full", k))
        for (db, op, what, arg), o in zip(hm, drv.run(hl)):
            keys = list(db.register_keys)
            inp = dict(keys=keys, after=op, what=what, arg=arg)
            chk.count("history." + what)
            if what == "common":
                if unhx(o.split()[1]) != db.common:
                    chk.disagree("nm.common(after %s)" % op, inp, unhx(o.split()[1]), db.common)
            elif what == "rel":
                im = db.list(display=False, relative=True)
                if unhxlist(o.split()[1]) != im:
                    chk.disagree("nm.list(relative, after %s)" % op, inp, unhxlist(o.split()[1]), im)
            else:
                im = db.list(names=arg, display=False)
                if unhxlist(o.split()[1]) != im:
                    chk.disagree("nm.list(after %s)" % op, inp, unhxlist(o.split()[1]), im)
                if im != [arg]:
                    chk.fail("every registered series is selected unambiguously by its full key (after %s)" % op,
                             dict(keys=keys, key=arg, after=op), [arg], im, clause="self-full")
        # ---- the string functions against the Python originals ---------------------------------------------------------------------
        alpha = "ab [](^)!-:*?/."
        sl, sm = [], []
        for _ in range(400 if chk.quick else 6000):
            p = "".join(rng.choice(alpha) for _ in range(rng.randint(0, 7)))
            k = "".join(rng.choice(alpha) for _ in range(rng.randint(0, 6)))
            if rng.random() < 0.5 and p:
                k = p.replace("*", rng.choice(["", "x", "ab"])).replace("?", rng.choice("ab["))
            sl.append("nm.escape %s" % hx(p)); sm.append(("escape", p, k))
            sl.append("nm.fnmatch %s %s" % (hx(escape_py(p)), hx(k))); sm.append(("fnmatch", escape_py(p), k))
        for (what, p, k), o in zip(sm, drv.run(sl)):
            chk.count("str." + what)
            if what == "escape":
                if unhx(o.split()[1]) != escape_py(p):
                    chk.disagree("nm.escape", dict(s=p), unhx(o.split()[1]), escape_py(p))
            else:
                im = pyfnmatch.fnmatchcase(k, p)
                if (o.strip() == "ok 1") != im:
                    chk.disagree("nm.fnmatch", dict(pattern=p, name=k), o, im)
        chk.sample(dict(keys=list(dbs[0].register_keys), common=dbs[0].common))
    finally:
        fl.close()


def escape_py(s):
    """verbatim copy of TsDB.list._remove_special_characters for one string (used to feed fnmatch as the code does)"""
    s = s.replace("[", ":[:")
    s = s.replace("]", "[]]")
    s = s.replace(":[:", "[[]")
    s = s.replace("^", "[^]")
    s = s.replace("(", "[(]")
    s = s.replace(")", "[)]")
    return s


def f18_shape(f):
    """F18: the listed relative name of a key is a path-suffix of another key (same file name in a sub-directory)"""
    if f.get("clause") != "self-relative":
        return False
    inp = f["input"]
    r, k = inp["relative"], inp["key"]
    others = [x for x in inp["keys"] if x != k and x.endswith("/" + r)]
    return bool(others) and sorted(f["observed"]) == sorted([k] + others)


def f22_shape(f):
    """F22: the series name itself starts with '[' — the bracket-aware path helpers split the key at its first '[' and take
    the whole name for a unit bracket, so the listed relative name is '.<name>' / '<dir><name>' and selects nothing"""
    if f.get("clause") != "self-relative":
        return False
    k = f["input"]["key"]
    name = k.split(".pkl/")[-1] if ".pkl/" in k else os.path.basename(k)
    return name.startswith("[") and f["observed"] == []


def replay(rp):
    from qats import TsDB
    inp = rp["input"]
    print("keys:", inp["keys"])
    print("replay needs the generated files; re-run: VERIF_SEED=%s ./check C09 %s" % (rp.get("seed"), rp.get("tier")))
    return 1
