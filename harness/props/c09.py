"""
C09 — selecting series by name is literal, complete and ordered.

Tie: correspondence of `TsDB.list(names, relative)`, `get(name)` (key or error kind), `name in db`, `getm` keys and `common`
with `Qats.Names` on databases built from generated files (names over the property's alphabet: letters, digits, `_ - .`
space `[ ] ( ) ^` and `/` inside brackets) in one or several directories plus in-memory series; also the string functions
themselves (`fnmatch` of escaped patterns, `_remove_special_characters`) against the Python originals.
Search: literal / complete / ordered / self-selection / retrieval-order clauses on the real database, on freshly built databases
and after operation histories (query, read-and-store, rename, clear, add, update, load of a further file).

Every database is described by a JSON `spec` (files with their column names, in-memory series, history of operations) and is
rebuilt from it on replay under the same temporary root, so that keys and patterns are identical.

Round 3: name families (one quantity in several units / several quantities in one unit, all names bracketed), purely in-memory
databases, new names of rename / add drawn from the same family; clause "'*' selects all"; an exception of a listing is a failing
clause, not a harness error.  This exposed F23 (common path cut inside a unit bracket) and F24 (relative + absolute keys mixed).
"""
import fnmatch as pyfnmatch
import os
import re
import shutil

import numpy as np

from .. import core
from ..dbutil import Files, err_enum, hx, hxlist, unhx, unhxlist

RULE = ("seeded key sets: 1-3 generated files in 1-2 directories (incl. same file name in a sub-directory, same channel names in "
        "several files) with 1-4 series each, names from the property's alphabet incl. unit brackets with '/' — from a fixed pool or "
        "composed as quantity+unit (1-2 quantities x 2-4 units: every name identical in front of the bracket, units agreeing up to a "
        "'/'), optionally in-memory series, also purely in-memory databases; optionally a history of 1-3 operations (query / get+store / getm+store / rename / clear / add / update / load) before "
        "the queries; patterns: names=None, every name, full key, listed relative name, fragments with * and ?, pattern lists of 2-3 "
        "(also in non-registration order); non-trivial = pattern with a special character or wildcard; distinct by (key set, pattern)")

POOL = ["a", "b", "Tension [kN/m]", "Moment [kNm]", "x y", "Acc(1)", "z^2", "m_1-2.5", "T [kN/m]", "Heave (m)", "[raw]", "a b [m/s^2]",
        "Force", "force_2", "A", "p[0]", "q]"]
NEWNAMES = POOL + ["renamed_series", "Sway (lf) [m]", "Surge^2 [m^2]", "added_1"]
# names composed as <quantity><separator><unit>: the same quantity in several units, several quantities in one unit; a database whose
# names ALL carry a unit bracket (the bracket-aware path helpers and the common path then see nothing but bracketed keys)
STEMS = ["Tension", "acc(1)", "a", "x y", "Heave", "m_1-2.5", "z^2", "T", "Moment.y", "Line-1 force"]
UNITS = ["[kN]", "[N]", "[kN/m]", "[N/m]", "[m/s^2]", "[g]", "[-]", "[m]", "[deg]", "[rad/s]", "[m^2 s/rad]", "(m)", "[kNm]"]
# units that agree up to a '/' inside the bracket (kept apart: F23)
UNITS_SLASH = ["[m/s]", "[m/s^2]", "[kN/m]", "[kN/m^2]", "[deg/s]", "[deg/s^2]"]
LAYOUTS = [["f.pkl"], ["f.pkl", "g.pkl"], ["f.pkl", "sub/f.pkl"], ["d1/f.pkl", "d2/f.pkl", "d1/g.pkl"]]
OP_ERRORS = (KeyError, ValueError, LookupError, TypeError)


# ---------------------------------------------------------------------------------------------------------------------------------
# scenario description (JSON) and its realisation on the real TsDB
# ---------------------------------------------------------------------------------------------------------------------------------
class Gen:
    """generator of database specs; directory names carry a running number so that two specs never share a file"""

    def __init__(self, rng):
        self.rng = rng
        self.ndir = 0
        self.spare = []          # further names of the family the last spec was drawn from (new names for rename / add)

    def newdir(self):
        self.ndir += 1
        return "c%04d%02d" % (self.ndir, self.rng.randrange(100))

    def family(self):
        """a pool of composed names: 1-2 quantities x 2-4 units (one quantity: every name identical in front of the bracket)"""
        rng = self.rng
        stems = rng.sample(STEMS, rng.choice([1, 1, 2]))
        units = rng.sample(UNITS_SLASH if rng.random() < 0.2 else UNITS, rng.choice([2, 3, 4]))
        sep = rng.choice([" ", " ", "", "_"])
        names = [s + sep + u for s in stems for u in units]
        if rng.random() < 0.2:
            names.append(rng.choice(stems))                       # the bare quantity next to its unit variants
        rng.shuffle(names)
        self.spare = [s + sep + u for s in stems for u in UNITS + UNITS_SLASH if s + sep + u not in names]
        return names

    def spec(self, seed0=0, mem=True):
        rng = self.rng
        if rng.random() < 0.35:
            return self.spec_from(self.family(), seed0, mem)
        self.spare = []
        return self.spec_from(POOL, seed0, mem)

    def spec_from(self, POOL, seed0, mem):
        rng = self.rng
        if mem and rng.random() < 0.12:                           # purely in-memory database
            return dict(files=[], mem=rng.sample(POOL, min(len(POOL), rng.choice([2, 3, 4]))))
        nfiles = rng.choice([1, 1, 2, 3])
        layout = rng.choice(LAYOUTS)[:nfiles]
        one_dir = rng.random() < 0.5                  # the layout inside one directory / every file in a directory of its own
        same_names = rng.random() < 0.4               # the same channels in every file (case files of one model)
        d0 = self.newdir()
        base = rng.sample(POOL, min(len(POOL), rng.choice([2, 3, 4])))
        files = []
        for i, rel in enumerate(layout):
            d = d0 if one_dir else self.newdir()
            if same_names:
                names = list(base)
                if rng.random() < 0.3:
                    rng.shuffle(names)
            else:
                names = rng.sample(POOL, min(len(POOL), rng.choice([1, 1, 2, 3, 4])))
            files.append([os.path.join(d, rel), names, seed0 + i])
        spec = dict(files=files)
        if mem and rng.random() < 0.25:
            spec["mem"] = rng.sample(POOL, rng.choice([1, 2]))
        return spec

    def allnames(self, spec):
        return [n for f in spec["files"] for n in f[1]] + list(spec.get("mem", []))

    def history(self, spec):
        rng = self.rng
        ops = []
        spare = list(self.spare)

        def newname():
            return rng.choice(spare) if spare and rng.random() < 0.6 else rng.choice(NEWNAMES)

        for _ in range(rng.choice([1, 1, 2, 3])):
            kind = rng.choice(["query", "get", "get", "getm", "rename", "rename", "clear", "add", "update", "load"])
            if kind == "query":
                ops.append(["query"])
            elif kind == "get":
                ops.append(["get", rng.randrange(8), rng.random() < 0.8])
            elif kind == "getm":
                nm = rng.choice(self.allnames(spec))
                ops.append(["getm", rng.choice(["*", nm, nm[:1] + "*", [nm[:1] + "*", "*"]]), rng.random() < 0.8])
            elif kind == "rename":
                ops.append(["rename", rng.randrange(8), newname()])
            elif kind == "clear":
                ops.append(["clear", rng.randrange(8)])
            elif kind == "add":
                ops.append(["add", newname(), 2000.0 + len(ops)])
            elif kind == "update":
                ops.append(["update", self.spec(seed0=10 * (len(ops) + 1)), rng.random() < 0.5])
            else:
                ops.append(["load", [os.path.join(self.newdir(), rng.choice(["f.pkl", "g.pkl", "h.pkl"])),
                                     rng.sample(POOL, rng.choice([1, 2, 3])), 50 + len(ops)]])
        return ops


class FixedFiles(Files):
    """the temporary tree of a past run, re-created under the same root (replay: keys and patterns stay identical)"""

    def __init__(self, root):
        self.root = root
        self.created = not os.path.exists(root)
        os.makedirs(root, exist_ok=True)

    def close(self):
        if self.created:
            shutil.rmtree(self.root, ignore_errors=True)


def realise(fl, spec):
    """build the database described by `spec`; returns (db, vals): vals[i] = first data value of the i-th registered series
    (tracked by the harness along the history: load/add/update append, rename keeps the position, clear removes), or None when
    the bookkeeping could not follow an operation"""
    from qats import TsDB, TimeSeries
    db = TsDB()
    st = dict(vals=[])

    def load(f):
        rel, names, seed = f
        p = fl.make(rel, names, seed=seed)
        db.load([p])
        st["vals"] += [100.0 * (seed + 1) + 10.0 * j for j in range(len(names))]

    def add(nm, v):
        t = np.arange(3.0)
        try:
            db.add(TimeSeries(nm, t, t + v))
            st["vals"].append(float(v))
        except KeyError:
            pass

    for f in spec["files"]:
        load(f)
    for j, nm in enumerate(spec.get("mem", [])):
        add(nm, 1000.0 + 10.0 * j)
    for op in spec.get("hist", []):
        n = len(db.register_keys)
        keys = list(db.register_keys)
        try:
            if op[0] == "query":
                _ = db.common, db.list(display=False, relative=True), db.list(names="*", display=False)
            elif op[0] == "get" and n:
                db.get(name=keys[op[1] % n], store=op[2])
            elif op[0] == "getm":
                db.getm(names=op[1], store=op[2])
            elif op[0] == "rename" and n:
                db.rename(keys[op[1] % n], op[2])
            elif op[0] == "clear" and n:
                db.clear(names=keys[op[1] % n], display=False)
                if list(db.register_keys) == keys[:op[1] % n] + keys[op[1] % n + 1:]:
                    st["vals"].pop(op[1] % n)
                else:
                    st["vals"] = None
            elif op[0] == "add":
                add(op[1], op[2])
            elif op[0] == "update":
                other, ovals = realise(fl, op[1])
                db.update(other, shallow=op[2])
                if st["vals"] is not None and ovals is not None:
                    st["vals"] += ovals
                else:
                    st["vals"] = None
            elif op[0] == "load":
                load(op[1])
        except OP_ERRORS:
            pass
        if st["vals"] is None:
            break
    vals = st["vals"]
    if vals is not None and len(vals) != len(db.register_keys):
        vals = None
    return db, vals


# ---------------------------------------------------------------------------------------------------------------------------------
# queries
# ---------------------------------------------------------------------------------------------------------------------------------
def short(k):
    return k.split(".pkl/")[-1] if ".pkl/" in k else os.path.basename(k)


def relative_names(db):
    """listed relative names, or the error kind when the listing itself raises"""
    try:
        return db.list(display=False, relative=True)
    except Exception as e:
        return err_enum(e)


def patterns(db):
    keys = list(db.register_keys)
    rel = relative_names(db)
    if not isinstance(rel, list) or len(rel) != len(keys):
        rel = keys
    names = [short(k) for k in keys]
    pats = set()
    for k, r, n in zip(keys, rel, names):
        pats.update([k, r, n])
        if len(n) > 1:
            pats.update([n[:-1] + "*", "*" + n[1:], n[0] + "?" + n[2:], n.replace(" ", "?")])
        pats.add(os.path.basename(os.path.dirname(k)) + "/" + n)
        pats.add("*/" + n)
    pats.update(["*", "*[kN/m]", "*(*)", "nomatch", "[raw]", "*^*", "?", "*.pkl/*", "* *"])
    return sorted(pats)


def pattern_lists(rng, db, pats, count):
    """lists of 2-3 patterns: arbitrary ones, wildcard ones, and one pattern per distinct series name taken in an order that is
    not the registration order (the matches of such a list interleave the files)"""
    keys = list(db.register_keys)
    uniq = []
    for k in keys:
        if short(k) not in uniq:
            uniq.append(short(k))
    wild = [p for p in pats if "*" in p or "?" in p]
    out = []
    for i in range(count):
        m = rng.choice([2, 2, 3])
        mode = i % 3
        if mode == 0 and len(uniq) >= 2:
            pick = rng.sample(uniq, min(m, len(uniq)))
            pick.sort(key=lambda n: -uniq.index(n))
            if rng.random() < 0.3:
                rng.shuffle(pick)
            out.append([n if (rng.random() < 0.5 or len(n) < 2) else n[:1] + "*" for n in pick])
        elif mode == 1 and len(wild) >= 2:
            out.append(rng.sample(wild, min(m, len(wild))))
        else:
            out.append(rng.sample(pats, min(m, len(pats))))
    return out


def line_for(what, arg, keys, cwd, rel=False):
    K = hxlist(keys)
    if what == "common":
        return "nm.common %s" % K
    if what == "rel":
        return "nm.list %s 1 none %s" % (hx(cwd), K)
    if what == "none":
        return "nm.list %s 0 none %s" % (hx(cwd), K)
    if what == "list":
        return "nm.list %s 0 %s %s" % (hx(cwd), hxlist([arg]), K)
    if what == "listn":
        return "nm.list %s %d %s %s" % (hx(cwd), 1 if rel else 0, hxlist(list(arg)), K)
    if what == "get":
        return "nm.get %s %s" % (hx(arg), K)
    if what == "in":
        return "nm.contains %s %s" % (hx(arg), K)
    if what == "retkey":
        return "nm.retkey %s %s" % (hx(arg), K)
    return None


def dedup(l):
    out = []
    for x in l:
        if x not in out:
            out.append(x)
    return out


def reference(keys, common, pat):
    """reference matcher: only * and ? are special; a pattern that does not start with the common path matches below any directory"""
    if not (common == "" or pat.startswith(common)):
        pat = "*/" + pat
    rx = re.compile("".join(".*" if c == "*" else "." if c == "?" else re.escape(c) for c in pat) + r"\Z", re.S)
    return [k for k in keys if rx.match(k)]


def first_values(tslist):
    return [float(ts.x[0]) for ts in tslist]


def retrieval(chk, db, vals, keys, inp, names, listed):
    """selection through getm / getl returns the listed series, in listing order"""
    want = dedup(listed)
    try:
        got = list(db.getm(names=names, fullkey=True, store=False).keys())
    except Exception as e:
        got = err_enum(e)
    if got != want:
        chk.fail("retrieval of several series by names (getm keys) returns exactly the listed series, ordered by pattern and then by "
                 "registration order", inp, want, got, clause="getm-order")
    # short names (fullkey=False): one entry per selected series — none lost — each named by the end of its own key, holding its data
    try:
        short = db.getm(names=names, fullkey=False, store=False)
        sk = list(short.keys())
        bad = len(sk) != len(want) or any(not k.endswith(r) or r == "" for r, k in zip(sk, want))
        if not bad and vals is not None:
            bad = first_values(list(short.values())) != [vals[keys.index(k)] for k in want]
        obs = sk
    except Exception as e:
        bad, obs = True, err_enum(e)
    if bad:
        chk.fail("retrieval of several series by names with short names (getm fullkey=False) returns one entry per listed series, each "
                 "named by the trailing part of its own key and holding its data", inp, want, obs, clause="getm-short")
    if vals is not None:
        exp = [vals[keys.index(k)] for k in want]
        try:
            gv = first_values(db.getl(names=names, store=False))
        except Exception as e:
            gv = err_enum(e)
        if gv != exp:
            chk.fail("retrieval of several series by names (getl) returns the data of the listed series, ordered by pattern and "
                     "then by registration order", inp, exp, gv, clause="getl-order")


def evaluate(chk, db, vals, base, what, arg, reply=None, rel=False):
    """one query; an exception of the implementation outside the places where the property names an error is a failing clause"""
    try:
        _evaluate(chk, db, vals, base, what, arg, reply, rel)
    except Exception as e:
        inp = dict(base, keys=list(db.register_keys), what=what, arg=arg)
        if rel:
            inp["rel"] = True
        chk.fail("selecting / listing by names returns the matching registered series (it does not raise)", inp, "a list of keys",
                 "%s: %s" % (err_enum(e), e), clause="raises")


def _evaluate(chk, db, vals, base, what, arg, reply=None, rel=False):
    """correspondence with the model reply (when given) and the property's clauses on the real database for one query"""
    keys = list(db.register_keys)
    inp = dict(base, keys=keys, what=what, arg=arg)
    if rel:
        inp["rel"] = True
    o = reply
    chk.count("nm." + what)
    if what == "common":
        if o is not None and unhx(o.split()[1]) != db.common:
            chk.disagree("nm.common", inp, unhx(o.split()[1]), db.common)
    elif what == "rel":
        im = relative_names(db)
        # (the model's relpath has the precondition "path non-empty"; an implementation error is reported by the clause below)
        if o is not None and isinstance(im, list) and (not o.startswith("ok") or unhxlist(o.split()[1]) != im):
            chk.disagree("nm.list(relative)", inp, unhxlist(o.split()[1]) if o.startswith("ok") else o, im)
        if not isinstance(im, list) or len(im) != len(keys):
            chk.fail("every registered series has a listed relative name (the relative listing has one entry per registered series)",
                     inp, len(keys), im if not isinstance(im, list) else len(im), clause="self-relative")
    elif what == "none":
        im = db.list(display=False)
        if o is not None and unhxlist(o.split()[1]) != im:
            chk.disagree("nm.list(all)", inp, unhxlist(o.split()[1]), im)
        if im != keys:
            chk.fail("without a pattern every registered series is listed, in registration order", inp, keys, im, clause="all-ordered")
        try:
            byind = list(db.getm(ind=list(range(len(keys))), fullkey=True, store=False).keys())
        except Exception as e:
            byind = err_enum(e)
        if byind != im:
            chk.fail("listing without a pattern and retrieval of all series by index agree (both in registration order)", inp, im, byind,
                     clause="all-ordered")
        retrieval(chk, db, vals, keys, inp, None, im)
    elif what in ("list", "listn"):
        im = db.list(names=arg, display=False, relative=rel)
        if o is not None and unhxlist(o.split()[1]) != im:
            chk.disagree("nm.list", inp, unhxlist(o.split()[1]), im)
        if what == "list":
            if any(c in arg for c in "[]()^*?"):
                chk.nontriv((tuple(keys), arg))
            chk.dist("matches=%d" % min(len(im), 3))
            # literal, complete, ordered: reference matcher where only * and ? are special
            ref = reference(keys, db.common, arg)
            if im != ref:
                chk.fail("selection returns exactly the registered keys matching the shell-style pattern with brackets, "
                         "parentheses and carets literal, in registration order", inp, ref, im, clause="literal")
            if arg == "*" and im != keys:
                chk.fail("the pattern '*' matches every name: it selects all registered series, in registration order", inp, keys, im,
                         clause="star-all")
            retrieval(chk, db, vals, keys, inp, arg, im)
        elif not rel:
            chk.nontriv((tuple(keys), tuple(arg)))
            cm = db.common
            ref = dedup([k for p in arg for k in reference(keys, cm, p)])
            if dedup(im) != ref:
                chk.fail("selection by a list of patterns returns exactly the matching registered keys, ordered by pattern and then "
                         "by registration order", inp, ref, dedup(im), clause="list-ordered")
            retrieval(chk, db, vals, keys, inp, list(arg), im)
            if isinstance(arg, list):
                tu = db.list(names=tuple(arg), display=False)
                if tu != im:
                    chk.fail("a tuple of patterns selects as the list of the same patterns", inp, im, tu, clause="list-ordered")
    elif what == "get":
        listed = db.list(names=arg, display=False)
        try:
            ts = db.get(name=arg, store=False)
            im = "ok " + hx(listed[0])            # get returns the series; its key is the listing's
        except Exception as e:
            ts = None
            im = err_enum(e)
        if o is not None and o.strip() != im:
            chk.disagree("nm.get", inp, o, im)
        n = len(listed)
        exp = "err lookup" if n == 0 else "err value" if n > 1 else "ok"
        if not im.startswith(exp):
            chk.fail("single retrieval agrees with the listing (no match: lookup error; several: value error)", inp, exp, im,
                     clause="get-agrees")
        if ts is not None and n == 1 and vals is not None and listed[0] in keys:
            v, e = float(ts.x[0]), vals[keys.index(listed[0])]
            if v != e:
                chk.fail("single retrieval returns the listed series", inp, e, v, clause="get-agrees")
    elif what == "in":
        im = arg in db
        if o is not None and (o.strip() == "ok 1") != im:
            chk.disagree("nm.contains", inp, o, im)
        if im != (len(db.list(names=arg, display=False)) > 0):
            chk.fail("containment agrees with the listing", inp, len(db.list(names=arg, display=False)) > 0, im, clause="in-agrees")
    elif what == "retkey":
        c = db.getm(names=arg, store=False)
        got = list(c.keys())
        if o is not None and got != [unhx(o.split()[1])] and len(got) == 1:
            chk.disagree("nm.retkey", inp, unhx(o.split()[1]), got)
    elif what == "self":
        # arg = position of the series in registration order
        k = keys[arg]
        rl = relative_names(db)
        r = rl[arg] if isinstance(rl, list) and len(rl) == len(keys) else None
        inp = dict(base, keys=keys, what=what, arg=arg, key=k, relative=r)
        got = db.list(names=k, display=False)
        if got != [k]:
            chk.fail("every registered series is selected unambiguously by its full key", inp, [k], got, clause="self-full")
        if r is None:
            return                                  # reported by the "rel" query of this state
        got = db.list(names=r, display=False)
        if got != [k]:
            chk.fail("every registered series is selected unambiguously by its own listed relative name", inp, [k], got,
                     clause="self-relative")


def enqueue(rng, quick, db, todo, npats, nlists, extra_pats=(), extra_lists=()):
    """the queries asked of one database state: (what, arg, rel) triples"""
    keys = list(db.register_keys)
    pats = patterns(db)
    chosen = rng.sample(pats, min(len(pats), npats)) if quick else list(pats)
    for p in ["*"] + list(extra_pats):
        if p not in chosen:
            chosen.append(p)
    q = [("common", None, False), ("rel", None, False), ("none", None, False)]
    for p in chosen:
        q += [("list", p, False), ("get", p, False), ("in", p, False)]
    for _ in range(3):
        q.append(("listn", rng.sample(pats, 2), rng.random() < 0.5))
    for l in pattern_lists(rng, db, pats, nlists) + [list(l) for l in extra_lists]:
        q.append(("listn", l, False))
    for k in keys:
        q.append(("retkey", k, False))
    for i in range(len(keys)):
        q.append(("self", i, False))
    todo.append(q)


def run(chk):
    chk.extra["rule"] = RULE
    chk.assumptions += ["POSIX paths; keys are abspath(file)/name (normalised)",
                        "fnmatch character ranges are not modelled: every pattern reaches fnmatch escaped"]
    chk.partial += ["self_select_relative_partial: unambiguous selection by the listed relative name holds when no other key ends in "
                    "'/<relative name>'; false in general (known finding F18, machine-checked counterexample in Props/C09.lean)"]
    chk.matchers["F18"] = f18_shape
    chk.matchers["F22"] = f22_shape
    rng = chk.rng
    drv = core.Driver()
    fl = Files()
    cwd = os.getcwd()
    try:
        gen = Gen(rng)
        scns = []          # (spec, extra single patterns, extra pattern lists)
        for c in core.load_corpus("C09"):
            scns.append((c["spec"], c.get("pats", []), c.get("lists", [])))
        ncorpus = len(scns)
        N = 45 if chk.quick else 500
        H = 45 if chk.quick else 500
        for _ in range(N):
            scns.append((gen.spec(), [], []))
        for _ in range(H):
            spec = gen.spec()
            spec["hist"] = gen.history(spec)
            scns.append((spec, [], []))
        states, todo = [], []
        for i, (spec, xp, xl) in enumerate(scns):
            db, vals = realise(fl, spec)
            if not db.register_keys:
                continue
            states.append((db, vals, dict(root=fl.root, spec=spec)))
            enqueue(rng, chk.quick, db, todo, 18, 6, xp, xl)
            chk.dist("history=%d" % min(len(spec.get("hist", [])), 3))
            chk.dist("files=%d" % len(spec["files"]))
        lines, where = [], []
        for si, ((db, vals, base), q) in enumerate(zip(states, todo)):
            keys = list(db.register_keys)
            for qi, (what, arg, rel) in enumerate(q):
                ln = line_for(what, arg, keys, cwd, rel)
                if ln is not None:
                    where.append((si, qi))
                    lines.append(ln)
        replies = dict(zip(where, drv.run(lines)))
        for si, ((db, vals, base), q) in enumerate(zip(states, todo)):
            for qi, (what, arg, rel) in enumerate(q):
                evaluate(chk, db, vals, base, what, arg, reply=replies.get((si, qi)), rel=rel)
        chk.extra["corpus_cases"] = ncorpus
        # ---- the string functions against the Python originals ---------------------------------------------------------------------
        alpha = "ab [](^)!-:*?/."
        sl, sm = [], []
        for _ in range(400 if chk.quick else 6000):
            p = "".join(rng.choice(alpha) for _ in range(rng.randint(0, 7)))
            k = "".join(rng.choice(alpha) for _ in range(rng.randint(0, 6)))
            if rng.random() < 0.5 and p:
                k = p.replace("*", rng.choice(["", "x", "ab"])).replace("?", rng.choice("ab["))
            sl.append("nm.escape %s" % hx(p)); sm.append(("escape", p, k))
            sl.append("nm.fnmatch %s %s" % (hx(escape_py(p)), hx(k))); sm.append(("fnmatch", escape_py(p), k))
        for (what, p, k), o in zip(sm, drv.run(sl)):
            chk.count("str." + what)
            if what == "escape":
                if unhx(o.split()[1]) != escape_py(p):
                    chk.disagree("nm.escape", dict(s=p), unhx(o.split()[1]), escape_py(p))
            else:
                im = pyfnmatch.fnmatchcase(k, p)
                if (o.strip() == "ok 1") != im:
                    chk.disagree("nm.fnmatch", dict(pattern=p, name=k), o, im)
        chk.sample(dict(keys=list(states[0][0].register_keys), common=states[0][0].common))
    finally:
        fl.close()


def escape_py(s):
    """verbatim copy of TsDB.list._remove_special_characters for one string (used to feed fnmatch as the code does)"""
    s = s.replace("[", ":[:")
    s = s.replace("]", "[]]")
    s = s.replace(":[:", "[[]")
    s = s.replace("^", "[^]")
    s = s.replace("(", "[(]")
    s = s.replace(")", "[)]")
    return s


def f18_shape(f):
    """F18: the listed relative name of a key is a path-suffix of another key (same file name in a sub-directory)"""
    if f.get("clause") != "self-relative":
        return False
    inp = f["input"]
    r, k = inp.get("relative"), inp.get("key")
    if r is None or k is None:
        return False
    others = [x for x in inp["keys"] if x != k and x.endswith("/" + r)]
    return bool(others) and sorted(f["observed"]) == sorted([k] + others)


def f22_shape(f):
    """F22: the series name itself starts with '[' — the bracket-aware path helpers split the key at its first '[' and take
    the whole name for a unit bracket, so the listed relative name is '.<name>' / '<dir><name>' and selects nothing"""
    if f.get("clause") != "self-relative" or "key" not in f["input"]:
        return False
    k = f["input"]["key"]
    name = k.split(".pkl/")[-1] if ".pkl/" in k else os.path.basename(k)
    return name.startswith("[") and f["observed"] == []


def replay(rp):
    inp = rp.get("input")
    dis = None
    if inp is None and rp.get("first_disagreement"):
        dis = rp["first_disagreement"]
        inp = dis.get("input")
    if not isinstance(inp, dict) or "spec" not in inp:
        if isinstance(inp, dict) and ("pattern" in inp or "s" in inp):
            print("string-function disagreement:", dis)
            return 1
        print("nothing to replay (no database spec in this file); re-run: VERIF_SEED=%s ./check C09 %s" % (rp.get("seed"), rp.get("tier")))
        return 1
    fl = FixedFiles(inp["root"])
    try:
        db, vals = realise(fl, inp["spec"])
        keys = list(db.register_keys)
        print("spec:", inp["spec"])
        print("keys:", keys)
        print("query:", inp["what"], repr(inp["arg"]))
        if keys != inp.get("keys"):
            print("note: the rebuilt database has different keys than the recorded ones:", inp.get("keys"))
        chk = core.Check("C09", "quick", 0)
        what, arg, rel = inp["what"], inp["arg"], bool(inp.get("rel"))
        reply = None
        ln = line_for(what, arg, keys, os.getcwd(), rel)
        if ln is not None:
            try:
                reply = core.Driver().run([ln])[0]
            except Exception as e:      # the clauses on the implementation do not need the model
                print("model not available:", e)
        evaluate(chk, db, vals, dict(root=inp["root"], spec=inp["spec"]), what, arg, reply=reply, rel=rel)
        for f in chk.failing:
            print("FAILS:", f["oracle"])
            print("   expected:", f["expected"])
            print("   observed:", f["observed"])
        for d in chk.disagreements:
            print("model and implementation differ on %s: model %r, implementation %r" % (d["stream"], d["model"], d["impl"]))
        print("replay: %d failing clause(s), %d disagreement(s)" % (len(chk.failing), len(chk.disagreements)))
        return 1 if (chk.failing or chk.disagreements) else 0
    finally:
        fl.close()
