"""
C14 — extracted peaks are true maxima of the signal.

Tie: strict Rat correspondence (positions and values; equal-valued maxima canonicalised by position) of `find_maxima`
(local / global, thresholds), `TimeSeries.maxima/minima(rettime)`, `max/min`, `average_frequency` on all integer signals over
{0,1,2,3} up to the tier's length and random integer / dyadic signals.
Search: the property's clauses on the implementation alone (run-based characterisation computed independently in Python).
Query histories: the clauses must hold for EVERY call, whatever was called before.  Sequences of maxima / minima / max / min
queries (local/global, thresholds, windows, rettime on/off, returned arrays overwritten by the caller) are issued on one
TimeSeries (or on two series built from the same arrays) and every step is compared with the independent reference on the
signal the series was built from, with the model (same pk.max / pk.min requests), and with the signal read back from the
series after the call.  All 2-step (and 3-step) histories over a base set of 8 queries are enumerated on a few signals.
Units and offsets: the property is stated for all finite signals, so part of every random pool is the same kind of signal in
another unit (times 2**p, p in -200..200: micro-strain in SI units, forces in N instead of MN) and / or riding on a large mean
(offset up to 2**30 units).  Powers of two and small integers keep the float arithmetic exact, so the exact reference, the Rat
model and the affine-map law (a = 2**p, b a multiple of a signal value) still apply without tolerance.  Thresholds include values of the signal itself
(exact tie: `a threshold only removes values below it`) and the mid level.

Audit additions (classes of inputs inside the quantifier that were not generated before):
* spellings (stream `spell`): the same exact signal handed to `find_maxima` as float64 / int64 / int32 / int16 / unsigned / float32
  array, strided / reversed / column view, read-only array; threshold as float / int / numpy scalar / 0-d and 1-element array;
  `local` as bool / int / numpy bool; arguments positional, by keyword, with the deprecated `up` given.  Clauses: the reference,
  values at positions, ascending, and the SECOND call on the same array (returned arrays overwritten by the caller in between)
  returns the same maxima of the array that was passed, which is left as it was.  Same `pk.max` model request as the plain case.
* noisy real-valued signals (stream `float`): sines + noise, random walks, decimal-quantised signals (plateaus and ties at
  non-dyadic values), slow oscillations with few crossings, large means and decimal units, decimal time grids; through
  `find_maxima`, `TimeSeries.maxima/minima(twin, rettime)`.  The reference is evaluated in exact rationals on the float samples;
  a case is skipped (counted) when a sample lies within the rounding error of the float mean (the only place where rounding can
  change the answer).  Returned values must be bit-identical to the samples at the returned positions, times bit-identical to the
  stored times; scaling by 2**p and negation must commute exactly.  The Rat model gets the same samples as exact rationals.
* histories: the caller CHANGES the signal of a series between queries (`ts.x = …`, `ts.x[:] = …`, `ts.x[i] = v`, `ts.x *= -1`),
  rejected calls (bad window / filter / keyword) followed by valid ones, series with read-only stored arrays, series built from
  integer arrays, windows that keep 0 / 1 / 2 samples or are reversed, windows / thresholds / flags in other spellings (list,
  ndarray, ints, numpy scalars, a threshold OBJECT re-used by the caller), options that are given but do nothing, and the other
  public entry points that report peaks: `TimeSeries.stats(include_sample)` and `qats.app.funcs.calculate_trace`.
* processed signals (stream `proc`, kind "proc"): peaks asked for TOGETHER WITH processing options.  Real-valued records (two sines +
  noise, 48..400 samples, uniform and non-uniform time steps, large means, decimal-quantised) and a history of 2..4 queries on one
  series: `qats.app.funcs.calculate_trace(container, twin, fargs)` (one or two different records in the container, the window the GUI
  passes when nothing is selected), `TimeSeries.maxima / minima(twin, local, threshold, rettime, **options)`,
  `TimeSeries.stats(include_sample, **options)` and `calculate_stats(..., fargs)` with options = low / high / band-pass / band-stop /
  threshold-pass filter, resampling to another step, smoothing (all windows), tapering, and pairs of them.  The signal is then the
  processed trace (the one calculate_trace returns next to the peaks; `TimeSeries.get` with the same options for the methods, which
  document that they pass the options to it).  Clauses: every reported time is a time of that trace and the value is the trace value
  there bit for bit; ascending; the result is exactly the reference (excursion peaks / interior peaks, threshold, mirrored for minima)
  evaluated in exact rationals on the trace samples (skipped when a sample is within rounding of the mean); the series is left as it
  was.  A third of the cases also put the trace samples to the Rat model (pk.max / pk.min).  A combination of options that
  `TimeSeries.get` itself rejects is counted and skipped.
* LONG signals (stream `long`, kind "long"): 999 .. 131073 samples (just below / at / above 1000, 1024, 4096, 10000, beyond 65536),
  rebuilt from a few parameters (size, shape, seed, events): zigzags (n/2 excursions), quantised noise, waves with ripples, slow
  oscillations whose excursions span thousands of samples; the largest peak / trough, plateau peaks and equal twin peaks in the
  first / last samples, exactly at multiples of 1000 / 1024 / 4096 / 10000 / 65536 and across them; half-integer samples in several
  units and offsets (exact).  Through find_maxima, TimeSeries.maxima / minima (rettime, window shaving up to 3 end samples),
  local and global, with thresholds: values at positions, times at positions, ascending, the exact integer reference, threshold
  only removes, local contains global, affine map by 2**p.
* every call of the implementation is wrapped: an exception is a failing clause (or a disagreement for `average_frequency`,
  which is tied to the model only: `up` on/off, non-uniform times, `TimeSeries.average_frequency/average_period`).

Defects of the unchanged tree found by these inputs are reported through the matchers named in `FINDINGS` (switchable).
"""
import itertools
import math
import os
import random
import warnings
from fractions import Fraction

import numpy as np

from .. import core
from ..core import rat

# Inputs on which the UNCHANGED tree violates a clause (reported to the lead; each class of inputs can be switched off here and is
# recognised by a narrow matcher registered under the id on the left, for known_findings.json):
#   C14-U1  find_maxima(local=True) on an integer array whose np.diff wraps (any unsigned dtype; int16 with swings >= 2**15):
#           interior peaks are missed / invented
#   (a threshold OBJECT re-used by the caller, 0-d / 1-element ndarray, was negated in place by TimeSeries.minima: repaired in /repo
#    67edf2c while this was written; the inputs are generated unconditionally)
#   C14-U3  TimeSeries.minima raises (UFuncTypeError, `x *= -1.`) when the caller has assigned an integer array to `ts.x`
FINDINGS = {"C14-U1": True, "C14-U3": True}
if os.environ.get("VERIF_C14_FINDINGS", "") == "off":          # e.g. to look at a seeded change without the classes in the way
    FINDINGS = {k: False for k in FINDINGS}

RULE = ("all words over {0,1,2,3} of length 1..7 (quick) / 9 (thorough) plus seeded random integer signals (length <= 80, plateaus, few "
        "crossings; about a third of them in another unit = times 2**p, p in -200..200, and / or on a large offset up to 2**30 units) "
        "x local/global x thresholds (small integers, a value of the signal, mid level); affine maps a = 2**p (p in -200..200), b = a * k * (a signal value); non-trivial = at least one maximum found; distinct by (signal, mode, threshold). "
        "Query histories: every ordered pair (and triple, on 2 signals) of {maxima,minima} x {global,local} x {no window, inner window} on "
        "6 signals, plus seeded random histories of 2..8 queries (maxima/minima/max/min, thresholds, windows on/between/outside "
        "samples, rettime, 1 or 2 series sharing the source arrays, caller overwriting returned arrays); non-trivial = a step after "
        "a minima()/maxima() call on the same series returns at least one extremum. "
        "Histories also contain: the caller replacing / editing / negating the stored signal between queries, rejected calls, read-only "
        "stored arrays, integer source arrays, windows keeping 0/1/2 samples or reversed, other spellings of window / threshold / "
        "flags / positional arguments / do-nothing options, stats(include_sample) and calculate_trace. "
        "Stream spell: a random 8 % of the (signal, mode, threshold) cases above handed to find_maxima in another container / number "
        "type / argument style, called twice on the same array. Stream float: seeded real-valued signals (sines + noise, walks, "
        "decimal-quantised, slow, large mean, decimal units; length 8..160) x find_maxima / TimeSeries.maxima / minima x local/global "
        "x thresholds (none, a sample, between samples) x windows; skipped when a sample is within n*2**-52*max|x| of the mean. "
        "Stream proc: seeded real-valued records (two sines + noise, 48..400 samples, 30 % non-uniform steps) x histories of 2..4 queries "
        "(calculate_trace / maxima / minima / stats / calculate_stats) x processing options (lp / hp / bp / bs / tp filter, resample, smoothing, "
        "taper, pairs) x windows (none, GUI default, inner >= 45 samples); the reference signal is the processed trace; non-trivial = a "
        "query with at least one option returns an extremum")


def canon(vals, idx):
    return sorted(((Fraction(float(v)), int(i)) for v, i in zip(vals, idx)))


def parse(o):
    body = o[3:].strip()
    if not body:
        return []
    out = []
    for tok in body.split(";"):
        i, v = tok.split(":")
        out.append((Fraction(v), int(i)))
    return sorted(out)


def ref_global(x):
    """independent reference: first-position maximum of every closed excursion above the mean"""
    n = len(x)
    m = Fraction(sum(x), n)
    above = [v > m for v in x]
    out, i = [], 0
    while i < n:
        if above[i]:
            j = i
            while j + 1 < n and above[j + 1]:
                j += 1
            if i >= 1 and j + 1 < n:
                best = max(range(i, j + 1), key=lambda k: (x[k], -k))
                out.append((x[best], best))
            i = j + 1
        else:
            i += 1
    return sorted(out)


def ref_local(x):
    return sorted((x[i], i) for i in range(1, len(x) - 1) if x[i - 1] <= x[i] and x[i + 1] < x[i])


# ---- spellings of the same signal / threshold / arguments ----------------------------------------------------------------------------
NOEXC = "the query returns (no exception)"
SP_REF = "%s maxima are exactly the %s (threshold only removes values below it), whatever container / number type / argument style is used"
SP_VAL = "maxima are the signal values at the returned positions (of the array that was passed)"
SP_ASC = "maxima in ascending order"
SP_AGAIN = "a second call on the same array (the caller having overwritten the arrays returned by the first) returns the same maxima"
SP_INTACT = "find_maxima leaves the array it was handed as it was"
SP_EDIT = "after the caller has reversed its array in place, find_maxima returns the maxima of the array as it is now"
INT_BITS = {"i64": 64, "i32": 32, "i16": 16, "u8": 8, "u16": 16, "u32": 32, "u64": 64}
INT_DTYPE = {"i64": np.int64, "i32": np.int32, "i16": np.int16, "u8": np.uint8, "u16": np.uint16, "u32": np.uint32, "u64": np.uint64}
ARG_STYLES = ("kw", "kw", "pos", "pos_up", "up_false", "x_kw")


def is_int(v):
    return Fraction(v).denominator == 1


def diff_wraps(kind, x):
    """np.diff on this integer container wraps around, for the signal or for the signal reversed (the spell stream calls find_maxima
    on both): unsigned: any step; signed: a step >= 2**(bits-1)"""
    if kind not in INT_BITS:
        return False
    d = [b - a for a, b in zip(x, x[1:])]
    if kind.startswith("u"):
        return any(v != 0 for v in d)
    return any(abs(v) >= 2 ** (INT_BITS[kind] - 1) for v in d)


def containers_for(x):
    """the container kinds in which the exact signal x can be stored without changing a value"""
    out = ["f64", "strided", "reversed", "col2d", "readonly"]
    if all(is_int(v) for v in x):
        lo, hi = min(x), max(x)
        for k, b in INT_BITS.items():
            if k.startswith("u"):
                ok = lo >= 0 and hi < 2 ** min(b, 62)
            else:
                ok = -2 ** min(b - 1, 62) < lo and hi < 2 ** min(b - 1, 62)
            if ok and (FINDINGS["C14-U1"] or not diff_wraps(k, x)):
                out.append(k)
    if all(is_int(2 * v) and abs(v) <= 2 ** 15 for v in x):
        out.append("f32")                                   # sums of <= 160 such values are exact in single precision
    return out


def make_container(kind, x):
    xf = [float(v) for v in x]
    n = len(xf)
    if kind in INT_DTYPE:
        return np.array([int(v) for v in x], dtype=INT_DTYPE[kind])
    if kind == "f32":
        return np.array(xf, dtype=np.float32)
    if kind == "strided":
        buf = np.full(2 * n, 777.0)
        buf[::2] = xf
        return buf[::2]
    if kind == "reversed":
        return np.array(xf[::-1])[::-1]
    if kind == "col2d":
        a = np.full((n, 3), -777.0)
        a[:, 1] = xf
        return a[:, 1]
    a = np.array(xf)
    if kind == "readonly":
        a.flags.writeable = False
    return a


def thr_kinds(thr, arrays=True):
    if thr is None:
        return ["none"]
    out = ["float", "np.float64"] + (["arr0d", "arr1"] if arrays else [])
    if is_int(thr) and abs(thr) < 2 ** 62:
        out += ["int", "np.int64"]
    if abs(thr) <= 2 ** 15 and is_int(2 * thr):
        out.append("np.float32")
    return out


def make_thr(kind, thr):
    if thr is None:
        return None
    return {"float": float, "int": int, "np.float64": lambda v: np.float64(float(v)), "np.int64": lambda v: np.int64(int(v)),
            "np.float32": lambda v: np.float32(float(v)), "arr0d": lambda v: np.array(float(v)),
            "arr1": lambda v: np.array([float(v)])}[kind](thr)


def make_flag(kind, b):
    return {"bool": bool, "int": int, "np.bool_": np.bool_}[kind or "bool"](b)


def rand_spell(rng, x, thr):
    kinds = containers_for(x)
    c = rng.choice(kinds)
    if c.startswith("u") and rng.random() < 0.7:
        c = rng.choice([k for k in kinds if not k.startswith("u")])
    return dict(container=c, thr=rng.choice(thr_kinds(thr)), args=rng.choice(ARG_STYLES), local=rng.choice(["bool", "bool", "int", "np.bool_"]))


def exact_pairs(vals, idx):
    """sorted (value, position) with the values as exact rationals, for any dtype"""
    return sorted((Fraction(np.asarray(v).item()), int(i)) for v, i in zip(vals, idx))


def call_find_maxima(c, loc, T, sp):
    from qats.signal import find_maxima
    L = make_flag(sp.get("local"), loc)
    a = sp.get("args", "kw")
    if a == "pos":
        return find_maxima(c, L, T)
    if a == "pos_up":
        return find_maxima(c, L, T, True)
    if a == "up_false":
        return find_maxima(c, local=L, threshold=T, up=False)       # deprecated: documented to have no effect
    if a == "x_kw":
        return find_maxima(threshold=T, x=c, local=L)
    return find_maxima(c, local=L, threshold=T)


def eval_spell(x, loc, thr, sp):
    """find_maxima on the exact signal x in the spelling sp, twice on the same array.  Returns (got | None, [(oracle, exp, obs)])"""
    fails = []
    ref = ref_extrema(x, "maxima", loc, thr)
    what = (("local" if loc else "global"), "interior peaks" if loc else "first-position largest value of each closed excursion above the mean")
    try:
        c = make_container(sp["container"], x)
        keep, dt = c.copy(), c.dtype
        T = make_thr(sp["thr"], thr)
        m, ind = call_find_maxima(c, loc, T, sp)
        m, ind = np.asarray(m), np.asarray(ind)
        got = exact_pairs(m, ind)
        if got != ref:
            fails.append((SP_REF % what, [(str(a), b) for a, b in ref], [(str(a), b) for a, b in got]))
        if m.shape != ind.shape or any(not (0 <= int(i) < len(x)) or Fraction(np.asarray(v).item()) != x[int(i)] for v, i in zip(m, ind)):
            fails.append((SP_VAL, "x[ind]", [m.tolist(), ind.tolist()]))
        if any(b < a for a, b in zip(m.tolist(), m.tolist()[1:])):
            fails.append((SP_ASC, "ascending", m.tolist()))
        for arr in (m, ind):                                  # the caller re-uses what it was handed
            if arr.size and arr.flags.writeable:
                arr[...] = 77
        if c.dtype != dt or not np.array_equal(c, keep):
            fails.append((SP_INTACT, keep.tolist()[:40], c.tolist()[:40]))
        m2, i2 = call_find_maxima(c, loc, T, sp)
        got2 = exact_pairs(m2, i2)
        if got == ref and got2 != ref:
            fails.append((SP_AGAIN, [(str(a), b) for a, b in ref], [(str(a), b) for a, b in got2]))
        if (c.dtype != dt or not np.array_equal(c, keep)) and not any(f[0] == SP_INTACT for f in fails):
            fails.append((SP_INTACT, keep.tolist()[:40], c.tolist()[:40]))
        if not fails and c.flags.writeable and len(x) >= 3:
            c[:] = keep[::-1]                                 # the caller's own edit, same array object
            ref3 = ref_extrema(x[::-1], "maxima", loc, thr)
            got3 = exact_pairs(*call_find_maxima(c, loc, T, sp))
            if got3 != ref3:
                fails.append((SP_EDIT, [(str(a), b) for a, b in ref3], [(str(a), b) for a, b in got3]))
        return got, fails
    except Exception as e:                                  # noqa
        fails.append((NOEXC, [(str(a), b) for a, b in ref], "err:%s:%s" % (type(e).__name__, str(e)[:80])))
        return None, fails


def is_u1(f):
    """C14-U1: local maxima of an integer container on which np.diff wraps"""
    i = f.get("input") or {}
    sp = i.get("spell") or {}
    return i.get("what") == "spell" and i.get("mode") == "local" and sp.get("container") in INT_BITS and \
        diff_wraps(sp["container"], [Fraction(v) for v in i["x"]])


# ---- noisy real-valued signals --------------------------------------------------------------------------------------------------
FL_REF = "%s %s are exactly the %s of the (windowed) float signal, evaluated in exact rationals on the samples"
FL_VAL = "returned extrema are bit-identical to the signal samples at the returned positions, times to the stored times at those positions"
FL_SCALE = "scaling the signal by 2**p (exact in floating point) keeps the positions and scales the maxima"
FL_MIRROR = "minima are the mirrored maxima of the negated signal (threshold negated too), bit for bit"


def rand_float_case(rng):
    n = rng.choice([8, 12, 20, 33, 64, 100, 160])
    k = rng.random()
    w1, w2 = rng.uniform(0.05, 0.9), rng.uniform(0.3, 2.5)
    p1, p2 = rng.uniform(0, 6.3), rng.uniform(0, 6.3)
    a2, s = rng.choice([0.0, 0.3, 1.0]), rng.choice([0.0, 0.05, 0.3, 1.0])
    if k < 0.35:
        x = [math.sin(w1 * i + p1) + a2 * math.sin(w2 * i + p2) + s * rng.gauss(0, 1) for i in range(n)]
    elif k < 0.5:
        v, x = 0.0, []
        for _ in range(n):
            v += rng.gauss(0, 1)
            x.append(v)
    elif k < 0.8:                                           # decimal-quantised: plateaus and exact ties at non-dyadic values
        amp, d = rng.choice([1, 3, 10]), rng.choice([0, 1, 1, 2])
        x = [round(amp * (math.sin(w1 * i + p1) + a2 * math.sin(w2 * i + p2)) + s * rng.gauss(0, 1), d) for i in range(n)]
    else:                                                   # slow oscillation: few or no crossings
        per = n * rng.uniform(0.6, 3.0)
        x = [math.sin(6.283185307179586 * i / per + p1) + 1e-3 * s * rng.gauss(0, 1) for i in range(n)]
    r = rng.random()
    if r < 0.2:
        off = rng.choice([1e3, -1e6, 273.15, 1e9, -0.1])
        x = [v + off for v in x]
    elif r < 0.4:
        u = 10.0 ** rng.randint(-12, 12)
        x = [v * u for v in x]
    dt = rng.choice([0.1, 0.05, 0.01, 0.5, 1.0 / 3.0, 2.0])
    t0 = rng.choice([0.0, 0.0, -1.7, 1000.0, 86400.0])
    if rng.random() < 0.75:
        t = [t0 + i * dt for i in range(n)]
    else:
        t = [t0]
        for _ in range(n - 1):
            t.append(t[-1] + dt * rng.choice([1, 1, 2, 3]))
    via = rng.choice(["find_maxima", "maxima", "minima", "minima"])
    twin = None
    if via != "find_maxima" and rng.random() < 0.5:
        a = rng.randint(0, n - 4)
        b = rng.randint(a + 3, n - 1)
        lo = t[a] if (a == 0 or rng.random() < 0.6) else (t[a] + t[a - 1]) / 2
        hi = t[b] if (b == n - 1 or rng.random() < 0.6) else (t[b] + t[b + 1]) / 2
        twin = [lo.hex(), hi.hex()]
    q = rng.random()
    thr = None if q < 0.4 else rng.choice(x) if q < 0.7 else (rng.choice(x) + rng.choice(x)) / 2 if q < 0.9 else sum(x) / n
    return dict(kind="float", x=[v.hex() for v in x], t=[v.hex() for v in t], via=via, local=rng.random() < 0.5,
                threshold=None if thr is None else float(thr).hex(), twin=twin, p=rng.choice([-200, -60, -3, 1, 10, 52, 200]))


def float_window(c):
    xf = np.array([float.fromhex(v) for v in c["x"]])
    tf = np.array([float.fromhex(v) for v in c["t"]])
    if c["twin"] is None:
        return xf, tf, list(range(len(xf))), None
    tw = (float.fromhex(c["twin"][0]), float.fromhex(c["twin"][1]))
    return xf, tf, [i for i in range(len(tf)) if tw[0] <= tf[i] <= tw[1]], tw


def float_ambiguous(xq, loc):
    """rounding of the float mean can change which samples count as above the mean (global mode only)"""
    if loc or not xq:
        return False
    m = Fraction(sum(xq), len(xq))
    tol = len(xq) * Fraction(1, 2 ** 52) * max(abs(v) for v in xq)
    return any(abs(v - m) <= tol for v in xq)


def float_request(c):
    xf, tf, sel, tw = float_window(c)
    return "pk.%s %s %s %s" % ("min" if c["via"] == "minima" else "max", "local" if c["local"] else "global",
                               "-" if c["threshold"] is None else rat(Fraction(float.fromhex(c["threshold"]))),
                               " ".join(rat(Fraction(float(xf[i]))) for i in sel))


def eval_float(c):
    """returns (got | None, ambiguous, [(oracle, expected, observed)]); got = sorted (value, position in the whole signal)"""
    from qats.signal import find_maxima
    from qats import TimeSeries
    fails = []
    xf, tf, sel, tw = float_window(c)
    xq = [Fraction(float(xf[i])) for i in sel]
    loc, via = bool(c["local"]), c["via"]
    thr = None if c["threshold"] is None else float.fromhex(c["threshold"])
    thq = None if thr is None else Fraction(thr)
    amb = float_ambiguous(xq, loc)
    off = sel[0] if sel else 0
    ref = [(v, i + off) for v, i in ref_extrema(xq, "minima" if via == "minima" else "maxima", loc, thq)]
    what = ("local" if loc else "global", "minima" if via == "minima" else "maxima",
            ("interior %s" if loc else "first-position excursion %s") % ("troughs" if via == "minima" else "peaks"))
    try:
        if via == "find_maxima":
            m, ind = find_maxima(xf, local=loc, threshold=thr)
            tm = tf[ind]
        else:
            ts = TimeSeries("s", tf.copy(), xf.copy())
            m, tm = getattr(ts, via)(twin=tw, local=loc, threshold=thr, rettime=True)
            pos = {float(v): i for i, v in enumerate(tf)}
            if np.shape(m) != np.shape(tm) or any(float(v) not in pos for v in tm):
                fails.append((FL_VAL, "times of samples", [np.asarray(m).tolist(), np.asarray(tm).tolist()]))
                return None, amb, fails
            ind = np.array([pos[float(v)] for v in tm], dtype=int)
        got = exact_pairs(m, ind)
        if any(float(xf[i]) != float(v) or float(tf[i]) != float(w) for v, w, i in zip(m, tm, ind)):
            fails.append((FL_VAL, "x[ind], t[ind]", [np.asarray(m).tolist(), np.asarray(tm).tolist()]))
        mm = np.asarray(m) if via != "minima" else -np.asarray(m)
        if any(b < a for a, b in zip(mm, mm[1:])):
            fails.append((H_ASC, "ascending", np.asarray(m).tolist()))
        if not amb and got != ref:
            fails.append((FL_REF % what, [(float(a), b) for a, b in ref], [(float(a), b) for a, b in got]))
        xw = xf[sel]
        if via == "minima":
            m2, i2 = find_maxima(-xw, local=loc, threshold=None if thr is None else -thr)
            if exact_pairs(-m2, i2 + off) != got:
                fails.append((FL_MIRROR, [(float(a), b) for a, b in exact_pairs(-m2, i2 + off)], [(float(a), b) for a, b in got]))
        else:
            u = 2.0 ** c["p"]
            big = max([abs(float(v)) for v in xw] + [abs(thr or 0.0)] + [1e-300])
            small = min([abs(float(v)) for v in xw if v != 0] + [1.0])
            if big * u < 1e300 and small * u > 1e-270:
                m2, i2 = find_maxima(xw * u, local=loc, threshold=None if thr is None else thr * u)
                if sorted((Fraction(float(v)) / Fraction(u), int(i) + off) for v, i in zip(m2, i2)) != got:
                    fails.append((FL_SCALE, [(float(a) * u, b) for a, b in got], [(float(v), int(i) + off) for v, i in zip(m2, i2)]))
        return got, amb, fails
    except Exception as e:                                  # noqa
        fails.append((NOEXC, [(float(a), b) for a, b in ref], "err:%s:%s" % (type(e).__name__, str(e)[:80])))
        return None, amb, fails


# ---- LONG signals described by a few parameters (size- and position-conditioned code paths) ------------------------------------------
LONG_GROUPS = ((999, 1000, 1001, 1023, 1024, 1025), (4095, 4096, 4097), (9999, 10000, 10001), (65537, 70001, 131073))
LONG_SHAPES = ("zigzag", "noise", "waves", "slow")
LONG_BIG = 4096.0
L_REF = "%s %s of a long signal are exactly the %s (exact integer reference on the samples)"
L_THR = "a threshold only removes values below it (long signal: the same query without threshold, values >= threshold kept)"
L_CONTAIN = "local maxima contain every global maximum (long signal)"


def long_boundaries(n):
    bs = set()
    for b in (1000, 1024, 4096, 10000, 65536):
        bs.update(range(b, n - 3, b))
    return sorted(bs)


def long_signal(p):
    """signal of a `long` case, rebuilt from its parameters: multiples of 1/2 of small magnitude (sum, mean comparison and every
    difference exact), body from numpy's seeded generator, then the events written over it:
      spike  x[pos] = +BIG                      the largest maximum exactly at pos (first / last samples, block boundaries)
      dip    x[pos] = -BIG                      the same for minima
      flat   x[pos-1] = x[pos] = x[pos+1] = BIG/2   a plateau peak across pos (local: its LAST sample is the peak; global: its first)
      twin   x[pos-1] = x[pos+1] = BIG/4, x[pos] = BIG/4 - 1   two equal peaks of one excursion on either side of pos
      level  x[pos] = the value nearest to the mean from above ... (not used: the mean moves with every event)"""
    n, shape = int(p["n"]), p["shape"]
    g = np.random.default_rng(int(p["seed"]))
    i = np.arange(n)
    if shape == "zigzag":                       # every second sample is an excursion of its own: n/2 global maxima
        x = np.where(i % 2 == 0, 1.0, -1.0) * g.integers(1, 40, n) * 0.5
    elif shape == "noise":                      # quantised noise: plateaus, ties, short excursions
        x = np.round(g.normal(0, 3, n))
    elif shape == "waves":                      # excursions of some tens of samples with ripples on them
        per = float(p.get("period", 48))
        x = np.round(8 * np.sin(2 * np.pi * i / per + 0.3) + g.normal(0, 1.5, n)) * 0.5
    else:                                       # slow: few crossings, excursions thousands of samples long (spanning blocks)
        per = n / float(p.get("cycles", 2.5))
        x = np.round(40 * np.sin(2 * np.pi * i / per + float(p.get("phase", 0.0))) + g.normal(0, 0.6, n)) * 0.5
    for kind, pos in p.get("events", ()):
        pos = int(pos) % n
        if kind == "spike":
            x[pos] = LONG_BIG
        elif kind == "dip":
            x[pos] = -LONG_BIG
        elif kind == "flat" and 1 <= pos < n - 1:
            x[pos - 1:pos + 2] = LONG_BIG / 2
        elif kind == "twin" and 1 <= pos < n - 1:
            x[pos - 1:pos + 2] = [LONG_BIG / 4, LONG_BIG / 4 - 1, LONG_BIG / 4]
    return x * 2.0 ** int(p.get("unit", 0)) + float(p.get("offset", 0.0)) * 2.0 ** int(p.get("unit", 0))


def lref_maxima(xw, local, thr, grid):
    """exact reference on a window of the long signal: sorted (value, position).  The samples are multiples of `grid` (a power of
    two): compared as integers X = x / grid; above the mean <=> n*X > sum(X) in integer arithmetic."""
    xw = np.asarray(xw, dtype=float)
    n = xw.size
    if n == 0:
        return []
    X = xw / grid
    if not np.all(X == np.round(X)) or np.abs(X).max() * n >= 2.0 ** 62:
        raise ValueError("long signal not on an integer grid")
    Xi = X.astype(np.int64)
    tot = int(Xi.sum())
    if local:
        idx = 1 + np.nonzero((X[:-2] <= X[1:-1]) & (X[2:] < X[1:-1]))[0] if n >= 3 else np.array([], dtype=int)
    else:
        above = Xi * n > tot
        edges = np.flatnonzero(np.diff(above.astype(np.int8)))       # last index of every run but the final one
        starts = np.concatenate(([0], edges + 1))
        ends = np.concatenate((edges, [n - 1]))
        idx = []
        for a, b in zip(starts, ends):
            if above[a] and a >= 1 and b + 1 < n:
                idx.append(int(a) + int(np.argmax(X[a:b + 1])))       # first position of the largest value
        idx = np.array(idx, dtype=int)
    out = sorted((float(xw[k]), int(k)) for k in idx)
    return [r for r in out if thr is None or r[0] >= thr]


def long_threshold(p, x):
    k = p.get("thr")
    if k is None:
        return None
    if k == "value":                            # a value of the signal itself (exact tie with some maxima)
        return float(np.sort(x)[int(0.8 * (x.size - 1))])
    if k == "big":
        return float(x.max())
    return float(np.sort(x)[x.size // 2]) + 0.25 * 2.0 ** int(p.get("unit", 0))


def gen_long(chk):
    rng = chk.rng
    if chk.quick:
        sizes = [rng.choice(gp) for gp in LONG_GROUPS]
        sizes[3] = rng.choice([65537, 70001])
        shapes = [rng.choice(LONG_SHAPES) for _ in sizes]
        shapes[rng.randrange(3)] = "slow"
        shapes[3] = rng.choice(["zigzag", "noise"])
    else:
        sizes = [n for gp in LONG_GROUPS for n in gp] * 3
        shapes = [LONG_SHAPES[k % 4] for k in range(len(sizes))]
        rng.shuffle(shapes)
    for k, (n, shape) in enumerate(zip(sizes, shapes)):
        bs = long_boundaries(n)
        ends = [1, 2, n - 3, n - 2]
        at_b = [b + d for b in bs for d in (-1, 0, 1)] or ends
        ev = [[rng.choice(["spike", "dip"]), rng.choice(ends if k % 2 == 0 else at_b)]]
        ev.append([rng.choice(["spike", "dip"]), rng.choice(at_b + [0, n - 1])])
        for _ in range(rng.randint(1, 3)):
            ev.append([rng.choice(["flat", "twin"]), rng.choice(at_b + [1, n - 2])])
        via = rng.choice(["find_maxima", "find_maxima", "maxima", "minima"])
        cut = via != "find_maxima" and rng.random() < 0.5
        yield dict(kind="long", n=n, shape=shape, seed=rng.getrandbits(40), events=ev, unit=rng.choice([0, 0, -3, 10, 40]),
                   offset=rng.choice([0.0, 0.0, 256.0, -1024.0]), cycles=rng.choice([0.7, 1.5, 2.5, 6.5]),
                   phase=rng.choice([0.0, 1.0, 3.0, 4.5]), period=rng.choice([24, 48, 100]), via=via,
                   thr=rng.choice([None, "value", "mid", "big"]), win=[rng.randint(0, 3), n - 1 - rng.randint(0, 3)] if cut else None,
                   dt=rng.choice([0.5, 1.0, 0.125]), p=rng.choice([-60, -3, 1, 10, 52]))


def eval_long(c):
    """every clause of the property on one long signal: [(oracle, expected, observed)], number of maxima found"""
    from qats.signal import find_maxima
    from qats import TimeSeries
    fails = []

    def short(pairs):
        return "%d maxima: %s ... %s" % (len(pairs), pairs[:4], pairs[-4:])

    def differ(a, b):
        k = next((i for i, (u, v) in enumerate(zip(a, b)) if u != v), min(len(a), len(b)))
        return "%d (value, position) pairs, from #%d: %s" % (len(a), k, a[k:k + 5]), "%d pairs, from #%d: %s" % (len(b), k, b[k:k + 5])
    count, plain = 0, {}
    try:
        x = long_signal(c)
        n = x.size
        t = 3.0 + np.arange(n) * float(c["dt"])
        via = c["via"]
        lo, hi = c["win"] if c.get("win") else (0, n - 1)
        xw = x[lo:hi + 1]
        sgn = -1.0 if via == "minima" else 1.0
        thr = long_threshold(c, sgn * xw)             # (a threshold in the orientation of the maxima of sgn*x)
        for loc in (False, True):
            ref = lref_maxima(sgn * xw, loc, None, 0.5 * 2.0 ** int(c.get("unit", 0)))
            refs = {None: ref, thr: [r for r in ref if thr is None or r[0] >= thr]}
            res = {}
            for th in ([None] if thr is None else [None, thr]):
                if via == "find_maxima":
                    m, ind = find_maxima(xw.copy(), local=loc, threshold=th)
                    m, ind = np.asarray(m, dtype=float), np.asarray(ind)
                    tm = t[lo:hi + 1][ind] if ind.size else np.array([])
                else:
                    ts = TimeSeries("s", t.copy(), x.copy())
                    m, tm = getattr(ts, via)(twin=(float(t[lo]), float(t[hi])) if c.get("win") else None, local=loc,
                                             threshold=None if th is None else sgn * th, rettime=True)
                    m, tm = sgn * np.asarray(m, dtype=float), np.asarray(tm, dtype=float)
                    ind = np.round((tm - t[lo]) / float(c["dt"])).astype(int) if tm.size else np.array([], dtype=int)
                what = ("local" if loc else "global", "minima (mirrored)" if via == "minima" else "maxima",
                        "interior peaks" if loc else "first-position peaks of the closed excursions above the mean")
                if m.shape != ind.shape or m.ndim != 1 or (ind.size and (ind.min() < 0 or ind.max() >= xw.size)):
                    fails.append((FL_VAL, "positions inside the signal", "shapes %s %s" % (m.shape, ind.shape)))
                    continue
                if ind.size and (np.any(sgn * xw[ind] != m) or np.any(t[lo:hi + 1][ind] != tm)):
                    k = int(np.flatnonzero((sgn * xw[ind] != m) | (t[lo:hi + 1][ind] != tm))[0])
                    fails.append((FL_VAL, "x[ind], t[ind] (first difference at result #%d, position %d)" % (k, int(ind[k])),
                                  [float(m[k]), float(tm[k]), float(sgn * xw[ind[k]]), float(t[lo + ind[k]])]))
                if np.any(np.diff(m) < 0):
                    fails.append((H_ASC, "ascending", "descent at result #%d of %d" % (int(np.flatnonzero(np.diff(m) < 0)[0]), m.size)))
                got = sorted(zip(m.tolist(), (int(v) for v in ind)))
                res[th] = got
                count += len(got)
                if got != refs[th]:
                    fails.append(((L_REF % what) + ("" if th is None else " [threshold %r]" % th),) + differ(refs[th], got))
            if thr is not None and None in res and thr in res and res[thr] != [r for r in res[None] if r[0] >= thr]:
                fails.append((L_THR,) + differ([r for r in res[None] if r[0] >= thr], res[thr]))
            plain[loc] = res.get(None)
        rg, rl = plain.get(False), plain.get(True)
        if rg is not None and rl is not None:
            # (a global maximum on a plateau is reported at the plateau's first sample, the local one at its last: same peak)
            sl, xs, miss = set(rl), sgn * xw, []
            for v, k in rg:
                k2 = k
                while k2 + 1 < xs.size and xs[k2 + 1] == v:
                    k2 += 1
                if (v, k2) not in sl:
                    miss.append((v, k))
            if miss:
                fails.append((L_CONTAIN, "every global maximum is a local maximum (at the last sample of its plateau)",
                              "%d global maxima missing among the local ones: %s" % (len(miss), miss[:5])))
        # positive affine map (exact: power of two, shift a multiple of the unit) keeps the positions
        u = 2.0 ** int(c["p"])
        bsh = 64.0 * 2.0 ** int(c.get("unit", 0)) * u
        for loc, r0 in ((False, rg), (True, rl)):
            if r0 is None:
                continue
            m2, i2 = find_maxima(sgn * xw * u + bsh, local=loc)
            got2 = sorted(zip(np.asarray(m2, dtype=float).tolist(), (int(v) for v in i2)))
            exp2 = sorted((v * u + bsh, k) for v, k in r0)
            if got2 != exp2:
                fails.append((AFFINE + " [long signal, a=2**%d]" % c["p"],) + differ(exp2, got2))
    except Exception as e:                                  # noqa
        fails.append((NOEXC, "maxima of a long signal", "err:%s:%s" % (type(e).__name__, str(e)[:120])))
    return fails, count


# ---- processed signals: peaks queried together with a filter / resampling / smoothing / tapering ------------------------------------
# The signal of which peaks are reported is then the PROCESSED trace: what `TimeSeries.get` returns for the same options (documented:
# "additional keyword arguments are passed to get()"), or the trace that `qats.app.funcs.calculate_trace` returns next to its peaks.
P_POINT = "peaks / troughs reported together with processing options (filter, resampling, smoothing, taper, window) are points of the " \
          "processed trace (the trace returned by calculate_trace with them / by TimeSeries.get for the same options): reported times are " \
          "times of that trace and the values are its values at those positions, bit for bit"
P_REF = "%s %s reported with processing options are exactly the %s of the processed trace (evaluated in exact rationals on its float samples)"
PROC_VIA = ("trace", "trace", "trace", "maxima", "minima", "minima", "stats", "funcs_stats")


def rand_proc_opts(rng, dt, filt_ok=True):
    """processing options of one query, as a JSON-able dict; frequencies relative to the Nyquist frequency of the average time step"""
    fn = 0.5 / dt
    o = {}
    k = rng.random()
    if filt_ok and k < 0.7:
        kind = rng.choice(["lp", "lp", "hp", "hp", "bp", "bs", "tp"])
        if kind in ("lp", "hp"):
            o["filterargs"] = [kind, fn * rng.uniform(0.08, 0.6)]
        elif kind in ("bp", "bs"):
            o["filterargs"] = [kind, fn * rng.uniform(0.03, 0.15), fn * rng.uniform(0.25, 0.7)]
        else:
            o["filterargs"] = ["tp", [rng.choice([0.0, 0.05, 0.2]), rng.choice([1.0, 1.0, 0.9])]]
    elif k < 0.8:
        o["resample"] = dt * rng.choice([0.5, 2.0, 1.0, 0.3, 1.7])
    r = rng.random()
    if r < 0.2:
        o["window_len"] = rng.choice([3, 5, 9, 11])
        o["window"] = rng.choice(["rectangular", "rectangular", "hanning", "hamming", "bartlett", "blackman"])
    elif r < 0.35:
        o["taperfrac"] = rng.choice([0.01, 0.1, 0.5])
    return o


def rand_proc_case(rng):
    """one real-valued record and a short history of peak queries with processing options on the series built from it"""
    n = rng.choice([48, 64, 100, 160, 256, 400])
    dt = rng.choice([0.1, 0.05, 0.5, 1.0, 0.25, 0.01])
    t0 = rng.choice([0.0, 0.0, -1.7, 1000.0])
    uniform = rng.random() < 0.7
    if uniform:
        t = [t0 + i * dt for i in range(n)]
    else:
        t = [t0]
        for _ in range(n - 1):
            t.append(t[-1] + dt * rng.choice([1, 1, 1, 2, 3]))
    dta = (t[-1] - t[0]) / (n - 1)
    fn = 0.5 / dta
    f1, f2 = fn * rng.uniform(0.02, 0.1), fn * rng.uniform(0.3, 0.9)
    a1, a2, s = rng.choice([1.0, 2.0, 0.0]), rng.choice([0.0, 0.4, 0.8, 2.0]), rng.choice([0.0, 0.05, 0.3])
    mean = rng.choice([0.0, 0.0, 10.0, -3.5, 1e4])
    p1, p2 = rng.uniform(0, 6.3), rng.uniform(0, 6.3)
    x = [mean + a1 * math.sin(6.283185307179586 * f1 * (v - t0) + p1) + a2 * math.sin(6.283185307179586 * f2 * (v - t0) + p2) + s * rng.gauss(0, 1)
         for v in t]
    if rng.random() < 0.2:                                  # decimal-quantised: plateaus and exact ties, also after a moving average
        x = [round(v, 1) for v in x]
    sd = (sum((v - sum(x) / n) ** 2 for v in x) / n) ** 0.5
    steps = []
    for _ in range(rng.randint(2, 4)):
        via = rng.choice(PROC_VIA)
        k = rng.random()
        if k < 0.4:
            twin = None
        elif k < 0.6:
            twin = [-1e12, 1e12]                            # the window the GUI passes when nothing is selected
        else:
            a = rng.randint(0, n - 45)
            b = rng.randint(a + 44, n - 1)
            lo = t[a] if (a == 0 or rng.random() < 0.5) else (t[a] + t[a - 1]) / 2
            hi = t[b] if (b == n - 1 or rng.random() < 0.5) else (t[b] + t[b + 1]) / 2
            twin = [lo, hi]
        opts = rand_proc_opts(rng, dta)
        if via in ("trace", "funcs_stats"):                 # these entry points take a window and a filter only
            opts = {k_: v for k_, v in opts.items() if k_ == "filterargs"}
            if not opts and rng.random() < 0.8:
                opts = rand_proc_opts(rng, dta)
                opts = {k_: v for k_, v in opts.items() if k_ == "filterargs"}
        q = rng.random()
        thr = None if q < 0.5 else rng.choice(x) if q < 0.7 else sum(x) / n + rng.choice([-1, 0, 0.5, 1]) * sd if q < 0.9 else 0.0
        st = dict(via=via, twin=None if twin is None else [float(twin[0]).hex(), float(twin[1]).hex()], opts=opts)
        if via in ("maxima", "minima"):
            st.update(local=rng.random() < 0.4, threshold=None if thr is None else float(thr).hex(), rettime=rng.random() < 0.8)
        elif via in ("stats", "funcs_stats"):
            st.update(is_minima=rng.random() < 0.5)
        else:
            st.update(container=rng.choice(["one", "one", "two"]))
        steps.append(st)
    return dict(kind="proc", x=[float(v).hex() for v in x], t=[float(v).hex() for v in t], steps=steps)


def proc_kwargs(opts):
    kw = dict(opts)
    if "filterargs" in kw:
        fa = kw["filterargs"]
        kw["filterargs"] = tuple(tuple(v) if isinstance(v, list) else v for v in fa)
    return kw


def proc_label(opts):
    return "+".join(sorted(("filter-" + v[0]) if k == "filterargs" else k for k, v in opts.items() if k != "window")) or "plain"


def eval_proc(c, on_fail, want_requests=False):
    """run the steps of a `proc` case in order on one TimeSeries; on_fail(oracle, step, expected, observed).
    Returns per step a list of (model request | None, got) where got = sorted (value, position in the processed trace) or
    ("v", sorted values); entries only for results whose reference is not affected by rounding of the mean."""
    from qats import TimeSeries
    from qats.app.funcs import calculate_trace, calculate_stats
    xf = np.array([float.fromhex(v) for v in c["x"]])
    tf = np.array([float.fromhex(v) for v in c["t"]])
    ts = TimeSeries("s", tf.copy(), xf.copy())
    other = TimeSeries("o", tf.copy(), (xf.mean() - xf)[::-1].copy())        # a second, different record in the same container
    out = [[] for _ in c["steps"]]

    def check_points(step, q, loc, thr, m, tm, trt, trx, label):
        """(m, tm) reported for query q against the processed trace (trt, trx)"""
        m, tm = np.asarray(m, dtype=float), np.asarray(tm, dtype=float)
        trt, trx = np.asarray(trt, dtype=float), np.asarray(trx, dtype=float)
        pos = {float(v): i for i, v in enumerate(trt)}
        if m.shape != tm.shape or m.ndim != 1 or any(float(v) not in pos for v in tm):
            on_fail(P_POINT, step, "times of the trace (%d samples from %r to %r)" % (len(trt), float(trt[0]), float(trt[-1])),
                    dict(entry=label, values=m.tolist()[:30], times=tm.tolist()[:30]))
            return
        ind = [pos[float(v)] for v in tm]
        wrong = [(int(i), float(v), float(trx[i])) for v, i in zip(m, ind) if float(trx[i]) != float(v)]
        if wrong:
            on_fail(P_POINT, step, "trace values at the reported times", dict(entry=label, position_reported_trace=wrong[:12]))
            return
        ma = m if q == "maxima" else -m
        if any(b < a for a, b in zip(ma, ma[1:])):
            on_fail(H_ASC, step, "ascending", m.tolist()[:40])
        xq = [Fraction(float(v)) for v in trx]
        thq = None if thr is None else Fraction(thr)
        got = exact_pairs(m, ind)
        if float_ambiguous(xq, loc):
            return
        ref = ref_extrema(xq, q, loc, thq)
        if got != ref:
            what = ("local" if loc else "global", q, ("interior %s" if loc else "first-position excursion %s") % ("troughs" if q == "minima" else "peaks"))
            on_fail(P_REF % what, step, [(float(a), b) for a, b in ref][:40], dict(entry=label, got=[(float(a), b) for a, b in got][:40]))
            return
        req = None
        if want_requests:
            req = "pk.%s %s %s %s" % ("max" if q == "maxima" else "min", "local" if loc else "global", "-" if thq is None else rat(thq),
                                      " ".join(rat(v) for v in xq))
        out[step].append((req, got))

    for step, st in enumerate(c["steps"]):
        via, kw = st["via"], proc_kwargs(st["opts"])
        tw = None if st["twin"] is None else (float.fromhex(st["twin"][0]), float.fromhex(st["twin"][1]))
        fargs = kw.get("filterargs")
        try:
            trt, trx = ts.get(twin=tw, **kw)
        except Exception:                                   # noqa  (a rejected combination of options is not a statement about peaks)
            out[step] = None
            continue
        try:
            if via == "trace":
                cont = {"s": ts} if st.get("container") != "two" else {"o": other, "s": ts}
                res = calculate_trace(cont, tw, fargs)
                for name in cont:
                    d = res[name]
                    check_points(step, "maxima", False, None, d["xmax"], d["tmax"], d["t"], d["x"], name + ":xmax/tmax")
                    check_points(step, "minima", False, None, d["xmin"], d["tmin"], d["t"], d["x"], name + ":xmin/tmin")
            elif via in ("stats", "funcs_stats"):
                q = "minima" if st["is_minima"] else "maxima"
                if via == "funcs_stats":
                    s = calculate_stats({"s": ts}, tw, fargs, minima=st["is_minima"])["s"]["sample"]
                else:
                    s = ts.stats(include_sample=True, is_minima=st["is_minima"], twin=tw, **kw)["sample"]
                got = sorted(Fraction(float(v)) for v in np.asarray(s).reshape(-1))
                xq = [Fraction(float(v)) for v in trx]
                if not float_ambiguous(xq, False):
                    ref = sorted(v for v, _ in ref_extrema(xq, q, False, None))
                    if got != ref:
                        on_fail(P_REF % ("global", q + " (sample reported by stats)", "excursion " + ("troughs" if st["is_minima"] else "peaks")),
                                step, [float(a) for a in ref][:40], [float(a) for a in got][:40])
                    else:
                        out[step].append((None, ("v", got)))
            else:
                thr = None if st["threshold"] is None else float.fromhex(st["threshold"])
                r = getattr(ts, via)(twin=tw, local=st["local"], threshold=thr, rettime=st["rettime"], **kw)
                if st["rettime"]:
                    check_points(step, via, bool(st["local"]), thr, r[0], r[1], trt, trx, via)
                else:
                    got = sorted(Fraction(float(v)) for v in np.asarray(r).reshape(-1))
                    xq = [Fraction(float(v)) for v in trx]
                    if not float_ambiguous(xq, bool(st["local"])):
                        ref = sorted(v for v, _ in ref_extrema(xq, via, bool(st["local"]), None if thr is None else Fraction(thr)))
                        if got != ref:
                            on_fail(P_REF % ("local" if st["local"] else "global", via, "peaks / troughs (values only)"), step,
                                    [float(a) for a in ref][:40], [float(a) for a in got][:40])
                        else:
                            out[step].append((None, ("v", got)))
        except Exception as e:                              # noqa
            on_fail(NOEXC, step, "result (TimeSeries.get returns for the same options)", "err:%s:%s" % (type(e).__name__, str(e)[:80]))
        if not (np.array_equal(np.asarray(ts.x), xf) and np.array_equal(np.asarray(ts.t), tf)):
            on_fail(H_INTACT, step, dict(x=xf.tolist()[:20]), dict(x_now=np.asarray(ts.x).tolist()[:20], t_now=np.asarray(ts.t).tolist()[:20]))
            break
    return out


UNIT_EXP = (-200, -150, -100, -70, -60, -55, -52, -50, -45, -30, -10, 10, 30, 52, 60, 100, 200)


def rand_unit(rng):
    """a power of two: the same physical signal stored in another unit (exact in floating point)"""
    p = rng.choice(UNIT_EXP) if rng.random() < 0.7 else rng.randint(-200, 200)
    return Fraction(2) ** p


def rescale(rng, x, p_unit=0.3, p_off=0.15):
    """the signal in another unit and / or riding on a large mean level (still exact: < 45 significant bits)"""
    if rng.random() < p_off:
        k = rng.choice([1, -1]) * 2 ** rng.choice([10, 20, 30])
        x = [v + k for v in x]
    if rng.random() < p_unit:
        u = rand_unit(rng)
        x = [v * u for v in x]
    return x


def rand_threshold(rng, x):
    """None / small integers (as before) / a value of the signal itself (exact tie) / the mid level"""
    k = rng.random()
    if k < 0.4:
        return None
    if k < 0.6:
        return rng.choice([Fraction(rng.randint(-3, 3)), Fraction(1, 2)])
    if k < 0.85:
        return rng.choice(x)
    return (min(x) + max(x)) / 2


def gen(chk):
    L = 7 if chk.quick else 9
    for n in range(1, L + 1):
        for w in itertools.product([0, 1, 2, 3], repeat=n):
            yield [Fraction(v) for v in w]
    rng = chk.rng
    for _ in range(1500 if chk.quick else 20000):
        n = rng.choice([3, 5, 8, 13, 21, 40, 80])
        k = rng.random()
        if k < 0.4:
            x = [Fraction(rng.randint(-8, 8)) for _ in range(n)]
        elif k < 0.7:
            x = [Fraction(rng.randint(-2, 2)) for _ in range(n)]
        else:
            v, x = 0, []
            for _ in range(n):
                v += rng.choice([-3, -1, -1, 0, 0, 1, 1, 3])
                x.append(Fraction(v, rng.choice([1, 1, 2])))
        yield rescale(rng, x)
    # the short words again, in other units: every crossing corner case at every magnitude
    for n in range(3, 6 if chk.quick else 7):
        for w in itertools.product([0, 1, 2, 3], repeat=n):
            u = rand_unit(rng)
            yield [Fraction(v) * u for v in w]


# ---- query histories on one object ------------------------------------------------------------------------------------------------
H_ORDER = "every query of a sequence on one TimeSeries returns exactly the %s of the signal the series was built from " \
          "(minima = mirrored maxima of the negated signal, threshold negated too; window = that part of the signal), " \
          "at the times of those positions, whatever was queried before"
H_READBACK = "returned extrema are the series' signal values at the reported times (signal and times read back from the series after the call)"
H_ASC = "maxima in ascending order (minima: the mirrored ascending maxima of the negated signal, i.e. -minima ascending)"
H_MAXMIN = "TimeSeries.max/min are the extreme signal values (of the window), whatever was queried before"
H_INTACT = "a peak query leaves the signal and times of the series (and of the arrays / other series it was built from) as they were"


AFFINE = "a positive affine map of the signal maps the maxima and keeps their positions"


def ref_extrema(x, q, local, thr):
    """reference for one maxima/minima query on the (windowed) exact signal: sorted (value, position)"""
    if len(x) == 0:
        return []
    if q == "maxima":
        r = ref_local(x) if local else ref_global(x)
        return [(v, i) for v, i in r if thr is None or v >= thr]
    y = [-v for v in x]
    r = ref_local(y) if local else ref_global(y)
    return sorted((-v, i) for v, i in r if thr is None or v >= -thr)


def window_of(t, tw):
    return [i for i in range(len(t)) if tw is None or (tw[0] <= t[i] <= tw[1])]


def rand_signal(rng, n):
    k = rng.random()
    if k < 0.4:
        return rescale(rng, [Fraction(rng.randint(-8, 8)) for _ in range(n)])
    if k < 0.6:
        return rescale(rng, [Fraction(rng.randint(-2, 2)) for _ in range(n)])
    v, x = 0, []
    for _ in range(n):
        v += rng.choice([-3, -1, -1, 0, 0, 1, 1, 3])
        x.append(Fraction(v, rng.choice([1, 1, 2])))
    return rescale(rng, x)


def rand_times(rng, n):
    dt = rng.choice([Fraction(1, 4), Fraction(1, 2), Fraction(1), Fraction(2)])
    t0 = Fraction(rng.randint(-4, 4))
    if rng.random() < 0.7:
        return [t0 + k * dt for k in range(n)]
    t = [t0]
    for _ in range(n - 1):
        t.append(t[-1] + dt * rng.choice([1, 1, 2, 3]))
    return t


def rand_twin(rng, t):
    n = len(t)
    k = rng.random()
    if k < 0.45 or n < 4:
        return None
    if k < 0.55:
        return (t[0] - 1, t[-1] + 1)                       # a window that keeps everything
    a = rng.randint(0, n - 3)
    b = rng.randint(a + 2, n - 1)
    lo = t[a] if (a == 0 or rng.random() < 0.6) else (t[a] + t[a - 1]) / 2
    hi = t[b] if (b == n - 1 or rng.random() < 0.6) else (t[b] + t[b + 1]) / 2
    return (lo, hi)


def mk_op(q, obj=0, local=False, thr=None, twin=None, rettime=True, scribble=False, sp=None):
    op = dict(obj=obj, q=q, twin=None if twin is None else [str(twin[0]), str(twin[1])])
    if q in ("maxima", "minima"):
        op.update(local=bool(local), threshold=None if thr is None else str(thr), rettime=bool(rettime), scribble=bool(scribble))
        if sp:
            op["sp"] = sp
    return op


def mk_hist(x, t, ops, objects=1, readonly=False, src="f64"):
    h = dict(kind="history", x=[str(v) for v in x], t=[str(v) for v in t], objects=objects, ops=ops)
    if readonly:
        h["readonly"] = True
    if src != "f64":
        h["src"] = src
    return h


BAD_CALLS = ("twin1", "filter", "thr_str", "resample_twin", "kw")
SETX_HOW = ("assign", "assign", "inplace", "items", "negate", "assign_int")
TWIN_KINDS = ("tuple", "tuple", "list", "array", "npf", "int")


def small_twin(rng, t):
    """windows that keep 0, 1 or 2 samples, reversed windows, windows outside the series"""
    n = len(t)
    a = rng.randrange(n)
    k = rng.random()
    if k < 0.25:
        return (t[a], t[a])                                              # one sample
    if k < 0.45 and a + 1 < n:
        return (t[a], t[a + 1])                                          # two samples
    if k < 0.6 and a + 1 < n:
        d = (t[a + 1] - t[a]) / 4
        return (t[a] + d, t[a + 1] - d)                                  # between two samples: nothing
    if k < 0.8:
        return (t[min(a + 2, n - 1)], t[a]) if a + 2 < n else (t[-1] + 1, t[-1] + 5)      # reversed / beyond the end
    return (t[0] - 9, t[0] - 1)


def mutate_signal(rng, x):
    n = len(x)
    k = rng.random()
    y = list(x)
    if k < 0.3:                                                          # a new extreme somewhere inside
        i = rng.randrange(1, n - 1) if n > 2 else 0
        w = next((abs(v) for v in x if v != 0), Fraction(1))             # stays in the unit of the signal (exactly representable)
        y[i] = (max(x) + (max(x) - min(x)) + w) * rng.choice([1, -1]) if rng.random() < 0.5 else (min(x) + max(x)) / 2
    elif k < 0.5:                                                        # a peak flattened into a plateau
        i = rng.randrange(n - 1)
        y[i + 1] = y[i]
    elif k < 0.65:
        y = [-v for v in x]
    elif k < 0.8:
        u = rand_unit(rng)
        y = [v * u for v in x]
    else:
        y = rand_signal(rng, n)
    if any(Fraction(float(v)) != v for v in y):                          # keep the exact reference honest
        y = [-v for v in x]
    return y


def rand_sp(rng, q, thr, tw):
    sp = dict(args=rng.choice(["kw", "kw", "pos", "noop"]), local=rng.choice(["bool", "bool", "int", "np.bool_"]))
    if sp["args"] == "noop":
        sp["noop"] = rng.randrange(3)
    if thr is not None:
        kinds = [k for k in thr_kinds(thr) if k != "np.float32"]
        sp["thr"] = rng.choice(kinds)
    if tw is not None:
        k = rng.choice(TWIN_KINDS)
        if k == "int" and not (is_int(tw[0]) and is_int(tw[1])):
            k = "list"
        sp["twin"] = k
    return sp


def gen_histories(chk):
    rng = chk.rng
    # (a) systematic: all ordered pairs / triples over the base set of 8 queries
    sigs = [[Fraction(v) for v in w] for w in ([0, 3, 3, 0, 5, 1, 0, 4, 0], [2, 0, 1, -3, -1, -2, 4, 0, 1, 0], [1, 2, 0, 3, -1, 1, 0])]
    sigs += [rand_signal(rng, rng.choice([8, 11, 14])) for _ in range(3)]
    for k, x in enumerate(sigs):
        t = [Fraction(i, 4) - 1 for i in range(len(x))]
        base = [(q, loc, tw) for q in ("maxima", "minima") for loc in (False, True) for tw in (None, (t[1], t[-2]))]
        depth = (2, 3) if (k in (0, 3) or not chk.quick) else (2,)
        for d in depth:
            for combo in itertools.product(base, repeat=d):
                yield mk_hist(x, t, [mk_op(q, local=loc, twin=tw) for q, loc, tw in combo])
    # (a2) systematic: query - the caller changes the signal - the same query again, for every base query and every way of changing
    for k, x in enumerate(sigs[:4]):
        t = [Fraction(i, 4) - 1 for i in range(len(x))]
        base = [(q, loc, tw) for q in ("maxima", "minima") for loc in (False, True) for tw in (None, (t[1], t[-2]))]
        for (q, loc, tw), how in itertools.product(base, ("assign", "inplace", "items", "negate")):
            y = [-v for v in x] if how == "negate" else mutate_signal(rng, x)
            yield mk_hist(x, t, [mk_op(q, local=loc, twin=tw), dict(obj=0, q="setx", how=how, values=[str(v) for v in y]),
                                 mk_op(q, local=loc, twin=tw), mk_op("max", twin=tw), mk_op("min", twin=tw)])
    # (b) seeded random histories
    for _ in range(500 if chk.quick else 6000):
        n = rng.choice([3, 5, 8, 13, 21, 40])
        x, t = rand_signal(rng, n), rand_times(rng, n)
        objects = 1 if rng.random() < 0.75 else 2
        cur = [list(x) for _ in range(objects)]
        ops = []
        last = None
        for _ in range(rng.randint(2, 8)):
            q = rng.choice(["maxima", "minima", "minima", "maxima", "max", "min", "maxima", "minima", "setx", "setx", "bad", "stats", "trace"])
            obj = rng.randrange(objects)
            tw = rand_twin(rng, t) if rng.random() < 0.85 else small_twin(rng, t)
            nsel = len(window_of(t, tw))
            if q in ("max", "min") and nsel == 0:
                tw = None
            if q == "setx":
                how = rng.choice(SETX_HOW)
                y = [-v for v in cur[obj]] if how == "negate" else mutate_signal(rng, cur[obj])
                if how == "assign_int" and not (FINDINGS["C14-U3"] and all(is_int(v) and abs(v) < 2 ** 62 for v in y)):
                    how = "assign"
                cur[obj] = y
                ops.append(dict(obj=obj, q="setx", how=how, values=[str(v) for v in y]))
            elif q == "bad":
                ops.append(dict(obj=obj, q="bad", call=rng.choice(["maxima", "minima", "minima", "max"]), how=rng.choice(BAD_CALLS)))
            elif q == "stats":
                ops.append(dict(obj=obj, q="stats", is_minima=rng.random() < 0.5, via=rng.choice(["stats", "funcs"]),
                                twin=None if (tw is None or nsel < 5) else [str(tw[0]), str(tw[1])]))
            elif q == "trace":
                ops.append(dict(obj=obj, q="trace", twin=None if tw is None else [str(tw[0]), str(tw[1])],
                                container=rng.choice(["dict", "ordered", "two"])))
            else:
                thr = rand_threshold(rng, cur[obj])
                if last is not None and rng.random() < 0.3:
                    thr = last                                           # the caller re-uses its threshold
                last = thr if thr is not None else last
                sp = rand_sp(rng, q, thr, tw) if (q in ("maxima", "minima") and rng.random() < 0.5) else None
                ops.append(mk_op(q, obj=obj, local=rng.random() < 0.5, thr=thr, twin=tw, rettime=rng.random() < 0.8,
                                 scribble=rng.random() < 0.3, sp=sp))
        src = "i64" if (rng.random() < 0.3 and all(is_int(v) and abs(v) < 2 ** 62 for v in x)) else "f64"
        yield mk_hist(x, t, ops, objects, readonly=rng.random() < 0.25, src=src)


def hist_states(h):
    """the exact signal of the queried series before every step (the caller's changes applied)"""
    cur = [[Fraction(v) for v in h["x"]] for _ in range(h["objects"])]
    out = []
    for op in h["ops"]:
        out.append(cur[op["obj"]])
        if op["q"] == "setx":
            cur[op["obj"]] = [Fraction(v) for v in op["values"]]
    return out


def hist_requests(h):
    """per step the list of model requests: one per maxima / minima / stats step, two per trace step (the model sees the windowed
    current signal)"""
    t = [Fraction(v) for v in h["t"]]
    out = []
    for op, x in zip(h["ops"], hist_states(h)):
        q = op["q"]
        if q not in ("maxima", "minima", "stats", "trace"):
            out.append([])
            continue
        tw = None if op["twin"] is None else (Fraction(op["twin"][0]), Fraction(op["twin"][1]))
        xs = " ".join(rat(x[i]) for i in window_of(t, tw))
        if q == "stats":
            out.append(["pk.%s global - %s" % ("min" if op["is_minima"] else "max", xs)])
        elif q == "trace":
            out.append(["pk.max global - " + xs, "pk.min global - " + xs])
        else:
            out.append(["pk.%s %s %s %s" % ("max" if q == "maxima" else "min", "local" if op["local"] else "global",
                                            "-" if op["threshold"] is None else rat(Fraction(op["threshold"])), xs)])
    return out


def spell_twin(kind, twq):
    if twq is None:
        return None
    a, b = float(twq[0]), float(twq[1])
    if kind == "list":
        return [a, b]
    if kind == "array":
        return np.array([a, b])
    if kind == "npf":
        return (np.float64(a), np.float64(b))
    if kind == "int":
        return (int(twq[0]), int(twq[1]))
    return (a, b)


def call_extrema(ts, op, twq, T):
    sp = op.get("sp") or {}
    f = getattr(ts, op["q"])
    W, L = spell_twin(sp.get("twin"), twq), make_flag(sp.get("local"), op["local"])
    a = sp.get("args", "kw")
    if a == "pos":
        return f(W, L, T, op["rettime"])
    if a == "noop":                                         # options that are given but do nothing
        kw = [dict(resample=None, filterargs=None, window_len=None, taperfrac=None, window="rectangular"),
              dict(taperfrac=0.0, window_len=0), dict(window="hanning", taperfrac=None)][sp.get("noop", 0)]
        return f(twin=W, local=L, threshold=T, rettime=op["rettime"], **kw)
    return f(twin=W, local=L, threshold=T, rettime=op["rettime"])


def call_bad(ts, op):
    kw = {"twin1": dict(twin=(1.0,)), "filter": dict(filterargs=("xx", 1.0)), "thr_str": dict(threshold="a"),
          "resample_twin": dict(resample=np.arange(3.), twin=(0., 1.)), "kw": dict(nosuch=1)}[op["how"]]
    try:
        getattr(ts, op["call"])(**kw)
    except Exception:                                       # noqa  (the call is allowed to be rejected; what follows must hold)
        pass


def eval_history(h, on_fail):
    """run the steps of `h` in order on the implementation; evaluate the clauses after every step.
    on_fail(oracle, step, expected, observed); stops after the first step with a wrong result.  Returns per step a list aligned with
    hist_requests(h)[step]: ("vp", sorted [(value, position)]) / ("v", sorted [value]) (no positions reported) / None."""
    from qats import TimeSeries
    x = [Fraction(v) for v in h["x"]]
    t = [Fraction(v) for v in h["t"]]
    t0 = np.array([float(v) for v in t])
    x0 = np.array([int(v) for v in x], dtype=np.int64) if h.get("src") == "i64" else np.array([float(v) for v in x])
    src_x, src_t = x0.copy(), t0.copy()
    objs = [TimeSeries("s%d" % k, src_t, src_x) for k in range(h["objects"])]      # all built from the same arrays
    if h.get("readonly"):
        for o in objs:
            o.x.flags.writeable = False
            o.t.flags.writeable = False
    cur = [list(x) for _ in objs]                                                  # exact signal every series should hold now
    cur_f = [np.array([float(v) for v in x]) for _ in objs]
    pos = {float(v): i for i, v in enumerate(t)}
    thr_objs = {}
    seen = [[] for _ in h["ops"]]
    for step, op in enumerate(h["ops"]):
        k = op["obj"]
        ts, xc, q = objs[k], cur[k], op["q"]
        twq = None if op.get("twin") is None else (Fraction(op["twin"][0]), Fraction(op["twin"][1]))
        tw = None if twq is None else (float(twq[0]), float(twq[1]))
        sel = window_of(t, twq)
        xw, off = [xc[i] for i in sel], (sel[0] if sel else 0)
        bad = False

        def fail(oracle, expected, observed):
            nonlocal bad
            bad = bad or oracle not in (H_READBACK, H_INTACT)      # a wrong result ends the history; an altered series does not:
            on_fail(oracle, step, expected, observed)              # the following queries show what it does to the results

        def positions(m, tm, ref, what):
            """positions of the reported times; None (and a failing clause) when they are not times of samples of the window"""
            m, tm = np.asarray(m), np.asarray(tm)
            if m.shape != tm.shape or any(float(v) not in pos for v in tm):
                fail(H_ORDER % what, [(str(a), str(t[b])) for a, b in ref], [m.tolist(), tm.tolist()])
                return None
            return [pos[float(v)] for v in tm]
        try:
            if q == "setx":
                y = [Fraction(v) for v in op["values"]]
                how = op["how"] if not (h.get("readonly") or (ts.x.dtype.kind != "f" and op["how"] != "assign_int")) else "assign"
                yf = np.array([float(v) for v in y])
                if how == "assign_int":
                    ts.x = np.array([int(v) for v in y], dtype=np.int64)
                elif how == "inplace":
                    ts.x[:] = yf
                elif how == "items":
                    for i, (a, b) in enumerate(zip(xc, y)):
                        if a != b:
                            ts.x[i] = float(b)
                elif how == "negate":
                    ts.x *= -1
                else:
                    ts.x = yf.copy()
                    if h.get("readonly"):
                        ts.x.flags.writeable = False
                cur[k], cur_f[k] = y, yf
            elif q == "bad":
                call_bad(ts, op)
            elif q in ("max", "min"):
                v = getattr(ts, q)(twin=tw) if tw is not None else getattr(ts, q)()
                e = max(xw) if q == "max" else min(xw)
                if Fraction(float(v)) != e:
                    fail(H_MAXMIN, str(e), float(v))
            elif q == "stats":
                ref = ref_extrema(xw, "minima" if op["is_minima"] else "maxima", False, None)
                kw = {} if tw is None else dict(twin=tw)
                if op.get("via") == "funcs":
                    from qats.app.funcs import calculate_stats
                    s = calculate_stats({"s": ts}, tw, None, minima=op["is_minima"])["s"]["sample"]
                else:
                    s = ts.stats(include_sample=True, is_minima=op["is_minima"], **kw)["sample"]
                got = sorted(Fraction(float(v)) for v in np.asarray(s).reshape(-1))
                seen[step] = [("v", got)]
                if got != sorted(v for v, _ in ref):
                    fail(H_ORDER % ("global %s (sample reported by TimeSeries.stats)" % ("minima" if op["is_minima"] else "maxima")),
                         [str(a) for a, _ in ref], [str(a) for a in got])
            elif q == "trace":
                from collections import OrderedDict
                from qats.app.funcs import calculate_trace
                cont = {"dict": lambda: {"s": ts}, "ordered": lambda: OrderedDict(s=ts),
                        "two": lambda: {"a": objs[0], "s": ts, "z": objs[-1]}}[op.get("container", "dict")]()
                d = calculate_trace(cont, tw, None)["s"]
                res = []
                for qq, mk, tk in (("maxima", "xmax", "tmax"), ("minima", "xmin", "tmin")):
                    ref = [(v, i + off) for v, i in ref_extrema(xw, qq, False, None)]
                    what = "global %s (reported by qats.app.funcs.calculate_trace)" % qq
                    ind = positions(d[mk], d[tk], ref, what)
                    got = None if ind is None else canon(d[mk], ind)
                    res.append(None if got is None else ("vp", got))
                    if got is not None and got != ref:
                        fail(H_ORDER % what, [(str(a), b) for a, b in ref], [(str(a), b) for a, b in got])
                seen[step] = res
                dx, dt_ = np.asarray(d["x"]), np.asarray(d["t"])
                if dx.tolist() != [float(v) for v in xw] or dt_.tolist() != [float(t[i]) for i in sel]:
                    fail(H_ORDER % "trace (signal and times of the window, as plotted with the peaks)", [str(v) for v in xw][:40], dx.tolist()[:40])
            else:
                thr = None if op["threshold"] is None else Fraction(op["threshold"])
                sp = op.get("sp") or {}
                tk = sp.get("thr", "float")
                if thr is None:
                    T = None
                elif tk in ("arr0d", "arr1"):                   # an object the caller keeps and hands in again
                    T = thr_objs.setdefault((tk, thr), make_thr(tk, thr))
                else:
                    T = make_thr(tk, thr)
                ref = [(v, i + off) for v, i in ref_extrema(xw, q, op["local"], thr)]
                res = call_extrema(ts, op, twq, T)
                what = "%s %s" % ("local" if op["local"] else "global", q)
                if op["rettime"]:
                    m, tm = res
                    m, tm = np.asarray(m), np.asarray(tm)
                    ind = positions(m, tm, ref, what)
                    if ind is not None:
                        got = canon(m, ind)
                        seen[step] = [("vp", got)]
                        if got != ref:
                            fail(H_ORDER % what, [(str(a), b) for a, b in ref], [(str(a), b) for a, b in got])
                        xn, tn = np.asarray(ts.x), np.asarray(ts.t)
                        if xn.shape != t0.shape or any(float(xn[i]) != float(v) or float(tn[i]) != float(w) for v, w, i in zip(m, tm, ind)):
                            fail(H_READBACK, "x[ind], t[ind]", dict(extrema=m.tolist(), times=tm.tolist(),
                                                                    x_now=xn.tolist()[:40], t_now=tn.tolist()[:40]))
                else:
                    m = np.asarray(res)
                    got = sorted(Fraction(float(v)) for v in m)
                    seen[step] = [("v", got)]
                    if got != sorted(v for v, _ in ref):
                        fail(H_ORDER % what, [str(a) for a, _ in ref], [str(a) for a in got])
                ma = m if q == "maxima" else -m
                if any(b < a for a, b in zip(ma, ma[1:])):
                    fail(H_ASC, "ascending", m.tolist())
                if op["scribble"]:                      # the caller re-uses the arrays it was handed
                    for arr in (res if op["rettime"] else (res,)):
                        if isinstance(arr, np.ndarray) and arr.size and arr.flags.writeable:
                            arr[...] = 777.0
        except Exception as e:                          # noqa
            fail(NOEXC, "result", "err:%s:%s" % (type(e).__name__, str(e)[:80]))
        for j, o in enumerate(objs):
            if not (np.array_equal(np.asarray(o.x), cur_f[j]) and np.array_equal(np.asarray(o.t), t0)):
                fail(H_INTACT, dict(x=cur_f[j].tolist()[:40]), dict(series=j, x_now=np.asarray(o.x).tolist()[:40], t_now=np.asarray(o.t).tolist()[:40]))
                break
        if not (np.array_equal(src_x, x0) and np.array_equal(src_t, t0)):
            fail(H_INTACT, dict(x=x0.tolist()[:40]), dict(source_x_now=src_x.tolist()[:40], source_t_now=src_t.tolist()[:40]))
        if bad:
            break
    return seen


def is_u3(f):
    """C14-U3: minima raises on a series to which the caller has assigned an integer array"""
    i = f.get("input") or {}
    ops = i.get("ops", []) if i.get("kind") == "history" else []
    return bool(ops) and ops[-1].get("q") in ("minima", "trace") and f.get("oracle") == NOEXC and "UFuncTypeError" in str(f.get("observed")) and \
        any(o.get("q") == "setx" and o.get("how") == "assign_int" and o.get("obj") == ops[-1].get("obj") for o in ops[:-1])


def input_findings(c):
    """the classes of FINDINGS an input belongs to (a switched-off class is not generated and its corpus entries are not run)"""
    out = []
    if is_u1(dict(input=c)):
        out.append("C14-U1")
    if c.get("kind") == "history" and any(o.get("q") == "setx" and o.get("how") == "assign_int" for o in c.get("ops", [])):
        out.append("C14-U3")
    return out


def gen_adc(chk):
    """integer-valued records as an acquisition system stores them (16-bit counts with large swings, unsigned counts)"""
    rng = chk.rng
    for _ in range(40 if chk.quick else 400):
        n = rng.choice([3, 5, 8, 21, 60])
        k = rng.random()
        if k < 0.4:
            yield [Fraction(rng.randint(-30000, 30000)) for _ in range(n)]
        elif k < 0.7:
            yield [Fraction(rng.randint(0, 255)) for _ in range(n)]
        else:
            yield [Fraction(rng.choice([-32767, -20000, 0, 0, 1, 20000, 32767])) for _ in range(n)]


def record_spell(chk, x, loc, thr, sp, mod):
    """stream `spell`: the clauses on find_maxima in another spelling; same model reply `mod` as the plain case"""
    inp = dict(x=[str(v) for v in x], what="spell", mode="local" if loc else "global", threshold=None if thr is None else str(thr), spell=sp)
    got, fails = eval_spell(x, loc, thr, sp)
    chk.count("spell")
    chk.dist("spell:%s:%s:%s" % (sp["container"], sp["thr"], sp["args"]))
    for oracle, e, o in fails:
        chk.fail(oracle, inp, e, o)
    if got is not None and mod is not None and got != mod:
        chk.disagree("pk.spell", inp, [(str(a), b) for a, b in mod], [(str(a), b) for a, b in got])
    if got:
        chk.nontriv(("spell", tuple(x), loc, thr, repr(sorted(sp.items()))))


def run(chk):
    from qats.signal import find_maxima, average_frequency
    from qats import TimeSeries
    chk.extra["rule"] = RULE
    chk.assumptions += ["integer / dyadic signals: the float mean and all comparisons are exact",
                        "order among equal-valued maxima is unspecified in the implementation (argsort): compared as sorted (value, position)",
                        "real-valued signals: the float mean differs from the exact mean by less than n * 2**-52 * max|x| (cases with a sample "
                        "that close to the mean are counted and skipped for the reference and the model, not for the other clauses)"]
    rng = chk.rng
    drv = core.Driver()
    corpus = [c for c in core.load_corpus("C14") if all(FINDINGS[k] for k in input_findings(c))]
    adc = list(gen_adc(chk))
    forced = set(id(x) for x in adc)
    cases = [[Fraction(v) for v in c["x"]] for c in corpus if c.get("kind") is None and c.get("what") is None] + list(gen(chk)) + adc
    hists = [c for c in corpus if c.get("kind") == "history"] + list(gen_histories(chk))
    floats = [c for c in corpus if c.get("kind") == "float"] + [rand_float_case(rng) for _ in range(900 if chk.quick else 9000)]
    spelled = [c for c in corpus if c.get("what") == "spell"]
    lines, meta = [], []
    for c in spelled:                                        # corpus: spelled cases that must always be tried first
        x = [Fraction(v) for v in c["x"]]
        thr = None if c.get("threshold") is None else Fraction(c["threshold"])
        lines.append("pk.max %s %s %s" % (c["mode"], "-" if thr is None else rat(thr), " ".join(rat(v) for v in x)))
        meta.append((x, "spell", c["mode"], thr, c["spell"]))
    for x in cases:
        xs = " ".join(rat(v) for v in x)
        thr = rand_threshold(rng, x)
        ts = "-" if thr is None else rat(thr)
        for loc in ("global", "local"):
            sp = rand_spell(rng, x, thr) if (id(x) in forced or rng.random() < 0.08) else None
            if sp is not None and id(x) in forced and rng.random() < 0.7:
                sp["container"] = rng.choice([k for k in containers_for(x) if k in INT_BITS] or ["f64"])
            lines.append("pk.max %s %s %s" % (loc, ts, xs)); meta.append((x, "max", loc, thr, sp))
        lines.append("pk.min %s %s %s" % (rng.choice(["global", "local"]), ts, xs)); meta.append((x, "min", lines[-1].split()[1], thr, None))
        up = rng.random() < 0.6
        tq = [Fraction(i) for i in range(len(x))] if rng.random() < 0.6 else rand_times(rng, len(x))
        lines.append("pk.freq %d %s | %s" % (1 if up else 0, " ".join(rat(v) for v in tq), xs)); meta.append((x, "freq", up, tq, None))
    n_single = len(lines)
    hreq = []
    for h in hists:
        r = hist_requests(h)
        hreq.append([list(range(len(lines) + sum(len(q) for q in r[:k]), len(lines) + sum(len(q) for q in r[:k + 1]))) for k in range(len(r))])
        lines += [q for step in r for q in step]
    n_hist = len(lines)
    lines += [float_request(c) for c in floats]
    # ---- processed signals: the implementation is run first (its processed trace is the signal the model is asked about) -----------
    prng = random.Random(chk.seed * 1000003 + 14)            # own stream: the other streams keep the cases they had for this seed
    procs = [c for c in corpus if c.get("kind") == "proc"] + [rand_proc_case(prng) for _ in range(90 if chk.quick else 500)]
    n_float = len(lines)
    proc_model = []
    for k, c in enumerate(procs):
        fails = []
        with warnings.catch_warnings():
            warnings.simplefilter("ignore")                  # (the distribution fits of stats() on short records)
            res = eval_proc(c, lambda oracle, step, e, o: fails.append((oracle, step, e, o)), want_requests=(k % 3 == 0))
        for oracle, step, e, o in fails:
            chk.fail(oracle, dict(c, steps=c["steps"][:step + 1]), e, o, step=step)
        chk.count("proc")
        chk.count("proc.step", len(c["steps"]))
        for step, (st, r) in enumerate(zip(c["steps"], res)):
            chk.dist("proc:%s:%s%s" % (st["via"], proc_label(st["opts"]), "" if st["twin"] is None else ":window"))
            if r is None:
                chk.dist("proc:options rejected by TimeSeries.get")
                continue
            for req, got in r:
                if req is not None:
                    proc_model.append((len(lines), dict(c, steps=c["steps"][:step + 1]), got))
                    lines.append(req)
            if st["opts"] and any((g[1] if isinstance(g, tuple) else g) for _, g in r) and not fails:
                chk.nontriv(("proc", tuple(c["x"][:8]), len(c["x"]), step, repr(st)))
    outs = drv.run(lines)
    for li, inp, got in proc_model:
        if parse(outs[li]) != got:
            chk.disagree("pk.proc", inp, [(float(a), b) for a, b in parse(outs[li])][:40], [(float(a), b) for a, b in got][:40])
    for (x, what, loc, thr, sp), o in zip(meta, outs[:n_single]):
        xf = np.array([float(v) for v in x])
        chk.count("pk." + ("max" if what == "spell" else what))
        if what == "freq":
            up, tq = loc, thr
            tf = np.array([float(v) for v in tq])
            inp = dict(x=[str(v) for v in x], what=what, up=bool(up), t=[str(v) for v in tq])
            mv = None if o.strip() == "ok nan" else float(Fraction(o.split()[1]))
            obs = []
            try:
                obs.append(("average_frequency", average_frequency(tf, xf, up=up) if rng.random() < 0.7 else average_frequency(tf, xf, up)))
                if up and len(x) >= 2 and rng.random() < 0.15:
                    ts_ = TimeSeries("s", tf, xf)
                    obs.append(("TimeSeries.average_frequency", ts_.average_frequency))
                    obs.append(("1/TimeSeries.average_period", 1. / ts_.average_period))
            except Exception as e:                                  # noqa  (tied to the model only: not a clause of the property)
                obs.append(("average_frequency", "err:%s:%s" % (type(e).__name__, str(e)[:80])))
            for name, f in obs:
                if isinstance(f, str) or (mv is None) != bool(np.isnan(f)) or (mv is not None and abs(mv - f) > 1e-12 * abs(f)):
                    chk.disagree("pk.freq", dict(inp, via=name), mv, f if isinstance(f, str) else float(f))
            continue
        if what == "spell":
            record_spell(chk, x, loc == "local", thr, sp, parse(o))
            continue
        inp = dict(x=[str(v) for v in x], what=what, mode=loc, threshold=None if thr is None else str(thr))
        t = np.arange(len(x), dtype=float) * 0.5 + 3.0
        try:
            if what == "max":
                m, ind = find_maxima(xf, local=(loc == "local"), threshold=None if thr is None else float(thr))
            else:
                ts_ = TimeSeries("s", t, xf)
                m, tm = ts_.minima(local=(loc == "local"), threshold=None if thr is None else float(thr), rettime=True)
                ind = np.round((tm - 3.0) / 0.5).astype(int)
            im = canon(m, ind)
        except Exception as e:
            m, ind, im = None, None, "err:%s:%s" % (type(e).__name__, str(e)[:80])
        mod = parse(o)
        if im != mod:
            chk.disagree("pk." + what, inp, [(str(a), b) for a, b in mod], im if isinstance(im, str) else [(str(a), b) for a, b in im])
            if isinstance(im, str):
                ref = ref_extrema(x, "maxima" if what == "max" else "minima", loc == "local", thr)
                chk.fail(NOEXC, inp, [(str(a), b) for a, b in ref], im)          # a crash is a failing clause, never an infrastructure error
                continue
        if im:
            chk.nontriv((tuple(x), what, loc, thr))
        chk.dist("%s:%s:%s" % (what, loc, "n=%d" % min(len(im), 3)))
        # ---- oracles (implementation alone) ------------------------------------------------------------------------------
        if what == "max":
            if any(float(xf[i]) != float(v) for v, i in zip(m, ind)):
                chk.fail("maxima are the signal values at the returned positions", inp, "x[ind]", [float(v) for v in m])
            if any(b < a for a, b in zip(m, m[1:])):
                chk.fail("maxima in ascending order", inp, "ascending", [float(v) for v in m])
            ref = ref_global(x) if loc == "global" else ref_local(x)
            if thr is not None:
                ref = [(v, i) for v, i in ref if v >= thr]
            if ref != im:
                chk.fail("%s maxima are exactly the %s (threshold only removes values below it)" % (
                    loc, "first-position largest value of each closed excursion above the mean" if loc == "global" else "interior peaks"),
                    inp, [(str(a), b) for a, b in ref], [(str(a), b) for a, b in im])
            if loc == "global" and thr is None:
                lv = set(v for v, _ in ref_local(x))
                if any(v not in lv for v, _ in im):
                    chk.fail("every global maximum is among the local maxima", inp, "subset", [(str(a), b) for a, b in im])
            if sp is not None:
                record_spell(chk, x, loc == "local", thr, sp, mod)
        else:
            # minima = mirrored maxima of the negated signal: against the independent reference, and against find_maxima(-x)
            ref = ref_extrema(x, "minima", loc == "local", thr)
            if ref != im:
                chk.fail("%s minima are exactly the mirrored %s of the negated signal (threshold negated too)" % (
                    loc, "first-position excursion maxima" if loc == "global" else "interior peaks"),
                    inp, [(str(a), b) for a, b in ref], [(str(a), b) for a, b in im])
            try:
                m2, i2 = find_maxima(-xf, local=(loc == "local"), threshold=None if thr is None else -float(thr))
                mir = canon(-m2, i2)
            except Exception as e:                                  # noqa
                mir = "err:%s:%s" % (type(e).__name__, str(e)[:80])
            if mir != im:
                chk.fail("minima are the mirrored maxima of the negated signal (threshold negated too)", inp,
                         mir if isinstance(mir, str) else [(str(a), b) for a, b in mir], [(str(a), b) for a, b in im])
    # ---- query histories: the clauses hold for every call of a sequence on the same object ----------------------------------------
    for h, rq in zip(hists, hreq):
        fails = []
        seen = eval_history(h, lambda oracle, step, e, o: fails.append((oracle, step, e, o)))
        for oracle, step, e, o in fails:
            chk.fail(oracle, dict(h, ops=h["ops"][:step + 1]), e, o, step=step)
        chk.count("history")
        chk.count("history.step", len(h["ops"]))
        chk.dist("history:steps=%d:objects=%d" % (min(len(h["ops"]), 4), h["objects"]))
        t = [Fraction(v) for v in h["t"]]
        prior, changed = set(), set()
        for step, op in enumerate(h["ops"]):
            chk.dist("history.op:" + op["q"])
            if op["q"] == "setx":
                changed.add(op["obj"])
            if op["q"] not in ("maxima", "minima", "stats", "trace"):
                continue
            if not seen[step] or fails:
                prior.add(op["obj"])
                continue
            twq = None if op["twin"] is None else (Fraction(op["twin"][0]), Fraction(op["twin"][1]))
            sel = window_of(t, twq)
            off = sel[0] if sel else 0
            for li, r in zip(rq[step], seen[step]):
                if r is None:
                    continue
                mod = sorted((v, i + off) for v, i in parse(outs[li]))
                if r[0] == "v":
                    mod = sorted(v for v, _ in mod)
                if mod != r[1]:
                    chk.disagree("pk.history", dict(h, ops=h["ops"][:step + 1]), [str(a) for a in mod], [str(a) for a in r[1]])
            if any(r is not None and r[1] for r in seen[step]) and op["obj"] in prior:
                chk.nontriv(("hist", tuple(h["x"]), tuple(h["t"]), h["objects"], repr(h["ops"][:step + 1])))
                if op["obj"] in changed:
                    chk.dist("history:extrema found after the caller changed the signal")
            prior.add(op["obj"])
    # ---- noisy real-valued signals --------------------------------------------------------------------------------------------------
    for c, o in zip(floats, outs[n_hist:n_float]):
        got, amb, fails = eval_float(c)
        chk.count("float")
        chk.dist("float:%s:%s%s" % (c["via"], "local" if c["local"] else "global", ":skipped-near-mean" if amb else ""))
        for oracle, e, ob in fails:
            chk.fail(oracle, c, e, ob)
        if got is None or amb:
            continue
        off = (float_window(c)[2] or [0])[0]
        mod = sorted((v, i + off) for v, i in parse(o))
        if mod != got:
            chk.disagree("pk.float", c, [(float(a), b) for a, b in mod], [(float(a), b) for a, b in got])
        if got:
            chk.nontriv(("float", tuple(c["x"]), c["via"], c["local"], c["threshold"], repr(c["twin"])))
    # ---- long signals (sizes around 1000 / 1024 / 4096 / 10000 and beyond 65536; events at the ends and at block boundaries) ----
    for c in [c for c in corpus if c.get("kind") == "long"] + list(gen_long(chk)):
        fails, found = eval_long(c)
        chk.count("long")
        chk.dist("long:%s:n=%d:%s" % (c["via"], c["n"], c["shape"]))
        for oracle, e, ob in fails:
            chk.fail(oracle, c, e, ob)
        if found:
            chk.nontriv(("long", c["n"], c["shape"], c["seed"], c["via"]))
    # ---- series-level entry points and affine map -------------------------------------------------------------------------------
    sub = rng.sample(cases, min(len(cases), 400 if chk.quick else 4000))
    for x in sub:
        if len(x) < 3:
            continue
        xf = np.array([float(v) for v in x])
        t = np.arange(len(x), dtype=float) * 0.25 - 1.0
        inp = dict(x=[str(v) for v in x])
        chk.count("ts.maxima")
        try:
            ts_ = TimeSeries("s", t, xf)
            for loc in (False, True):
                m, tm = ts_.maxima(local=loc, rettime=True)
                m0, i0 = find_maxima(xf, local=loc)
                if not (np.array_equal(m, m0) and np.array_equal(tm, t[i0])):
                    chk.fail("TimeSeries.maxima(rettime) == find_maxima and reported times are the times at those positions",
                             dict(inp, local=loc), [m0.tolist(), t[i0].tolist()], [np.asarray(m).tolist(), np.asarray(tm).tolist()])
                # a = 2**p over the whole range of units, b = a * k * (a value of the signal): a*x + b is exact in floating point
                aq = rng.choice([Fraction(2), Fraction(1, 2), Fraction(4)]) if rng.random() < 0.4 else rand_unit(rng)
                w = next((abs(v) for v in x if v != 0), Fraction(1))
                bq = aq * rng.randint(-5, 5) * w
                a, b = float(aq), float(bq)
                y = a * xf + b
                if any(Fraction(float(yv)) != aq * v + bq for yv, v in zip(y, x)):
                    continue                                    # not exact (cannot happen with these pools): no honest exact comparison
                chk.count("affine")
                m1, i1 = find_maxima(y, local=loc)
                if canon(m1, i1) != sorted((aq * v + bq, i) for v, i in canon(m0, i0)):
                    chk.fail(AFFINE, dict(inp, what="affine", a=str(aq), b=str(bq), local=loc),
                             [(float(a * v + b), int(i)) for v, i in zip(m0, i0)], [(float(v), int(i)) for v, i in zip(m1, i1)])
                elif len(m0):
                    chk.dist("affine:%s" % ("a<2^-40" if aq < Fraction(1, 2 ** 40) else "a>2^40" if aq > 2 ** 40 else "moderate"))
            if ts_.max() != xf.max() or ts_.min() != xf.min():
                chk.fail("TimeSeries.max/min are the extreme signal values", inp, [xf.max(), xf.min()], [ts_.max(), ts_.min()])
            # window: maxima of the windowed signal
            if len(x) >= 6:
                tw = (float(t[1]), float(t[-2]))
                m, tm = ts_.maxima(twin=tw, rettime=True)
                m0, i0 = find_maxima(xf[1:-1])
                if not (np.array_equal(m, m0) and np.array_equal(tm, t[1:-1][i0])):
                    chk.fail("maxima within a time window are those of the windowed signal", dict(inp, twin=tw), m0.tolist(), np.asarray(m).tolist())
        except Exception as e:                                  # noqa
            chk.fail(NOEXC, inp, "maxima / max / min of the series and of its affine image", "err:%s:%s" % (type(e).__name__, str(e)[:80]))
    chk.sample(dict(x=[0, 3, 3, 0, 5, 1, 0, 4, 0], global_maxima=[[3, 1], [4, 7], [5, 4]], local_maxima=[[3, 2], [4, 7], [5, 4]]))


def replay(rp):
    from qats.signal import find_maxima
    inp = rp["input"]
    if inp.get("kind") == "history":
        fails = []
        seen = eval_history(inp, lambda oracle, step, e, o: fails.append((oracle, step, e, o)))
        for step, (op, res) in enumerate(zip(inp["ops"], seen)):
            shown = [None if r is None else [(str(a[0]), a[1]) if isinstance(a, tuple) else str(a) for a in r[1]] for r in res]
            print("step %d: %s -> %s" % (step, {k: (v if k != "values" else " ".join(v)) for k, v in op.items() if v is not None and v is not False},
                                         shown[0] if len(shown) == 1 else shown))
        for oracle, step, e, o in fails:
            print("FAILS at step %d: %s\n   expected %s\n   observed %s" % (step, oracle, e, o))
        print("replay: %d failing clause(s)" % len(fails))
        return 1 if fails else 0
    if inp.get("kind") == "proc":
        fails = []
        res = eval_proc(inp, lambda oracle, step, e, o: fails.append((oracle, step, e, o)))
        for step, (st, r) in enumerate(zip(inp["steps"], res)):
            tw = None if st["twin"] is None else (float.fromhex(st["twin"][0]), float.fromhex(st["twin"][1]))
            shown = "options rejected by TimeSeries.get" if r is None else \
                [("values", [float(a) for a in g[1]][:12]) if isinstance(g, tuple) else [(float(a), b) for a, b in g][:12] for _, g in r]
            print("step %d: %s window=%s options=%s %s -> %s" % (
                step, st["via"], tw, st["opts"], {k: (v if k != "threshold" or v is None else float.fromhex(v)) for k, v in st.items()
                                                  if k not in ("via", "twin", "opts")}, shown))
        for oracle, step, e, o in fails:
            print("FAILS at step %d: %s\n   expected %s\n   observed %s" % (step, oracle, e, o))
        print("replay: %d failing clause(s)" % len(fails))
        return 1 if fails else 0
    if inp.get("kind") == "long":
        fails, found = eval_long(inp)
        print("long signal: %d samples, %s, via %s, events %s, window %s: %d maxima reported in all queries" % (
            inp["n"], inp["shape"], inp["via"], inp["events"], inp.get("win"), found))
        for oracle, e, o in fails:
            print("FAILS: %s\n   expected %s\n   observed %s" % (oracle, e, o))
        print("replay: %d failing clause(s)" % len(fails))
        return 1 if fails else 0
    if inp.get("kind") == "float":
        got, amb, fails = eval_float(inp)
        xf, tf, sel, tw = float_window(inp)
        print("%s %s threshold=%s window=%s on %d of %d samples%s\n   impl %s" % (
            "local" if inp["local"] else "global", inp["via"], None if inp["threshold"] is None else float.fromhex(inp["threshold"]), tw,
            len(sel), len(xf), " (a sample lies within rounding of the mean: reference not applicable)" if amb else "",
            None if got is None else [(float(a), b) for a, b in got]))
        for oracle, e, o in fails:
            print("FAILS: %s\n   expected %s\n   observed %s" % (oracle, e, o))
        print("replay: %d failing clause(s)" % len(fails))
        return 1 if fails else 0
    if inp.get("what") == "spell":
        x = [Fraction(v) for v in inp["x"]]
        thr = None if inp.get("threshold") is None else Fraction(inp["threshold"])
        got, fails = eval_spell(x, inp["mode"] == "local", thr, inp["spell"])
        print("%s maxima threshold=%s spelling %s\n   impl %s\n   reference %s" % (
            inp["mode"], thr, inp["spell"], None if got is None else [(float(a), b) for a, b in got],
            [(float(a), b) for a, b in ref_extrema(x, "maxima", inp["mode"] == "local", thr)]))
        for oracle, e, o in fails:
            print("FAILS: %s\n   expected %s\n   observed %s" % (oracle, e, o))
        print("replay: %d failing clause(s)" % len(fails))
        return 1 if fails else 0
    x = [Fraction(v) for v in inp["x"]]
    xf = np.array([float(v) for v in x])
    bad = 0
    if inp.get("what") == "affine":
        aq, bq, loc = Fraction(inp["a"]), Fraction(inp["b"]), bool(inp["local"])
        m0, i0 = find_maxima(xf, local=loc)
        m1, i1 = find_maxima(float(aq) * xf + float(bq), local=loc)
        exp = sorted((aq * v + bq, i) for v, i in canon(m0, i0))
        print("a=%s b=%s %s: maxima of x %s\n   mapped %s\n   maxima of a*x+b %s" % (
            float(aq), float(bq), "local" if loc else "global", [(float(v), i) for v, i in canon(m0, i0)],
            [(float(v), i) for v, i in exp], [(float(v), i) for v, i in canon(m1, i1)]))
        if canon(m1, i1) != exp:
            print("FAILS: " + AFFINE)
            bad += 1
        print("replay: %d failing clause(s)" % bad)
        return 1 if bad else 0
    thr = None if inp.get("threshold") is None else Fraction(inp["threshold"])
    if inp.get("what") in ("max", "min") and inp.get("mode") in ("global", "local"):
        # the recorded query itself (mode and threshold; minima through TimeSeries.minima and as mirrored maxima)
        from qats import TimeSeries
        loc = inp["mode"] == "local"
        tf = None if thr is None else float(thr)
        ref = ref_extrema(x, "maxima" if inp["what"] == "max" else "minima", loc, thr)
        if inp["what"] == "max":
            m, i = find_maxima(xf, local=loc, threshold=tf)
            got = canon(m, i)
            asc = not any(b < a for a, b in zip(m, m[1:]))
        else:
            t = np.arange(len(x), dtype=float) * 0.5 + 3.0
            m, tm = TimeSeries("s", t, xf).minima(local=loc, threshold=tf, rettime=True)
            got = canon(m, np.round((tm - 3.0) / 0.5).astype(int))
            m2, i2 = find_maxima(-xf, local=loc, threshold=None if tf is None else -tf)
            asc = canon(-m2, i2) == got
        print("%s %s threshold=%s impl %s reference %s" % (inp["mode"], inp["what"], thr, [(float(a), b) for a, b in got],
                                                           [(float(a), b) for a, b in ref]))
        if got != ref or not asc:
            bad += 1
    for loc in (False, True):
        m, i = find_maxima(xf, local=loc)
        ref = ref_local(x) if loc else ref_global(x)
        print("local" if loc else "global", "impl", [(float(a), b) for a, b in canon(m, i)], "reference", [(float(a), b) for a, b in ref])
        if canon(m, i) != ref:
            bad += 1
    print("replay: %d failing clause(s)" % bad)
    return 1 if bad else 0
