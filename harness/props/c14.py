"""
C14 — extracted peaks are true maxima of the signal.

Tie: strict Rat correspondence (positions and values; equal-valued maxima canonicalised by position) of `find_maxima`
(local / global, thresholds), `TimeSeries.maxima/minima(rettime)`, `max/min`, `average_frequency` on all integer signals over
{0,1,2,3} up to the tier's length and random integer / dyadic signals.
Search: the property's clauses on the implementation alone (run-based characterisation computed independently in Python).
Query histories: the clauses must hold for EVERY call, whatever was called before.  Sequences of maxima / minima / max / min
queries (local/global, thresholds, windows, rettime on/off, returned arrays overwritten by the caller) are issued on one
TimeSeries (or on two series built from the same arrays) and every step is compared with the independent reference on the
signal the series was built from, with the model (same pk.max / pk.min requests), and with the signal read back from the
series after the call.  All 2-step (and 3-step) histories over a base set of 8 queries are enumerated on a few signals.
Units and offsets: the property is stated for all finite signals, so part of every random pool is the same kind of signal in
another unit (times 2**p, p in -200..200: micro-strain in SI units, forces in N instead of MN) and / or riding on a large mean
(offset up to 2**30 units).  Powers of two and small integers keep the float arithmetic exact, so the exact reference, the Rat
model and the affine-map law (a = 2**p, b a multiple of a signal value) still apply without tolerance.  Thresholds include values of the signal itself
(exact tie: `a threshold only removes values below it`) and the mid level.
"""
import itertools
from fractions import Fraction

import numpy as np

from .. import core
from ..core import rat

RULE = ("all words over {0,1,2,3} of length 1..7 (quick) / 9 (thorough) plus seeded random integer signals (length <= 80, plateaus, few "
        "crossings; about a third of them in another unit = times 2**p, p in -200..200, and / or on a large offset up to 2**30 units) "
        "x local/global x thresholds (small integers, a value of the signal, mid level); affine maps a = 2**p (p in -200..200), b = a * k * (a signal value); non-trivial = at least one maximum found; distinct by (signal, mode, threshold). "
        "Query histories: every ordered pair (and triple, on 2 signals) of {maxima,minima} x {global,local} x {no window, inner window} on "
        "6 signals, plus seeded random histories of 2..8 queries (maxima/minima/max/min, thresholds, windows on/between/outside "
        "samples, rettime, 1 or 2 series sharing the source arrays, caller overwriting returned arrays); non-trivial = a step after "
        "a minima()/maxima() call on the same series returns at least one extremum")


def canon(vals, idx):
    return sorted(((Fraction(float(v)), int(i)) for v, i in zip(vals, idx)))


def parse(o):
    body = o[3:].strip()
    if not body:
        return []
    out = []
    for tok in body.split(";"):
        i, v = tok.split(":")
        out.append((Fraction(v), int(i)))
    return sorted(out)


def ref_global(x):
    """independent reference: first-position maximum of every closed excursion above the mean"""
    n = len(x)
    m = Fraction(sum(x), n)
    above = [v > m for v in x]
    out, i = [], 0
    while i < n:
        if above[i]:
            j = i
            while j + 1 < n and above[j + 1]:
                j += 1
            if i >= 1 and j + 1 < n:
                best = max(range(i, j + 1), key=lambda k: (x[k], -k))
                out.append((x[best], best))
            i = j + 1
        else:
            i += 1
    return sorted(out)


def ref_local(x):
    return sorted((x[i], i) for i in range(1, len(x) - 1) if x[i - 1] <= x[i] and x[i + 1] < x[i])


UNIT_EXP = (-200, -150, -100, -70, -60, -55, -52, -50, -45, -30, -10, 10, 30, 52, 60, 100, 200)


def rand_unit(rng):
    """a power of two: the same physical signal stored in another unit (exact in floating point)"""
    p = rng.choice(UNIT_EXP) if rng.random() < 0.7 else rng.randint(-200, 200)
    return Fraction(2) ** p


def rescale(rng, x, p_unit=0.3, p_off=0.15):
    """the signal in another unit and / or riding on a large mean level (still exact: < 45 significant bits)"""
    if rng.random() < p_off:
        k = rng.choice([1, -1]) * 2 ** rng.choice([10, 20, 30])
        x = [v + k for v in x]
    if rng.random() < p_unit:
        u = rand_unit(rng)
        x = [v * u for v in x]
    return x


def rand_threshold(rng, x):
    """None / small integers (as before) / a value of the signal itself (exact tie) / the mid level"""
    k = rng.random()
    if k < 0.4:
        return None
    if k < 0.6:
        return rng.choice([Fraction(rng.randint(-3, 3)), Fraction(1, 2)])
    if k < 0.85:
        return rng.choice(x)
    return (min(x) + max(x)) / 2


def gen(chk):
    L = 7 if chk.quick else 9
    for n in range(1, L + 1):
        for w in itertools.product([0, 1, 2, 3], repeat=n):
            yield [Fraction(v) for v in w]
    rng = chk.rng
    for _ in range(1500 if chk.quick else 20000):
        n = rng.choice([3, 5, 8, 13, 21, 40, 80])
        k = rng.random()
        if k < 0.4:
            x = [Fraction(rng.randint(-8, 8)) for _ in range(n)]
        elif k < 0.7:
            x = [Fraction(rng.randint(-2, 2)) for _ in range(n)]
        else:
            v, x = 0, []
            for _ in range(n):
                v += rng.choice([-3, -1, -1, 0, 0, 1, 1, 3])
                x.append(Fraction(v, rng.choice([1, 1, 2])))
        yield rescale(rng, x)
    # the short words again, in other units: every crossing corner case at every magnitude
    for n in range(3, 6 if chk.quick else 7):
        for w in itertools.product([0, 1, 2, 3], repeat=n):
            u = rand_unit(rng)
            yield [Fraction(v) * u for v in w]


# ---- query histories on one object ------------------------------------------------------------------------------------------------
H_ORDER = "every query of a sequence on one TimeSeries returns exactly the %s of the signal the series was built from " \
          "(minima = mirrored maxima of the negated signal, threshold negated too; window = that part of the signal), " \
          "at the times of those positions, whatever was queried before"
H_READBACK = "returned extrema are the series' signal values at the reported times (signal and times read back from the series after the call)"
H_ASC = "maxima in ascending order (minima: the mirrored ascending maxima of the negated signal, i.e. -minima ascending)"
H_MAXMIN = "TimeSeries.max/min are the extreme signal values (of the window), whatever was queried before"
H_INTACT = "a peak query leaves the signal and times of the series (and of the arrays / other series it was built from) as they were"


AFFINE = "a positive affine map of the signal maps the maxima and keeps their positions"


def ref_extrema(x, q, local, thr):
    """reference for one maxima/minima query on the (windowed) exact signal: sorted (value, position)"""
    if q == "maxima":
        r = ref_local(x) if local else ref_global(x)
        return [(v, i) for v, i in r if thr is None or v >= thr]
    y = [-v for v in x]
    r = ref_local(y) if local else ref_global(y)
    return sorted((-v, i) for v, i in r if thr is None or v >= -thr)


def window_of(t, tw):
    return [i for i in range(len(t)) if tw is None or (tw[0] <= t[i] <= tw[1])]


def rand_signal(rng, n):
    k = rng.random()
    if k < 0.4:
        return rescale(rng, [Fraction(rng.randint(-8, 8)) for _ in range(n)])
    if k < 0.6:
        return rescale(rng, [Fraction(rng.randint(-2, 2)) for _ in range(n)])
    v, x = 0, []
    for _ in range(n):
        v += rng.choice([-3, -1, -1, 0, 0, 1, 1, 3])
        x.append(Fraction(v, rng.choice([1, 1, 2])))
    return rescale(rng, x)


def rand_times(rng, n):
    dt = rng.choice([Fraction(1, 4), Fraction(1, 2), Fraction(1), Fraction(2)])
    t0 = Fraction(rng.randint(-4, 4))
    if rng.random() < 0.7:
        return [t0 + k * dt for k in range(n)]
    t = [t0]
    for _ in range(n - 1):
        t.append(t[-1] + dt * rng.choice([1, 1, 2, 3]))
    return t


def rand_twin(rng, t):
    n = len(t)
    k = rng.random()
    if k < 0.45 or n < 4:
        return None
    if k < 0.55:
        return (t[0] - 1, t[-1] + 1)                       # a window that keeps everything
    a = rng.randint(0, n - 3)
    b = rng.randint(a + 2, n - 1)
    lo = t[a] if (a == 0 or rng.random() < 0.6) else (t[a] + t[a - 1]) / 2
    hi = t[b] if (b == n - 1 or rng.random() < 0.6) else (t[b] + t[b + 1]) / 2
    return (lo, hi)


def mk_op(q, obj=0, local=False, thr=None, twin=None, rettime=True, scribble=False):
    op = dict(obj=obj, q=q, twin=None if twin is None else [str(twin[0]), str(twin[1])])
    if q in ("maxima", "minima"):
        op.update(local=bool(local), threshold=None if thr is None else str(thr), rettime=bool(rettime), scribble=bool(scribble))
    return op


def mk_hist(x, t, ops, objects=1):
    return dict(kind="history", x=[str(v) for v in x], t=[str(v) for v in t], objects=objects, ops=ops)


def gen_histories(chk):
    rng = chk.rng
    # (a) systematic: all ordered pairs / triples over the base set of 8 queries
    sigs = [[Fraction(v) for v in w] for w in ([0, 3, 3, 0, 5, 1, 0, 4, 0], [2, 0, 1, -3, -1, -2, 4, 0, 1, 0], [1, 2, 0, 3, -1, 1, 0])]
    sigs += [rand_signal(rng, rng.choice([8, 11, 14])) for _ in range(3)]
    for k, x in enumerate(sigs):
        t = [Fraction(i, 4) - 1 for i in range(len(x))]
        base = [(q, loc, tw) for q in ("maxima", "minima") for loc in (False, True) for tw in (None, (t[1], t[-2]))]
        depth = (2, 3) if (k in (0, 3) or not chk.quick) else (2,)
        for d in depth:
            for combo in itertools.product(base, repeat=d):
                yield mk_hist(x, t, [mk_op(q, local=loc, twin=tw) for q, loc, tw in combo])
    # (b) seeded random histories
    for _ in range(500 if chk.quick else 6000):
        n = rng.choice([3, 5, 8, 13, 21, 40])
        x, t = rand_signal(rng, n), rand_times(rng, n)
        objects = 1 if rng.random() < 0.75 else 2
        ops = []
        for _ in range(rng.randint(2, 8)):
            q = rng.choice(["maxima", "minima", "minima", "maxima", "max", "min"])
            thr = rand_threshold(rng, x)
            ops.append(mk_op(q, obj=rng.randrange(objects), local=rng.random() < 0.5, thr=thr, twin=rand_twin(rng, t),
                             rettime=rng.random() < 0.8, scribble=rng.random() < 0.3))
        yield mk_hist(x, t, ops, objects)


def hist_requests(h):
    """one model request per maxima/minima step (the model sees the windowed original signal)"""
    x = [Fraction(v) for v in h["x"]]
    t = [Fraction(v) for v in h["t"]]
    out = []
    for op in h["ops"]:
        if op["q"] not in ("maxima", "minima"):
            out.append(None)
            continue
        tw = None if op["twin"] is None else (Fraction(op["twin"][0]), Fraction(op["twin"][1]))
        sel = window_of(t, tw)
        out.append("pk.%s %s %s %s" % ("max" if op["q"] == "maxima" else "min", "local" if op["local"] else "global",
                                       "-" if op["threshold"] is None else rat(Fraction(op["threshold"])),
                                       " ".join(rat(x[i]) for i in sel)))
    return out


def eval_history(h, on_fail):
    """run the queries of `h` in order on the implementation; evaluate the clauses after every step.
    on_fail(oracle, step, expected, observed); stops after the first step with a wrong result.  Returns per step the observed
    sorted [(value, position)] (rettime) / sorted [value] (no rettime) / None."""
    from qats import TimeSeries
    x = [Fraction(v) for v in h["x"]]
    t = [Fraction(v) for v in h["t"]]
    x0 = np.array([float(v) for v in x])
    t0 = np.array([float(v) for v in t])
    src_x, src_t = x0.copy(), t0.copy()
    objs = [TimeSeries("s%d" % k, src_t, src_x) for k in range(h["objects"])]      # all built from the same arrays
    pos = {float(v): i for i, v in enumerate(t)}
    seen = [None] * len(h["ops"])
    for step, op in enumerate(h["ops"]):
        ts = objs[op["obj"]]
        twq = None if op["twin"] is None else (Fraction(op["twin"][0]), Fraction(op["twin"][1]))
        tw = None if twq is None else (float(twq[0]), float(twq[1]))
        sel = window_of(t, twq)
        xw, off = [x[i] for i in sel], sel[0]
        bad = False

        def fail(oracle, expected, observed):
            nonlocal bad
            bad = bad or oracle not in (H_READBACK, H_INTACT)      # a wrong result ends the history; an altered series does not:
            on_fail(oracle, step, expected, observed)              # the following queries show what it does to the results
        try:
            if op["q"] in ("max", "min"):
                v = getattr(ts, op["q"])(twin=tw) if tw is not None else getattr(ts, op["q"])()
                e = max(xw) if op["q"] == "max" else min(xw)
                if Fraction(float(v)) != e:
                    fail(H_MAXMIN, str(e), float(v))
            else:
                thr = None if op["threshold"] is None else Fraction(op["threshold"])
                ref = [(v, i + off) for v, i in ref_extrema(xw, op["q"], op["local"], thr)]
                res = getattr(ts, op["q"])(twin=tw, local=op["local"], threshold=None if thr is None else float(thr),
                                           rettime=op["rettime"])
                what = "%s %s" % ("local" if op["local"] else "global", op["q"])
                if op["rettime"]:
                    m, tm = res
                    m, tm = np.asarray(m), np.asarray(tm)
                    if m.shape != tm.shape or any(float(v) not in pos for v in tm):
                        fail(H_ORDER % what, [(str(a), str(t[b])) for a, b in ref], [m.tolist(), tm.tolist()])
                    else:
                        ind = [pos[float(v)] for v in tm]
                        got = canon(m, ind)
                        seen[step] = got
                        if got != ref:
                            fail(H_ORDER % what, [(str(a), b) for a, b in ref], [(str(a), b) for a, b in got])
                        xn, tn = np.asarray(ts.x), np.asarray(ts.t)
                        if xn.shape != x0.shape or any(float(xn[i]) != float(v) or float(tn[i]) != float(w) for v, w, i in zip(m, tm, ind)):
                            fail(H_READBACK, "x[ind], t[ind]", dict(extrema=m.tolist(), times=tm.tolist(),
                                                                    x_now=xn.tolist()[:40], t_now=tn.tolist()[:40]))
                else:
                    m = np.asarray(res)
                    got = sorted(Fraction(float(v)) for v in m)
                    seen[step] = got
                    if got != sorted(v for v, _ in ref):
                        fail(H_ORDER % what, [str(a) for a, _ in ref], [str(a) for a in got])
                ma = m if op["q"] == "maxima" else -m
                if any(b < a for a, b in zip(ma, ma[1:])):
                    fail(H_ASC, "ascending", m.tolist())
                if op["scribble"]:                      # the caller re-uses the arrays it was handed
                    for arr in (res if op["rettime"] else (res,)):
                        if isinstance(arr, np.ndarray) and arr.size and arr.flags.writeable:
                            arr[...] = 777.0
        except Exception as e:                          # noqa
            fail("the query returns (no exception)", "result", "err:%s:%s" % (type(e).__name__, str(e)[:80]))
        for k, o in enumerate(objs):
            if not (np.array_equal(np.asarray(o.x), x0) and np.array_equal(np.asarray(o.t), t0)):
                fail(H_INTACT, dict(x=x0.tolist()[:40]), dict(series=k, x_now=np.asarray(o.x).tolist()[:40], t_now=np.asarray(o.t).tolist()[:40]))
                break
        if not (np.array_equal(src_x, x0) and np.array_equal(src_t, t0)):
            fail(H_INTACT, dict(x=x0.tolist()[:40]), dict(source_x_now=src_x.tolist()[:40], source_t_now=src_t.tolist()[:40]))
        if bad:
            break
    return seen


def run(chk):
    from qats.signal import find_maxima, average_frequency
    from qats import TimeSeries
    chk.extra["rule"] = RULE
    chk.assumptions += ["integer / dyadic signals: the float mean and all comparisons are exact",
                        "order among equal-valued maxima is unspecified in the implementation (argsort): compared as sorted (value, position)"]
    rng = chk.rng
    drv = core.Driver()
    corpus = core.load_corpus("C14")
    cases = [[Fraction(v) for v in c["x"]] for c in corpus if c.get("kind") != "history"] + list(gen(chk))
    hists = [c for c in corpus if c.get("kind") == "history"] + list(gen_histories(chk))
    lines, meta = [], []
    for x in cases:
        xs = " ".join(rat(v) for v in x)
        thr = rand_threshold(rng, x)
        ts = "-" if thr is None else rat(thr)
        for loc in ("global", "local"):
            lines.append("pk.max %s %s %s" % (loc, ts, xs)); meta.append((x, "max", loc, thr))
        lines.append("pk.min %s %s %s" % (rng.choice(["global", "local"]), ts, xs)); meta.append((x, "min", lines[-1].split()[1], thr))
        lines.append("pk.freq 1 %s | %s" % (" ".join(str(i) for i in range(len(x))), xs)); meta.append((x, "freq", None, None))
    n_single = len(lines)
    hreq = []
    for h in hists:
        r = hist_requests(h)
        r = [q for q in r if q is not None]
        hreq.append(list(range(len(lines), len(lines) + len(r))))
        lines += r
    outs = drv.run(lines)
    for (x, what, loc, thr), o in zip(meta, outs[:n_single]):
        xf = np.array([float(v) for v in x])
        inp = dict(x=[str(v) for v in x], what=what, mode=loc, threshold=None if thr is None else str(thr))
        chk.count("pk." + what)
        if what == "freq":
            f = average_frequency(np.arange(len(x), dtype=float), xf)
            mv = None if o.strip() == "ok nan" else float(Fraction(o.split()[1]))
            if (mv is None) != bool(np.isnan(f)) or (mv is not None and abs(mv - f) > 1e-12 * abs(f)):
                chk.disagree("pk.freq", inp, mv, float(f))
            continue
        t = np.arange(len(x), dtype=float) * 0.5 + 3.0
        try:
            if what == "max":
                m, ind = find_maxima(xf, local=(loc == "local"), threshold=None if thr is None else float(thr))
            else:
                ts_ = TimeSeries("s", t, xf)
                m, tm = ts_.minima(local=(loc == "local"), threshold=None if thr is None else float(thr), rettime=True)
                ind = np.round((tm - 3.0) / 0.5).astype(int)
            im = canon(m, ind)
        except Exception as e:
            m, ind, im = None, None, "err:" + type(e).__name__
        mod = parse(o)
        if im != mod:
            if len(x) >= 2 or not isinstance(im, str):
                chk.disagree("pk." + what, inp, [(str(a), b) for a, b in mod], im if isinstance(im, str) else [(str(a), b) for a, b in im])
            if isinstance(im, str):
                continue
        if im:
            chk.nontriv((tuple(x), what, loc, thr))
        chk.dist("%s:%s:%s" % (what, loc, "n=%d" % min(len(im), 3)))
        # ---- oracles (implementation alone) ------------------------------------------------------------------------------
        if what == "max":
            if any(float(xf[i]) != float(v) for v, i in zip(m, ind)):
                chk.fail("maxima are the signal values at the returned positions", inp, "x[ind]", [float(v) for v in m])
            if any(b < a for a, b in zip(m, m[1:])):
                chk.fail("maxima in ascending order", inp, "ascending", [float(v) for v in m])
            ref = ref_global(x) if loc == "global" else ref_local(x)
            if thr is not None:
                ref = [(v, i) for v, i in ref if v >= thr]
            if ref != im:
                chk.fail("%s maxima are exactly the %s (threshold only removes values below it)" % (
                    loc, "first-position largest value of each closed excursion above the mean" if loc == "global" else "interior peaks"),
                    inp, [(str(a), b) for a, b in ref], [(str(a), b) for a, b in im])
            if loc == "global" and thr is None:
                lv = set(v for v, _ in ref_local(x))
                if any(v not in lv for v, _ in im):
                    chk.fail("every global maximum is among the local maxima", inp, "subset", [(str(a), b) for a, b in im])
        else:
            # minima = mirrored maxima of the negated signal: against the independent reference, and against find_maxima(-x)
            ref = ref_extrema(x, "minima", loc == "local", thr)
            if ref != im:
                chk.fail("%s minima are exactly the mirrored %s of the negated signal (threshold negated too)" % (
                    loc, "first-position excursion maxima" if loc == "global" else "interior peaks"),
                    inp, [(str(a), b) for a, b in ref], [(str(a), b) for a, b in im])
            m2, i2 = find_maxima(-xf, local=(loc == "local"), threshold=None if thr is None else -float(thr))
            if canon(-m2, i2) != im:
                chk.fail("minima are the mirrored maxima of the negated signal (threshold negated too)", inp,
                         [(str(a), b) for a, b in canon(-m2, i2)], [(str(a), b) for a, b in im])
    # ---- query histories: the clauses hold for every call of a sequence on the same object ----------------------------------------
    for h, rq in zip(hists, hreq):
        fails = []
        seen = eval_history(h, lambda oracle, step, e, o: fails.append((oracle, step, e, o)))
        for oracle, step, e, o in fails:
            chk.fail(oracle, dict(h, ops=h["ops"][:step + 1]), e, o, step=step)
        chk.count("history")
        chk.count("history.step", len(h["ops"]))
        chk.dist("history:steps=%d:objects=%d" % (min(len(h["ops"]), 4), h["objects"]))
        t = [Fraction(v) for v in h["t"]]
        it = iter(rq)
        prior = set()
        for step, op in enumerate(h["ops"]):
            if op["q"] not in ("maxima", "minima"):
                continue
            li = next(it)
            if seen[step] is None or fails:
                prior.add(op["obj"])
                continue
            twq = None if op["twin"] is None else (Fraction(op["twin"][0]), Fraction(op["twin"][1]))
            off = window_of(t, twq)[0]
            mod = sorted((v, i + off) for v, i in parse(outs[li]))
            if not op["rettime"]:
                mod = sorted(v for v, _ in mod)
            if mod != seen[step]:
                chk.disagree("pk.history", dict(h, ops=h["ops"][:step + 1]), [str(a) for a in mod], [str(a) for a in seen[step]])
            if seen[step] and op["obj"] in prior:
                chk.nontriv(("hist", tuple(h["x"]), tuple(h["t"]), h["objects"], repr(h["ops"][:step + 1])))
            prior.add(op["obj"])
    # ---- series-level entry points and affine map -------------------------------------------------------------------------------
    sub = rng.sample(cases, min(len(cases), 400 if chk.quick else 4000))
    for x in sub:
        if len(x) < 3:
            continue
        xf = np.array([float(v) for v in x])
        t = np.arange(len(x), dtype=float) * 0.25 - 1.0
        ts_ = TimeSeries("s", t, xf)
        inp = dict(x=[str(v) for v in x])
        chk.count("ts.maxima")
        for loc in (False, True):
            m, tm = ts_.maxima(local=loc, rettime=True)
            m0, i0 = find_maxima(xf, local=loc)
            if not (np.array_equal(m, m0) and np.array_equal(tm, t[i0])):
                chk.fail("TimeSeries.maxima(rettime) == find_maxima and reported times are the times at those positions",
                         dict(inp, local=loc), [m0.tolist(), t[i0].tolist()], [np.asarray(m).tolist(), np.asarray(tm).tolist()])
            # a = 2**p over the whole range of units, b = a * k * (a value of the signal): a*x + b is exact in floating point
            aq = rng.choice([Fraction(2), Fraction(1, 2), Fraction(4)]) if rng.random() < 0.4 else rand_unit(rng)
            w = next((abs(v) for v in x if v != 0), Fraction(1))
            bq = aq * rng.randint(-5, 5) * w
            a, b = float(aq), float(bq)
            y = a * xf + b
            if any(Fraction(float(yv)) != aq * v + bq for yv, v in zip(y, x)):
                continue                                    # not exact (cannot happen with these pools): no honest exact comparison
            chk.count("affine")
            m1, i1 = find_maxima(y, local=loc)
            if canon(m1, i1) != sorted((aq * v + bq, i) for v, i in canon(m0, i0)):
                chk.fail(AFFINE, dict(inp, what="affine", a=str(aq), b=str(bq), local=loc),
                         [(float(a * v + b), int(i)) for v, i in zip(m0, i0)], [(float(v), int(i)) for v, i in zip(m1, i1)])
            elif len(m0):
                chk.dist("affine:%s" % ("a<2^-40" if aq < Fraction(1, 2 ** 40) else "a>2^40" if aq > 2 ** 40 else "moderate"))
        if ts_.max() != xf.max() or ts_.min() != xf.min():
            chk.fail("TimeSeries.max/min are the extreme signal values", inp, [xf.max(), xf.min()], [ts_.max(), ts_.min()])
        # window: maxima of the windowed signal
        if len(x) >= 6:
            tw = (float(t[1]), float(t[-2]))
            m, tm = ts_.maxima(twin=tw, rettime=True)
            m0, i0 = find_maxima(xf[1:-1])
            if not (np.array_equal(m, m0) and np.array_equal(tm, t[1:-1][i0])):
                chk.fail("maxima within a time window are those of the windowed signal", dict(inp, twin=tw), m0.tolist(), np.asarray(m).tolist())
    chk.sample(dict(x=[0, 3, 3, 0, 5, 1, 0, 4, 0], global_maxima=[[3, 1], [4, 7], [5, 4]], local_maxima=[[3, 2], [4, 7], [5, 4]]))


def replay(rp):
    from qats.signal import find_maxima
    inp = rp["input"]
    if inp.get("kind") == "history":
        fails = []
        seen = eval_history(inp, lambda oracle, step, e, o: fails.append((oracle, step, e, o)))
        for step, (op, got) in enumerate(zip(inp["ops"], seen)):
            print("step %d: %s -> %s" % (step, {k: v for k, v in op.items() if v not in (None, False)},
                                         None if got is None else [(str(a[0]), a[1]) if isinstance(a, tuple) else str(a) for a in got]))
        for oracle, step, e, o in fails:
            print("FAILS at step %d: %s\n   expected %s\n   observed %s" % (step, oracle, e, o))
        print("replay: %d failing clause(s)" % len(fails))
        return 1 if fails else 0
    x = [Fraction(v) for v in inp["x"]]
    xf = np.array([float(v) for v in x])
    bad = 0
    if inp.get("what") == "affine":
        aq, bq, loc = Fraction(inp["a"]), Fraction(inp["b"]), bool(inp["local"])
        m0, i0 = find_maxima(xf, local=loc)
        m1, i1 = find_maxima(float(aq) * xf + float(bq), local=loc)
        exp = sorted((aq * v + bq, i) for v, i in canon(m0, i0))
        print("a=%s b=%s %s: maxima of x %s\n   mapped %s\n   maxima of a*x+b %s" % (
            float(aq), float(bq), "local" if loc else "global", [(float(v), i) for v, i in canon(m0, i0)],
            [(float(v), i) for v, i in exp], [(float(v), i) for v, i in canon(m1, i1)]))
        if canon(m1, i1) != exp:
            print("FAILS: " + AFFINE)
            bad += 1
        print("replay: %d failing clause(s)" % bad)
        return 1 if bad else 0
    thr = None if inp.get("threshold") is None else Fraction(inp["threshold"])
    if inp.get("what") in ("max", "min") and inp.get("mode") in ("global", "local"):
        # the recorded query itself (mode and threshold; minima through TimeSeries.minima and as mirrored maxima)
        from qats import TimeSeries
        loc = inp["mode"] == "local"
        tf = None if thr is None else float(thr)
        ref = ref_extrema(x, "maxima" if inp["what"] == "max" else "minima", loc, thr)
        if inp["what"] == "max":
            m, i = find_maxima(xf, local=loc, threshold=tf)
            got = canon(m, i)
            asc = not any(b < a for a, b in zip(m, m[1:]))
        else:
            t = np.arange(len(x), dtype=float) * 0.5 + 3.0
            m, tm = TimeSeries("s", t, xf).minima(local=loc, threshold=tf, rettime=True)
            got = canon(m, np.round((tm - 3.0) / 0.5).astype(int))
            m2, i2 = find_maxima(-xf, local=loc, threshold=None if tf is None else -tf)
            asc = canon(-m2, i2) == got
        print("%s %s threshold=%s impl %s reference %s" % (inp["mode"], inp["what"], thr, [(float(a), b) for a, b in got],
                                                           [(float(a), b) for a, b in ref]))
        if got != ref or not asc:
            bad += 1
    for loc in (False, True):
        m, i = find_maxima(xf, local=loc)
        ref = ref_local(x) if loc else ref_global(x)
        print("local" if loc else "global", "impl", [(float(a), b) for a, b in canon(m, i)], "reference", [(float(a), b) for a, b in ref])
        if canon(m, i) != ref:
            bad += 1
    print("replay: %d failing clause(s)" % bad)
    return 1 if bad else 0
