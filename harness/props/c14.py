"""
C14 — extracted peaks are true maxima of the signal.

Tie: strict Rat correspondence (positions and values; equal-valued maxima canonicalised by position) of `find_maxima`
(local / global, thresholds), `TimeSeries.maxima/minima(rettime)`, `max/min`, `average_frequency` on all integer signals over
{0,1,2,3} up to the tier's length and random integer / dyadic signals.
Search: the property's clauses on the implementation alone (run-based characterisation computed independently in Python).
"""
import itertools
from fractions import Fraction

import numpy as np

from .. import core
from ..core import rat

RULE = ("all words over {0,1,2,3} of length 1..7 (quick) / 9 (thorough) plus seeded random integer signals (length <= 80, plateaus, few "
        "crossings) x local/global x thresholds; non-trivial = at least one maximum found; distinct by (signal, mode, threshold)")


def canon(vals, idx):
    return sorted(((Fraction(float(v)), int(i)) for v, i in zip(vals, idx)))


def parse(o):
    body = o[3:].strip()
    if not body:
        return []
    out = []
    for tok in body.split(";"):
        i, v = tok.split(":")
        out.append((Fraction(v), int(i)))
    return sorted(out)


def ref_global(x):
    """independent reference: first-position maximum of every closed excursion above the mean"""
    n = len(x)
    m = Fraction(sum(x), n)
    above = [v > m for v in x]
    out, i = [], 0
    while i < n:
        if above[i]:
            j = i
            while j + 1 < n and above[j + 1]:
                j += 1
            if i >= 1 and j + 1 < n:
                best = max(range(i, j + 1), key=lambda k: (x[k], -k))
                out.append((x[best], best))
            i = j + 1
        else:
            i += 1
    return sorted(out)


def ref_local(x):
    return sorted((x[i], i) for i in range(1, len(x) - 1) if x[i - 1] <= x[i] and x[i + 1] < x[i])


def gen(chk):
    L = 7 if chk.quick else 9
    for n in range(1, L + 1):
        for w in itertools.product([0, 1, 2, 3], repeat=n):
            yield [Fraction(v) for v in w]
    rng = chk.rng
    for _ in range(1500 if chk.quick else 20000):
        n = rng.choice([3, 5, 8, 13, 21, 40, 80])
        k = rng.random()
        if k < 0.4:
            x = [Fraction(rng.randint(-8, 8)) for _ in range(n)]
        elif k < 0.7:
            x = [Fraction(rng.randint(-2, 2)) for _ in range(n)]
        else:
            v, x = 0, []
            for _ in range(n):
                v += rng.choice([-3, -1, -1, 0, 0, 1, 1, 3])
                x.append(Fraction(v, rng.choice([1, 1, 2])))
        yield x


def run(chk):
    from qats.signal import find_maxima, average_frequency
    from qats import TimeSeries
    chk.extra["rule"] = RULE
    chk.assumptions += ["integer / dyadic signals: the float mean and all comparisons are exact",
                        "order among equal-valued maxima is unspecified in the implementation (argsort): compared as sorted (value, position)"]
    rng = chk.rng
    drv = core.Driver()
    cases = [[Fraction(v) for v in c["x"]] for c in core.load_corpus("C14")] + list(gen(chk))
    lines, meta = [], []
    for x in cases:
        xs = " ".join(rat(v) for v in x)
        thr = rng.choice([None, None, Fraction(rng.randint(-2, 3)), Fraction(1, 2)])
        ts = "-" if thr is None else rat(thr)
        for loc in ("global", "local"):
            lines.append("pk.max %s %s %s" % (loc, ts, xs)); meta.append((x, "max", loc, thr))
        lines.append("pk.min %s %s %s" % (rng.choice(["global", "local"]), ts, xs)); meta.append((x, "min", lines[-1].split()[1], thr))
        lines.append("pk.freq 1 %s | %s" % (" ".join(str(i) for i in range(len(x))), xs)); meta.append((x, "freq", None, None))
    outs = drv.run(lines)
    for (x, what, loc, thr), o in zip(meta, outs):
        xf = np.array([float(v) for v in x])
        inp = dict(x=[str(v) for v in x], what=what, mode=loc, threshold=None if thr is None else str(thr))
        chk.count("pk." + what)
        if what == "freq":
            f = average_frequency(np.arange(len(x), dtype=float), xf)
            mv = None if o.strip() == "ok nan" else float(Fraction(o.split()[1]))
            if (mv is None) != bool(np.isnan(f)) or (mv is not None and abs(mv - f) > 1e-12 * abs(f)):
                chk.disagree("pk.freq", inp, mv, float(f))
            continue
        t = np.arange(len(x), dtype=float) * 0.5 + 3.0
        try:
            if what == "max":
                m, ind = find_maxima(xf, local=(loc == "local"), threshold=None if thr is None else float(thr))
            else:
                ts_ = TimeSeries("s", t, xf)
                m, tm = ts_.minima(local=(loc == "local"), threshold=None if thr is None else float(thr), rettime=True)
                ind = np.round((tm - 3.0) / 0.5).astype(int)
            im = canon(m, ind)
        except Exception as e:
            m, ind, im = None, None, "err:" + type(e).__name__
        mod = parse(o)
        if im != mod:
            if len(x) >= 2 or not isinstance(im, str):
                chk.disagree("pk." + what, inp, [(str(a), b) for a, b in mod], im if isinstance(im, str) else [(str(a), b) for a, b in im])
            if isinstance(im, str):
                continue
        if im:
            chk.nontriv((tuple(x), what, loc, thr))
        chk.dist("%s:%s:%s" % (what, loc, "n=%d" % min(len(im), 3)))
        # ---- oracles (implementation alone) ------------------------------------------------------------------------------
        if what == "max":
            if any(float(xf[i]) != float(v) for v, i in zip(m, ind)):
                chk.fail("maxima are the signal values at the returned positions", inp, "x[ind]", [float(v) for v in m])
            if any(b < a for a, b in zip(m, m[1:])):
                chk.fail("maxima in ascending order", inp, "ascending", [float(v) for v in m])
            ref = ref_global(x) if loc == "global" else ref_local(x)
            if thr is not None:
                ref = [(v, i) for v, i in ref if v >= thr]
            if ref != im:
                chk.fail("%s maxima are exactly the %s (threshold only removes values below it)" % (
                    loc, "first-position largest value of each closed excursion above the mean" if loc == "global" else "interior peaks"),
                    inp, [(str(a), b) for a, b in ref], [(str(a), b) for a, b in im])
            if loc == "global" and thr is None:
                lv = set(v for v, _ in ref_local(x))
                if any(v not in lv for v, _ in im):
                    chk.fail("every global maximum is among the local maxima", inp, "subset", [(str(a), b) for a, b in im])
        else:
            # minima = mirrored maxima of the negated signal
            m2, i2 = find_maxima(-xf, local=(loc == "local"), threshold=None if thr is None else -float(thr))
            if canon(-m2, i2) != im:
                chk.fail("minima are the mirrored maxima of the negated signal (threshold negated too)", inp,
                         [(str(a), b) for a, b in canon(-m2, i2)], [(str(a), b) for a, b in im])
    # ---- series-level entry points and affine map -------------------------------------------------------------------------------
    sub = rng.sample(cases, min(len(cases), 400 if chk.quick else 4000))
    for x in sub:
        if len(x) < 3:
            continue
        xf = np.array([float(v) for v in x])
        t = np.arange(len(x), dtype=float) * 0.25 - 1.0
        ts_ = TimeSeries("s", t, xf)
        inp = dict(x=[str(v) for v in x])
        chk.count("ts.maxima")
        for loc in (False, True):
            m, tm = ts_.maxima(local=loc, rettime=True)
            m0, i0 = find_maxima(xf, local=loc)
            if not (np.array_equal(m, m0) and np.array_equal(tm, t[i0])):
                chk.fail("TimeSeries.maxima(rettime) == find_maxima and reported times are the times at those positions",
                         dict(inp, local=loc), [m0.tolist(), t[i0].tolist()], [np.asarray(m).tolist(), np.asarray(tm).tolist()])
            a, b = rng.choice([2.0, 0.5, 4.0]), float(rng.randint(-5, 5))
            m1, i1 = find_maxima(a * xf + b, local=loc)
            if canon(m1, i1) != sorted((Fraction(a) * v + Fraction(b), i) for v, i in canon(m0, i0)):
                chk.fail("a positive affine map of the signal maps the maxima and keeps their positions", dict(inp, a=a, b=b, local=loc),
                         [(float(a * v + b), int(i)) for v, i in zip(m0, i0)], [(float(v), int(i)) for v, i in zip(m1, i1)])
        if ts_.max() != xf.max() or ts_.min() != xf.min():
            chk.fail("TimeSeries.max/min are the extreme signal values", inp, [xf.max(), xf.min()], [ts_.max(), ts_.min()])
        # window: maxima of the windowed signal
        if len(x) >= 6:
            tw = (float(t[1]), float(t[-2]))
            m, tm = ts_.maxima(twin=tw, rettime=True)
            m0, i0 = find_maxima(xf[1:-1])
            if not (np.array_equal(m, m0) and np.array_equal(tm, t[1:-1][i0])):
                chk.fail("maxima within a time window are those of the windowed signal", dict(inp, twin=tw), m0.tolist(), np.asarray(m).tolist())
    chk.sample(dict(x=[0, 3, 3, 0, 5, 1, 0, 4, 0], global_maxima=[[3, 1], [4, 7], [5, 4]], local_maxima=[[3, 2], [4, 7], [5, 4]]))


def replay(rp):
    from qats.signal import find_maxima
    inp = rp["input"]
    x = [Fraction(v) for v in inp["x"]]
    xf = np.array([float(v) for v in x])
    bad = 0
    for loc in (False, True):
        m, i = find_maxima(xf, local=loc)
        ref = ref_local(x) if loc else ref_global(x)
        print("local" if loc else "global", "impl", canon(m, i), "reference", ref)
        if canon(m, i) != ref:
            bad += 1
    print("replay: %d failing clause(s)" % bad)
    return 1 if bad else 0
