"""
C08 — the database registry stays coherent over any history of operations.

Tie: correspondence of operation histories (load / load again / add / rename / clear / update / copy / getm / get by index /
iterate, on two databases) between the real `TsDB` objects and the Lean state machine `Qats.Registry.step`: after every operation
the outcome (done / error kind / returned series identities), `n`, `register_keys`, the key sets of the three dictionaries
and the cache state (None vs object identity) of both databases are compared.  Iteration (`for ts in db`) has the registry
effect of `getm(None, store=True)`, which is what the model is asked; the implementation side really iterates.
Search: coherence clauses on the real objects after every operation (size, listing, iteration order, containment, bookkeeping);
a plain dictionary model of the DATA (key -> the file column / in-memory series it was registered from, carried along by rename /
clear / update / copy) against every series returned, iterated or cached; a second family of histories on one file of each of the
ten readable formats with multi-series requests (names, full keys, register indices) in an order different from the order on
file, through every container API, on fresh / partly cached databases.
Isolation: after every history of the first family all series objects held by the two databases are processed in place one by
one; a series keeps its data until its own turn and its processed data afterwards (a deep copy / deep update / read shares no
array with any other series; identity decides what "the same series" is, so shallow copies are one series).
Third family: sessions on one path whose file is written anew between loads (all ten formats, three databases).
Binding (stream `db.bind`): every history of both families is also run through the Lean content-binding model
`Qats.Binding.step` (theorems `binding_*`, `getm_returns_registered`, `rename_keeps_record` of Props/C08.lean), which predicts per
operation, for every returned series and for every key of both databases, the registered record (file, record number, name on
file | added series no.) and the root origin of the object (record number of an index-addressed file / data set name of a
name-addressed file / added series / resolved through deep copies).  The prediction is compared (i) with the harness's plain
dictionary model and (ii) with the implementation: the generated files carry unique values per record, so the data actually
returned / cached / read after the history identifies the record.
"""
import os
import re

import numpy as np

from .. import core
from ..dbutil import Files, digest, err_enum, hx, hxlist, renumber, unhx

RULE = ("seeded histories of 3-14 operations over a weighted alphabet favouring multi-step patterns (load twice, load of a list of 1-3 files: new / "
        "already loaded / repeated / no file, file names absolute / relative to the working directory / with redundant components, "
        "change of the working directory, single-series get / geta by unique / unknown / ambiguous name or by index, copy then inspect, update with a late clash, rename then read / then iterate, clear by pattern) on 7 generated files (.pkl x3, .ts, .csv, .tda, "
        ".dat; names with spaces, brackets, '/'-in-brackets, not in alphabetical order on file) and in-memory series; a names "
        "argument (getm / update / copy, and as a list also clear) is None, one pattern, a list of 1-3 patterns (equal, overlapping or disjoint), or 2-4 distinct exact names in random (mostly non-file) order; a third of the histories "
        "starts with one or two lazy loads; thorough adds all histories of length <= 3 over a fixed 23-letter alphabet; "
        "second family: per format (all ten) histories on one synthesised file of 3-5 series: load, multi-series "
        "getm/getd/getl/getda by shuffled names / full keys / index lists, get, copy and update into a fresh database, iterate, "
        "clear, rename (all formats, mostly of series not read yet; corner histories: rename then read, two series exchanging their "
        "names), store on/off; every history of both families is also run through the Lean "
        "binding model (db.bind: per operation the registered record and the root origin of every returned / cached series, and of "
        "every series read after the history); after every history of the first family every distinct series object the two "
        "databases hold (and series handed out by store-off retrievals) is processed in place, one after the other (array arithmetic, "
        "single samples, set_dtg_ref, modify): all others keep their data (deep copy / deep update / reads own their data; the second "
        "family does the same with the database a deep copy / update filled); third family: per format (all ten) sessions on ONE path "
        "that holds 3 successive versions of the file (other values / other names, number of series, length; the same version "
        "written again; an earlier version again) with 3 databases: load / fromfile / clear + load / rejected second load, lazy or "
        "read, retrievals store on/off, in-place processing of cached series: listing and data of every database describe the file "
        "as it was when loaded / read; non-trivial = history with at least one successful mutation and "
        "one rejected operation or cache interaction, or (second family) a multi-series request out of file order; distinct by history; "
        "eighth round (stream `big`, c08_big.py, oracles only): 4 (quick) / 24 (thorough) histories of 25-40 operations on a database "
        "loaded from a wide file (31 / 33 / 63 / 65 / 127 / 129 / 255 / 300 series; pkl ts csv dat tda mat) with a second database of "
        "40-140 series as update source: add (new / duplicate of a name registered now / the new name of a renamed series / a name "
        "freed by a rename), rename (ok / clash / unknown / ambiguous), clear (one / several keys), update (deep / shallow, 1-33 keys, "
        "late clash), copy, getm by names / index lists (store on / off), get by index -- aimed at the first / last position and "
        "positions 31-33, 63-65, 127-129, 255-257; after every operation coherence against a plain list model, rejected operations "
        "leave keys / objects / parents / indices unchanged, watched positions are retrievable by key and by index with the predicted "
        "name and data, caching clauses")

# (relative path, names in file order); the extension selects the format.  All are index-addressed formats (the registry model's
# `indices` register holds record numbers); the name-addressed ones are exercised in the second family, renames included.
FILES = [("d1/f1.pkl", ["a", "b", "c"]), ("d1/f2.pkl", ["a", "x y", "T [kN/m]"]), ("d2/f1.pkl", ["b", "c"]),
         ("d2/g1.ts", ["c", "m(1)", "a", "b"]), ("d1/h1.csv", ["b", "x y", "T [kN/m]", "a"]), ("d2/k1.tda", ["z^2", "b", "a"]),
         ("d1/l1.dat", ["c", "new", "a"])]
FILE_WEIGHTS = [4, 4, 4, 3, 2, 2, 2]
NSAMP = 4
NAMES = ["a", "b", "c", "x y", "T [kN/m]", "new", "m(1)", "z^2"]
PATS = ["a", "b", "*", "*a", "f1.pkl/*", "x y", "T [kN/m]", "nomatch", "*[kN/m]", "d1/*", "?"]
FLOAT32 = (".ts", ".tda", ".bin")

T_COHERENT = "size, listing, iteration and per-series bookkeeping describe one set of unique keys in registration order"
T_DATA = "every listed series is retrievable and holds the data a plain dictionary model predicts"
T_STORE_TRUE = "with caching enabled later retrievals return the very same object"
T_STORE_FALSE = "retrieval with caching disabled leaves no data behind"


def make_files(fl):
    """the files of FILES under fl.root; value of (file i, column j, sample s) = 100*(i+1) + 10*j + s (exact in 4-byte reals)"""
    from . import c01
    paths = []
    for i, (rel, names) in enumerate(FILES):
        stem, ext = os.path.splitext(rel)
        if ext == ".pkl":
            paths.append(fl.make(rel, names, n=NSAMP, seed=i))
        else:
            spec = dict(fmt=ext[1:], base=os.path.basename(stem), dir=os.path.dirname(rel), names=list(names),
                        time=[float(s) for s in range(NSAMP)],
                        cols=[[100.0 * (i + 1) + 10.0 * j + s for s in range(NSAMP)] for j in range(len(names))], own=None, tdms_wf={})
            paths.append(c01.write_file(fl.root, spec))
    return paths


def truth(prov):
    """(t, x) the plain dictionary model predicts for a series registered from file column (i, j) / added in memory"""
    if prov[0] == "file":
        t = np.arange(NSAMP, dtype=float)
        return t, 100.0 * (prov[1] + 1) + 10.0 * prov[2] + t
    t = np.arange(3.0)
    return t, t * 2 + 1000.0 * (prov[1] if len(prov) > 1 else 0)


def near(a, b, tol):
    a, b = np.asarray(a, dtype=float), np.asarray(b, dtype=float)
    return a.shape == b.shape and bool(np.all(np.abs(a - b) <= tol * np.maximum(1.0, np.abs(b))))


def same_data(ts, prov):
    t, x = truth(prov)
    tol = 1e-6 if prov[0] == "file" and os.path.splitext(FILES[prov[1]][0])[1] in FLOAT32 else 1e-12
    return near(ts.t, t, tol) and near(ts.x, x, tol)


def describe(prov):
    return "in-memory series no. %d (t=0..2, x=2t+1000*%d)" % ((prov[1] if len(prov) > 1 else 0,) * 2) if prov[0] != "file" else "column %d (%r) of %s: x=%s" % (
        prov[2], FILES[prov[1]][1][prov[2]], FILES[prov[1]][0], list(map(float, truth(prov)[1])))


# ----------------------------------------------------------------------------------------------------------
# content binding: canonical texts shared with Qats.Driver.Names (`db.bind`)
#   record  F:<hex file>:<record no.>:<hex name on file> | M:<n>        (n-th successfully added in-memory series)
#   origin  R:<hex file>:<record no.> | N:<hex file>:<hex name> | M:<n> ; "~" + origin = not cached, what a read will construct
# ----------------------------------------------------------------------------------------------------------
def prov_rec(prov, paths):
    if prov is None:
        return "?"
    if prov[0] == "file":
        return "F:%s:%d:%s" % (hx(paths[prov[1]]), prov[2] + 1, hx(FILES[prov[1]][1][prov[2]]))
    return "M:%d" % (prov[1] if len(prov) > 1 else 0)


def prov_origin(prov, paths):
    """all files of the first family are index-addressed"""
    if prov is None:
        return "?"
    return "R:%s:%d" % (hx(paths[prov[1]]), prov[2] + 1) if prov[0] == "file" else "M:%d" % (prov[1] if len(prov) > 1 else 0)


def identify(ts, paths):
    """which record do the DATA of this series come from (first family: value = 100*(file+1) + 10*column + sample; in-memory
    series no. n: 2t + 1000n); '?' if the data are no record at all"""
    try:
        x = np.asarray(ts.x, dtype=float)
        if x.size == 0:
            return "?"
        v = float(x[0])
        if x.size == 3:
            prov = ("mem", int(round(v / 1000.0)))
        else:
            i, j = int(v // 100) - 1, int((v % 100) // 10)
            if not (0 <= i < len(FILES) and 0 <= j < len(FILES[i][1])):
                return "?"
            prov = ("file", i, j)
        return prov_origin(prov, paths) if same_data(ts, prov) else "?"
    except Exception:
        return "?"


def parse_bind(reply):
    """reply of `db.bind` -> per operation dict(out = str | [(key, origin)], A = [(key, record, origin)], B = ...) (keys hex)"""
    if not reply or not reply.startswith("ok "):
        return None
    recs = []
    for part in reply[3:].split(" ; "):
        out, a, b = [z.strip() for z in part.split(" # ")]
        if out.startswith("series"):
            body = out[6:].strip()
            out = [] if body in ("=", "") else [tuple(kv.split("=", 1)) for kv in body.split(",")]
        dbs = []
        for d in (a, b):
            rows = []
            if d not in ("=", ""):
                for kv in d.split(","):
                    k, v = kv.split("=", 1)
                    rec, ori = v.split("|", 1)
                    rows.append((k, rec, ori))
            dbs.append(rows)
        recs.append(dict(out=out, A=dbs[0], B=dbs[1]))
    return recs


def diff_bind(L, I):
    """first difference between the Lean prediction L and the observation I of one operation:
    (stream, what, model, observed) or None.  Registered records and the origin a read WILL construct are the dictionary
    model's (stream db.bind:dict); returned and cached data are the implementation's (stream db.bind)."""
    if isinstance(L["out"], list) or isinstance(I["out"], list):
        if L["out"] != I["out"]:
            return ("db.bind", "returned series (key=origin of the data)", L["out"], I["out"])
    elif I["out"] is not None and L["out"] != I["out"]:
        return ("db.bind", "outcome", L["out"], I["out"])
    for w in ("A", "B"):
        if I.get(w) is None:
            continue
        if [r[0] for r in L[w]] != [r[0] for r in I[w]]:
            return ("db.bind", "keys of " + w, [unhx(r[0]) for r in L[w]], [unhx(r[0]) for r in I[w]])
        for (k, lrec, lori), (_, irec, iori) in zip(L[w], I[w]):
            if irec is not None and lrec != irec:
                return ("db.bind:dict", "registered record of %s in %s" % (unhx(k), w), lrec, irec)
            if lori.startswith("~") != iori.startswith("~"):
                return ("db.bind", "cache state of %s in %s" % (unhx(k), w), lori, iori)
            if lori != iori:
                return ("db.bind:dict" if lori.startswith("~") else "db.bind",
                        ("origin the next read of %s in %s constructs" if lori.startswith("~") else "origin of the data cached under %s in %s")
                        % (unhx(k), w), lori, iori)
    return None


def compare_bind(lean, impl, chk, inp, opmap=None):
    """Lean binding prediction (parsed `db.bind` reply) against the observation, operation by operation; at most one
    disagreement per stream and history.  `opmap[n]` = the Lean operations that model observed operation n (default: n).
    Returns the prediction after the last compared operation (for the reads that follow the history)."""
    chk.count("db.bind")
    if lean is None:
        chk.disagree("db.bind", inp, "a reply of the binding model", "no reply")
        return None
    seen = set()
    last = None
    for n, I in enumerate(impl):
        idx = opmap[n] if opmap is not None else [n]
        if not idx or idx[-1] >= len(lean):
            chk.disagree("db.bind", dict(inp, first_difference_at_op=n), "one reply per operation", "%d replies" % len(lean))
            return last
        L = lean[idx[-1]]
        if len(idx) > 1:            # one observed request modelled by several retrievals: their series in a row
            L = dict(L, out=[kv for i in idx for kv in (lean[i]["out"] if isinstance(lean[i]["out"], list) else [])])
        last = L
        chk.count("db.bind:op")
        # model independent: a rename or a clear never re-orders the series that stay registered under the same key (registration
        # order); evaluated for these two kinds of operation only, which work on the database object observed before them
        opn = (inp.get("ops") or [])[n][0] if n < len(inp.get("ops") or []) else ""
        if n > 0 and str(opn).startswith(("clear", "rename")) and "order" not in seen:
            for w in ("A", "B"):
                if I.get(w) is None or impl[n - 1].get(w) is None:
                    continue
                before, now = [r[0] for r in impl[n - 1][w]], [r[0] for r in I[w]]
                if len(set(before)) != len(before) or len(set(now)) != len(now):
                    continue            # duplicate keys: reported by the coherence clauses
                common = set(before) & set(now)
                ob, on = [k for k in before if k in common], [k for k in now if k in common]
                if ob != on:
                    seen.add("order")
                    chk.fail("the series that stay registered keep their relative (registration) order in the register, listing and "
                             "iteration when other series are cleared or renamed", dict(inp, first_difference_at_op=n, database=w),
                             [unhx(k) for k in ob], [unhx(k) for k in on])
        d = diff_bind(L, I)
        if d is not None and d[0] not in seen:
            seen.add(d[0])
            chk.disagree(d[0], dict(inp, first_difference_at_op=n, what=d[1]), d[2], d[3])
    return last


def gen_names(rng):
    """names argument of getm / update / copy: None, one pattern, a list of 1-3 patterns (drawn with replacement: equal,
    overlapping or disjoint), or several distinct exact names in random order"""
    r = rng.random()
    if r < 0.2:
        return None
    if r < 0.5:
        return rng.choice(PATS)
    if r < 0.7:
        return [rng.choice(PATS) for _ in range(rng.choice([1, 2, 2, 3]))]
    out = []
    for nm in rng.sample(["a", "b", "c", "a", "b", "c", "x y", "T [kN/m]", "new", "m(1)", "z^2"], rng.choice([2, 3, 4])):
        if nm not in out:
            out.append(nm)
    return out


def gen_history(rng, L=None):
    L = L or rng.randint(3, 14)
    ops = []
    if rng.random() < 0.33:
        for _ in range(rng.choice([1, 1, 2])):
            ops.append(("load", "A", rng.choices(range(len(FILES)), FILE_WEIGHTS)[0], False))
    while len(ops) < L:
        r = rng.random()
        w = "A" if rng.random() < 0.75 else "B"
        if r < 0.18:
            if rng.random() < 0.35:
                # a LIST of 1-3 files: new, already loaded, repeated (drawn with replacement), or no file at all (-1)
                fl = [(-1 if rng.random() < 0.12 else rng.choices(range(len(FILES)), FILE_WEIGHTS)[0]) for _ in range(rng.choice([1, 2, 2, 3]))]
                ops.append(("loadl", w, fl, rng.random() < 0.35, [rng.choice(SPELLINGS) for _ in fl]))
            else:
                fi = rng.choices(range(len(FILES)), FILE_WEIGHTS)[0]
                ops.append(("load", w, fi, rng.random() < 0.35, rng.choice(SPELLINGS)))
        elif r < 0.27:
            ops.append(("add", w, rng.choice(NAMES)))
        elif r < 0.39:
            ops.append(("rename", w, rng.choice(PATS[:8] + NAMES), rng.choice(NAMES)))
        elif r < 0.46:
            if rng.random() < 0.4:
                ops.append(("clearl", w, [rng.choice(PATS) for _ in range(rng.choice([1, 2, 2, 3]))]))
            else:
                ops.append(("clear", w, rng.choice([None] + PATS)))
        elif r < 0.57:
            ops.append(("update", gen_names(rng), rng.random() < 0.5))
        elif r < 0.66:
            ops.append(("copy", gen_names(rng), rng.random() < 0.5))
        elif r < 0.8:
            ops.append(("getm", w, gen_names(rng), rng.random() < 0.6))
        elif r < 0.86:
            # single-series retrieval by name: unique, unknown or ambiguous (several files hold a, b, c, x y, T [kN/m]); caching on / off
            ops.append(("get", w, rng.choice(PATS[:8] + NAMES), rng.random() < 0.6, rng.choice(["get", "geta"])))
        elif r < 0.92:
            ops.append(("geti", w, rng.randint(0, 5), rng.random() < 0.6, rng.choice(["getm", "get", "geta"])))
        elif r < 0.945:
            ops.append(("chdir", rng.randrange(3)))
        else:
            ops.append(("iter", w))
    return ops


def nameslist(x):
    """None | pattern | list of patterns -> the `names` argument as a list (or None)"""
    return None if x is None else (list(x) if isinstance(x, (list, tuple)) else [x])


# how a file name is given to load(): absolute, relative to the working directory, or with redundant `.` / `..` components;
# the database registers one spelling, the absolute normalised path
SPELLINGS = ["abs", "abs", "abs", "rel", "rel", "dotted"]


def spell(path, how):
    if how == "rel":
        return os.path.relpath(path)
    if how == "dotted":
        d = os.path.dirname(path)
        return os.path.join(d, "..", os.path.basename(d), ".", os.path.basename(path))
    return path


def workdirs(paths, home):
    """working directories of the `chdir` operation: the two data directories and the directory the check was started in"""
    root = os.path.dirname(os.path.dirname(paths[0]))
    return [os.path.join(root, "d1"), os.path.join(root, "d2"), home]


class keep_cwd:
    """histories may change the working directory: restore it"""

    def __enter__(self):
        self.home = os.getcwd()
        return self.home

    def __exit__(self, *a):
        os.chdir(self.home)


class _Arrays:
    """(t, x) as returned by geta, for the data oracles"""

    def __init__(self, t, x):
        self.t, self.x = t, x


def missing_file(paths):
    """a path that is no file (for `load` of a list)"""
    return os.path.join(os.path.dirname(paths[0]), "missing.pkl")


def encode(ops, paths, head="db.run"):
    toks = []
    for op in ops:
        k = op[0]
        if k == "load":
            fi = op[2]
            toks.append("load %s %s 1 %d %s" % (op[1], hx(paths[fi]), op[3], hxlist(FILES[fi][1])))
        elif k == "loadl":      # per file: path, is a file, registers record numbers, names
            toks.append("loadl %s %d %s" % (op[1], op[3], " | ".join(
                "%s 1 1 %s" % (hx(paths[fi]), hxlist(FILES[fi][1])) if fi >= 0 else "%s 0 1 =" % hx(missing_file(paths)) for fi in op[2])))
        elif k == "clearl":
            toks.append("clearl %s %s" % (op[1], hxlist(list(op[2]))))
        elif k == "add":
            toks.append("add %s %s" % (op[1], hx(op[2])))
        elif k == "rename":
            toks.append("rename %s %s %s" % (op[1], hx(op[2]), hx(op[3])))
        elif k == "clear":
            toks.append("clear %s %s" % (op[1], "none" if op[2] is None else hx(op[2])))
        elif k in ("update", "copy"):
            toks.append("%s %s %d" % (k, "none" if op[1] is None else hxlist(nameslist(op[1])), op[2]))
        elif k == "getm":
            toks.append("getm %s %s %d" % (op[1], "none" if op[2] is None else hxlist(nameslist(op[2])), op[3]))
        elif k == "geti":
            toks.append("geti %s %d %d" % (op[1], op[2], op[3]))
        elif k == "get":
            toks.append("get1 %s %s %d" % (op[1], hx(op[2]), op[3]))
        elif k == "chdir":
            toks.append("clearl A =")                        # no operation on the databases
        elif k == "iter":
            toks.append("getm %s none 1" % op[1])       # registry effect of `for ts in db` (each key: get(name=key), store on)
    return head + " " + " ; ".join(toks)


def coherent(db):
    ks = list(db.register_keys)
    probs = []
    if len(set(ks)) != len(ks):
        probs.append("duplicate keys in register_keys")
    for nm, d in (("register", db.register), ("register_parent", db.register_parent), ("register_indices", db.register_indices)):
        if set(d.keys()) != set(ks):
            probs.append("%s keys differ from register_keys" % nm)
    if db.n != len(ks) or len(db) != len(ks):
        probs.append("n/len != number of keys")
    if list(db.list(display=False)) != ks:
        probs.append("list() != register_keys")
    return probs


def iteration(db):
    """`for ts in db` against the listing: one series per key, in listing order, each the object now cached under its key"""
    ks = list(db.register_keys)
    items = list(db)
    probs = []
    if len(items) != len(ks):
        probs.append("iteration yields %d series, listing has %d keys" % (len(items), len(ks)))
    else:
        off = [i for i, (k, ts) in enumerate(zip(ks, items)) if db.register.get(k) is not ts]
        if off:
            where = []
            for i in off[:4]:
                at = [k for k in ks if db.register.get(k) is items[i]]
                where.append("position %d yields the series of %s, listing has %s there" % (
                    i, os.path.basename(at[0]) if at else "an unregistered object", os.path.basename(ks[i])))
            probs.append("iteration order differs from listing order: " + "; ".join(where))
    return ks, items, probs


def model_text(reply, ops):
    """`db.run` reply with the outcome of geta operations (arrays, no series object) written as the implementation side writes it"""
    if not reply or not reply.startswith("ok "):
        return reply
    recs = reply[3:].split(" ; ")
    for i, op in enumerate(ops):
        if i < len(recs) and op[0] in ("get", "geti") and len(op) > 4 and op[4] == "geta":
            recs[i] = re.sub(r"^series (\w+)=o\d+", r"arrays \1", recs[i])
    return "ok " + " ; ".join(recs)


def execute(ops, paths, chk=None, inp=None):
    from qats import TsDB, TimeSeries
    home = os.getcwd()
    A, B = TsDB(), TsDB()
    ids, keep, recs, brecs = {}, [], [], []
    exp = {"A": {}, "B": {}}           # plain dictionary model of the data: key -> provenance
    t = np.arange(3.0)
    reported = set()
    nadd = 0                           # in-memory series are numbered by successful add (their data carry the number)

    def check_data(w, key, ts, how, upto):
        prov = exp[w].get(key)
        if chk is None or prov is None or ts is None or "data" in reported:
            return
        chk.count("oracle:data")
        if not same_data(ts, prov):
            reported.add("data")
            chk.fail(T_DATA, dict(inp, upto=upto, db=w, key=key, how=how), describe(prov),
                     dict(t=list(map(float, ts.t)), x=list(map(float, ts.x))), clause="data")

    for op in ops:
        db = lambda w: A if w == "A" else B
        k = op[0]
        bout = None                    # binding: (key, record the returned DATA identify) of every series returned
        upto = len(recs) + 1
        before = {"A": list(A.register_keys), "B": list(B.register_keys)}
        # whatever is rejected must leave both databases as they were: registers, which keys are cached, the cached objects
        snaps = {"A": snapshot(A), "B": snapshot(B)} if chk is not None else None
        try:
            if k == "load":
                db(op[1]).load(spell(paths[op[2]], op[4] if len(op) > 4 else "abs"), read=op[3])
                out = "done"
                for j, nm in enumerate(FILES[op[2]][1]):
                    exp[op[1]][os.path.join(paths[op[2]], nm)] = ("file", op[2], j)
            elif k == "loadl":
                how = op[4] if len(op) > 4 else ["abs"] * len(op[2])
                db(op[1]).load([spell(paths[fi] if fi >= 0 else missing_file(paths), h) for fi, h in zip(op[2], how)], read=op[3])
                out = "done"
                for fi in op[2]:
                    for j, nm in enumerate(FILES[fi][1]):
                        exp[op[1]][os.path.join(paths[fi], nm)] = ("file", fi, j)
            elif k == "chdir":
                os.chdir(workdirs(paths, home)[op[1]])
                out = "done"
            elif k == "add":
                ts = TimeSeries(op[2], t.copy(), t * 2 + 1000.0 * nadd)      # arrays of its own (nothing shared through the caller)
                keep.append(ts)
                db(op[1]).add(ts)
                out = "done"
                new = [kk for kk in db(op[1]).register_keys if kk not in before[op[1]]]
                if len(new) == 1:
                    exp[op[1]][new[0]] = ("mem", nadd)
                nadd += 1
            elif k == "rename":
                db(op[1]).rename(op[2], op[3])
                out = "done"
                after = list(db(op[1]).register_keys)
                if len(after) == len(before[op[1]]):
                    for kb, ka in zip(before[op[1]], after):
                        if kb != ka and kb in exp[op[1]]:
                            exp[op[1]][ka] = exp[op[1]].pop(kb)
            elif k in ("clear", "clearl"):
                db(op[1]).clear(names=op[2] if k == "clear" else list(op[2]), display=False)
                out = "done"
                exp[op[1]] = {kk: v for kk, v in exp[op[1]].items() if kk in db(op[1]).register_keys}
            elif k == "update":
                A.update(B, names=nameslist(op[1]), shallow=not op[2])
                out = "done"
                for kk in A.register_keys:
                    if kk not in before["A"] and kk in exp["B"]:
                        exp["A"][kk] = exp["B"][kk]
            elif k == "copy":
                B = A.copy(names=nameslist(op[1]), shallow=not op[2])
                out = "done"
                exp["B"] = {kk: exp["A"][kk] for kk in B.register_keys if kk in exp["A"]}
            elif k == "getm":
                c = db(op[1]).getm(names=nameslist(op[2]), store=op[3], fullkey=True)
                keep.extend(c.values())
                if chk is not None and op[3]:
                    notsame = [kk for kk, v in c.items() if db(op[1]).register.get(kk) is not v]
                    if notsame:
                        chk.fail("with caching enabled later retrievals return the very same object (every series returned by a "
                                 "store-on retrieval is the cached one)", dict(inp, op=list(map(str, op))), "cached", notsame,
                                 clause="store-true")
                for kk, v in c.items():
                    check_data(op[1], kk, v, "returned by getm", upto)
                bout = [(hx(kk), identify(v, paths)) for kk, v in c.items()]
                out = "series " + ",".join("%s=o%d" % (hx(kk), ids.setdefault(id(v), len(ids))) for kk, v in c.items())
            elif k == "geti" and (len(op) < 5 or op[4] == "getm"):
                c = db(op[1]).getm(ind=op[2], store=op[3], fullkey=True)
                keep.extend(c.values())
                for kk, v in c.items():
                    check_data(op[1], kk, v, "returned by getm(ind)", upto)
                bout = [(hx(kk), identify(v, paths)) for kk, v in c.items()]
                out = "series " + ",".join("%s=o%d" % (hx(kk), ids.setdefault(id(v), len(ids))) for kk, v in c.items())
            elif k in ("get", "geti"):
                # single-series retrieval by name / register index through get() or geta(); the key it resolves to is taken from
                # the listing (by name) / the key list (by index) as they are before the call
                d, api = db(op[1]), op[4]
                kw = dict(name=op[2]) if k == "get" else dict(ind=op[2])
                if k == "get":
                    listed = d.list(names=op[2], display=False)
                    cand = [kk for kk in before[op[1]] if kk in listed]
                else:
                    cand = before[op[1]][op[2]:op[2] + 1] if op[2] >= 0 else []
                if api == "get":
                    v = d.get(store=op[3], **kw)
                    keep.append(v)
                else:
                    v = _Arrays(*d.geta(store=op[3], **kw))
                kk = cand[0] if len(cand) == 1 else "?"
                how = "returned by %s(%s=%r, store=%s)" % (api, "name" if k == "get" else "ind", op[2], op[3])
                if chk is not None and len(cand) != 1:
                    chk.fail("a single-series retrieval succeeds only for a name / index that selects exactly one listed series",
                             dict(inp, upto=upto, op=list(map(str, op))), "error", "%d candidates, returned data" % len(cand), clause="get-unique")
                if chk is not None and api == "get" and op[3] and d.register.get(kk) is not v:
                    chk.fail(T_STORE_TRUE + " (the series returned by a store-on retrieval is the cached one)",
                             dict(inp, upto=upto, op=list(map(str, op))), "cached", kk, clause="store-true")
                check_data(op[1], kk, v, how, upto)
                bout = [(hx(kk), identify(v, paths))]
                out = "series %s=o%d" % (hx(kk), ids.setdefault(id(v), len(ids))) if api == "get" else "arrays " + hx(kk)
            elif k == "iter":
                ks, items, probs = iteration(db(op[1]))
                keep.extend(items)
                if chk is not None:
                    chk.count("oracle:iteration")
                    if probs:
                        chk.fail(T_COHERENT, dict(inp, upto=upto, db=op[1]), "iteration = listing order", probs, clause="iteration")
                bout = [(hx(kk), identify(v, paths)) for kk, v in zip(ks, items)]
                out = "series " + ",".join("%s=o%d" % (hx(kk), ids.setdefault(id(v), len(ids))) for kk, v in zip(ks, items))
        except Exception as e:
            out = err_enum(e)
            for w, d in (("A", A), ("B", B)) if chk is not None else ():
                after = snapshot(d)
                # the one exception (theorem rejected_unchanged): a rejected update may have read and cached series of its source B
                part = slice(0, 4) if k == "update" and w == "B" else slice(None)
                if after[part] != snaps[w][part] and "rejected" not in reported:
                    reported.add("rejected")
                    chk.fail("a rejected operation leaves the database exactly as it was (registers, cached keys, cached objects)",
                             dict(inp, upto=upto, db=w, op=list(map(str, op)), error=out), str(snaps[w])[:300], str(after)[:300],
                             clause="rejected-unchanged")
        for w, d in (("A", A), ("B", B)):
            keep.extend(v for v in d.register.values() if v is not None)
            if chk is not None:
                pr = coherent(d)
                if pr:
                    chk.fail(T_COHERENT, dict(inp, upto=len(recs) + 1, db=w), "coherent", pr, clause="coherent")
                if set(d.register_keys) != set(exp[w]) and "keys" not in reported:
                    reported.add("keys")
                    chk.fail(T_COHERENT + " (the listing is what the dictionary model holds: one key per registered series, under the "
                             "absolute path of its file however the file was named)", dict(inp, upto=upto, db=w, op=list(map(str, op))),
                             sorted(exp[w]), list(d.register_keys), clause="keys")
                for kk, v in list(d.register.items()):
                    check_data(w, kk, v, "cached in the register", upto)
        recs.append("%s # %s # %s" % (out, digest(A, ids), digest(B, ids)))
        brecs.append(dict(out=bout if bout is not None else out, **{
            w: [(hx(kk), prov_rec(exp[w].get(kk), paths),
                 identify(d.register[kk], paths) if d.register.get(kk) is not None else "~" + prov_origin(exp[w].get(kk), paths))
                for kk in d.register_keys] for w, d in (("A", A), ("B", B))}))
    return "ok " + " ; ".join(recs), (A, B, keep, exp, brecs, paths)


def final_checks(state, chk, inp, bind_last=None):
    """on the databases a history ends with: every listed series is retrievable and holds the predicted data; caching
    semantics; iteration and containment agree with the listing; `bind_last` = the Lean binding model's prediction after the
    last operation: what is read under every key has the predicted origin"""
    A, B, keep, exp = state[:4]
    paths = state[5] if len(state) > 5 else None
    pred = {w: {unhx(k): ori for k, _, ori in bind_last[w]} for w in ("A", "B")} if bind_last else None
    for w, db in (("A", A), ("B", B)):
        ks = list(db.register_keys)
        for n, k in enumerate(ks):
            chk.count("retrieve")
            before = db.register.get(k)
            try:
                ts = db.get(name=k, store=False)
            except Exception as e:
                chk.fail("every listed series is retrievable by its key", dict(inp, db=w, key=k), "series", err_enum(e) + ": " + str(e)[:80],
                         clause="retrievable")
                continue
            if db.register.get(k) is not before:
                chk.fail(T_STORE_FALSE, dict(inp, db=w, key=k), str(before), str(db.register.get(k)), clause="store-false")
            prov = exp[w].get(k)
            if prov is not None and not same_data(ts, prov):
                chk.fail(T_DATA, dict(inp, db=w, key=k, how="get(name=key, store=False) after the history"), describe(prov),
                         dict(t=list(map(float, ts.t)), x=list(map(float, ts.x))), clause="data")
            if pred is not None and k in pred[w]:
                chk.count("db.bind:read")
                if identify(ts, paths) != pred[w][k].lstrip("~") and not pred.get("reported"):
                    pred["reported"] = True         # one per history
                    chk.disagree("db.bind", dict(inp, db=w, key=k, what="origin of the data read by get(name=key, store=False) after the history"),
                                 pred[w][k], identify(ts, paths))
            if n >= 4:
                continue
            if k not in db:
                chk.fail(T_COHERENT, dict(inp, db=w, key=k), "key in db", "not contained", clause="contains")
            ts1 = db.get(name=k, store=True)
            ts2 = db.get(name=k, store=True)
            if ts1 is not ts2 or db.register.get(k) is not ts1:
                chk.fail(T_STORE_TRUE, dict(inp, db=w, key=k), "same object", "different", clause="store-true")
        chk.count("oracle:iteration")
        try:
            _, items, probs = iteration(db)
        except Exception as e:
            items, probs = [], ["iteration raises " + err_enum(e) + ": " + str(e)[:80]]
        if probs:
            chk.fail(T_COHERENT, dict(inp, db=w, after="the whole history"), "iteration = listing order", probs, clause="iteration")
        for k, ts in zip(ks, items):
            prov = exp[w].get(k)
            if prov is not None and not same_data(ts, prov):
                chk.fail(T_DATA, dict(inp, db=w, key=k, how="iteration after the history"), describe(prov),
                         dict(t=list(map(float, ts.t)), x=list(map(float, ts.x))), clause="data")
                break
    # in-place processing of every series held (and of series handed out by store-off retrievals) leaves all others as they are
    isolation_checks([("A", A), ("B", B)], keep, chk, inp,
                     lambda w, k: describe(exp[w][k]) if exp[w].get(k) is not None else None, offset=len(A.register_keys))


# ----------------------------------------------------------------------------------------------------------
# in-place processing: a series belongs to the databases that hold that very object, and to nobody else
# ----------------------------------------------------------------------------------------------------------
T_ISOLATED = (T_DATA + " (also after OTHER series were processed in place: a deep copy / deep update / read from file gives a "
              "database data of its own; only a shallow copy / update shares the very same object)")
INPLACE = ["xscale", "tshift", "x0", "dtg2", "modify"]


def inplace(ts, kind):
    """what the owner of a series may do with it: process it in place (array arithmetic, single samples, the documented
    `set_dtg_ref` and `modify`); every kind changes at least one of the arrays the series holds at the time of the call"""
    from datetime import datetime
    if kind == "xscale":
        ts.x *= 2.0
    elif kind == "tshift":
        ts.t[:] = ts.t + 100.0
    elif kind == "x0":
        ts.x[0] = -999.0
        ts.t[-1] += 0.5
    elif kind == "dtg2":
        ts.set_dtg_ref(datetime(2020, 1, 1, 12, 0, 0))
        ts.set_dtg_ref(datetime(2020, 1, 1, 11, 0, 0))          # corrected by one hour: t += 3600
        ts.x += 1.0
    elif kind == "modify":
        ts.x *= -1.0
        ts.modify(twin=(float(ts.t[0]), float(ts.t[-1])))
        ts.x[-1] = 555.0
    else:
        raise ValueError(kind)


def holds(ts, snap):
    """the arrays of the series are exactly (bit for bit: nothing was computed) what they were when `snap` was taken"""
    return ts.t.shape == snap[0].shape and ts.x.shape == snap[1].shape and bool(np.array_equal(ts.t, snap[0])) and bool(np.array_equal(ts.x, snap[1]))


def isolation_checks(dbs, loose, chk, inp, describe_key=None, offset=0):
    """`dbs` = [(label, TsDB)]: every distinct series object the databases hold (and up to 6 series in `loose` that earlier
    retrievals handed out and no database holds) is processed in place, one after the other.  Clause: a series holds its data
    until it is processed itself (checked right before its turn), and holds its processed data afterwards (checked at the end).
    Objects are distinguished by identity, so a shallow copy (the same object under a key of both databases) is one series."""
    objs, seen = [], {}
    for w, db in dbs:
        for k in db.register_keys:
            v = db.register.get(k)
            if v is None:
                continue
            if id(v) in seen:
                seen[id(v)][1].append((w, k))
            else:
                seen[id(v)] = (v, [(w, k)])
                objs.append(seen[id(v)])
    if not objs:
        return
    free, fseen = [], set()
    for v in loose:
        if id(v) not in seen and id(v) not in fseen and hasattr(v, "modify"):
            fseen.add(id(v))
            free.append((v, []))
    order = free[-6:] + objs
    init = {id(o): (o.t.copy(), o.x.copy()) for o, _ in objs}
    post, done = {}, []

    def bad(o, where, snap, when):
        culprits = [dict(held_as=pw or "returned by an earlier retrieval, held by no database", processing=kd) for p, pw, kd in done
                    if p is not o and (np.shares_memory(p.t, o.t) or np.shares_memory(p.x, o.x) or np.shares_memory(p.t, o.x))]
        w, k = where[0]
        chk.fail(T_ISOLATED, dict(inp, inplace=dict(series=[list(x) for x in where], when=when,
                                                    processed_before=[[list(x) for x in pw] or "loose" for _, pw, _ in done])),
                 dict(t=list(map(float, snap[0])), x=list(map(float, snap[1])), what=describe_key(w, k) if describe_key else None),
                 dict(t=list(map(float, o.t)), x=list(map(float, o.x)), arrays_shared_with=culprits[:3]), clause="isolation")

    for n, (o, where) in enumerate(order):
        chk.count("oracle:isolation")
        if where and not holds(o, init[id(o)]):
            return bad(o, where, init[id(o)], "before the series itself was processed")
        kind = INPLACE[(n + offset) % len(INPLACE)]
        try:
            inplace(o, kind)
        except Exception:
            kind = "xscale"
            o.x *= 2.0
        done.append((o, where, kind))
        if where:
            post[id(o)] = (o.t.copy(), o.x.copy())
    for o, where in objs:
        if not holds(o, post[id(o)]):
            return bad(o, where, post[id(o)], "after all series were processed (this one: %s)" % next(kd for p, _, kd in done if p is o))


def snapshot(db):
    return (list(db.register_keys), sorted(db.register.keys()), sorted((k, str(v)) for k, v in db.register_parent.items()),
            sorted((k, str(v)) for k, v in db.register_indices.items()),
            sorted((k, id(v), None if v is None else (v.name, v.parent, v.x.tobytes())) for k, v in db.register.items()))


# ----------------------------------------------------------------------------------------------------------
# second family: one file of every readable format, multi-series requests in non-file order
# ----------------------------------------------------------------------------------------------------------
NAME_ADDRESSED = ("h5", "mat", "tdms")
APIS = ["getm", "getm", "getd", "getl", "getda"]


def gen_fmt_history(rng, spec):
    """ops are JSON lists; names are the series names currently registered (the generator follows clear / rename)"""
    names = list(spec["names"])
    fresh = ["r1", "r2", "r3"]
    ops = [["load", rng.random() < 0.15]]
    for _ in range(rng.randint(2, 6)):
        k = len(names)
        if k == 0:
            break
        r = rng.random()
        store = rng.random() < 0.6
        if r < 0.5:
            m = rng.randint(min(2, k), k)
            how = rng.choice(["names", "keys", "ind"])
            sel = rng.sample(range(k), m)
            if rng.random() < 0.3:
                sel = sorted(sel, reverse=True)
            ops.append(["get", rng.choice(APIS), how, sel if how == "ind" else [names[i] for i in sel], store])
        elif r < 0.58:
            ops.append(["get1", rng.choice(names), store])
        elif r < 0.7:
            sel = None if rng.random() < 0.3 else rng.sample(names, rng.randint(1, k))
            ops.append(["copy", sel, rng.random() < 0.5])
        elif r < 0.78:
            sel = None if rng.random() < 0.3 else rng.sample(names, rng.randint(1, k))
            ops.append(["update", sel, rng.random() < 0.5])
        elif r < 0.86:
            ops.append(["iter"])
        elif r < 0.91 or not fresh:
            nm = rng.choice(names)
            names.remove(nm)
            ops.append(["clear", nm])
        else:
            i = rng.randrange(k)
            new = fresh.pop(0)
            ops.append(["rename", names[i], new])
            names[i] = new
    return ops


def out_of_file_order(spec, ops):
    names = list(spec["names"])
    for op in ops:
        if op[0] == "clear":
            names.remove(op[1])
        elif op[0] == "rename":
            names[names.index(op[1])] = op[2]
        elif op[0] == "get" and len(op[3]) > 1:
            pos = list(op[3]) if op[2] == "ind" else [names.index(nm) for nm in op[3]]
            if pos != sorted(pos):
                return True
    return False


def fmt_origin(spec, path, j):
    """origin text of record j of the second family's file: by name for .h5 .mat .tdms, by record number otherwise"""
    if j is None:
        return "?"
    return "N:%s:%s" % (hx(path), hx(spec["names"][j])) if spec["fmt"] in NAME_ADDRESSED else "R:%s:%d" % (hx(path), j + 1)


def fmt_identify(spec, path, t, x):
    """which record of the file do these DATA come from (value = 1000*(file+1) + 10*(record+1) + sample/4, own time array per
    record where the format has one); '?' if none"""
    from . import c01
    try:
        x = np.asarray(x, dtype=float)
        if x.size == 0:
            return "?"
        j = int((float(x[0]) % 1000) // 10) - 1
        if not 0 <= j < len(spec["names"]):
            return "?"
        _, wt, wx = c01.stored(spec, j)
        if spec["fmt"] == "asc":
            wt, wx = wt[1:], wx[1:]          # known finding F15 (C01)
        tol = c01.tol_of(spec["fmt"])
        return fmt_origin(spec, path, j) if near(t, wt, tol) and near(x, wx, tol) else "?"
    except Exception:
        return "?"


def fmt_encode(spec, path, ops):
    """a history of the second family as operations of the Lean model (database A; the fresh database that `copy` / `update`
    fill is the model's B: `TsDB().update(db, …)` registers what `db.copy(…)` registers); a request by index list is modelled by
    one retrieval per index.  Returns the `db.bind` line and, per observed operation, the model operations that stand for it."""
    sep = os.path.sep
    toks, opmap = [], []
    for op in ops:
        kind, first = op[0], len(toks)
        if kind == "load":
            toks.append("load A %s %d %d %s" % (hx(path), spec["fmt"] not in ("h5", "mat"), op[1], hxlist(spec["names"])))
        elif kind == "get":
            how, sel, store = op[2], op[3], op[4]
            if how == "ind":
                toks += ["geti A %d %d" % (i, store) for i in sel]
            else:
                toks.append("getm A %s %d" % (hxlist([path + sep + nm for nm in sel] if how == "keys" else list(sel)), store))
        elif kind == "get1":
            toks.append("getm A %s %d" % (hx(op[1]), op[2]))
        elif kind in ("copy", "update"):
            toks.append("copy %s %d" % ("none" if op[1] is None else hxlist(op[1]), op[2]))
        elif kind == "iter":
            toks.append("getm A none 1")
        elif kind == "clear":
            toks.append("clear A %s" % hx(op[1]))
        elif kind == "rename":
            toks.append("rename A %s %s" % (hx(op[1]), hx(op[2])))
        opmap.append(list(range(first, len(toks))))
    return "db.bind " + " ; ".join(toks), opmap


def fmt_execute(spec, path, ops, chk, inp, bind=None):
    from qats import TsDB
    from . import c01
    fmt = spec["fmt"]
    tol = c01.tol_of(fmt)
    sep = os.path.sep
    cur = {}                     # plain dictionary model: registered name -> (t, x)
    rec = {}                     # … and registered name -> record of the file (position j)
    for j in range(len(spec["names"])):
        nm, t, x = c01.stored(spec, j)
        if fmt == "asc":
            t, x = t[1:], x[1:]  # known finding F15 (C01): every .asc read lacks the first sample; compared modulo that shift
        cur[nm] = (list(t), list(x))
        rec[nm] = j

    def observe(d, with_rec):
        """binding observation of a database: per key the dictionary model's record and the record the cached data identify"""
        rows = []
        for k in d.register_keys:
            j = rec.get(k[len(path) + 1:])
            v = d.register.get(k)
            rows.append((hx(k), ("?" if j is None else "F:%s:%d:%s" % (hx(path), j + 1, hx(spec["names"][j]))) if with_rec else None,
                         fmt_identify(spec, path, v.t, v.x) if v is not None else "~" + fmt_origin(spec, path, j)))
        return rows
    db = TsDB()
    reported = set()
    obs = []                     # binding observations, one per executed operation (bind = (parsed `db.bind` reply, opmap))

    def bad(text, n, expected, observed, clause, **kw):
        if clause in reported:
            return
        reported.add(clause)
        chk.fail(text, dict(inp, upto=n + 1, **kw), expected, observed, clause=clause, fmt=fmt)

    def check(n, name, t, x, key, how):
        chk.count("oracle:data")
        if key is not None and name is not None and key != path + sep + name:
            bad(T_DATA + " (the series under a key carries the name it is registered under)", n, key, name, "fmt-name", how=how)
        if name is None:
            name = key[len(path) + 1:]
        if name not in cur:
            bad(T_DATA + " (a returned series is one of the listed ones)", n, sorted(cur), name, "fmt-name", how=how)
            return
        wt, wx = cur[name]
        if not (near(t, wt, tol) and near(x, wx, tol)):
            bad(T_DATA, n, dict(name=name, t=wt, x=wx), dict(t=list(map(float, t)), x=list(map(float, x))), "fmt-data", how=how, key=key)

    def check_db(n, d, how):
        pr = coherent(d)
        if pr:
            bad(T_COHERENT, n, "coherent", pr, "coherent", how=how)
        for k, v in list(d.register.items()):
            if v is not None:
                check(n, v.name, v.t, v.x, k, how)

    for n, op in enumerate(ops):
        kind = op[0]
        cached = set(k for k, v in db.register.items() if v is not None)
        got, store = [], None       # (key | None, series)
        bout, bnew = None, None     # binding observation: returned (key, record of the data); the database copy / update filled
        try:
            if kind == "load":
                db.load(path, read=op[1])
            elif kind == "get":
                api, how, sel, store = op[1], op[2], op[3], op[4]
                if how == "ind":
                    kw = dict(ind=list(sel))
                elif how == "keys":
                    kw = dict(names=[path + sep + nm for nm in sel])
                else:
                    kw = dict(names=list(sel))
                label = "%s(%s=%s, store=%s)" % (api, "ind" if how == "ind" else "names", sel, store)
                if api in ("getm", "getd"):
                    c = getattr(db, api)(store=store, fullkey=True, **kw)
                    got = list(c.items())
                elif api == "getl":
                    got = [(None, ts) for ts in db.getl(store=store, **kw)]
                else:
                    bout = []
                    for k, (t, x) in db.getda(store=store, fullkey=True, **kw).items():
                        check(n, None, t, x, k, label)
                        bout.append((hx(k), fmt_identify(spec, path, t, x)))
                for k, ts in got:
                    check(n, ts.name, ts.t, ts.x, k, label)
            elif kind == "get1":
                store = op[2]
                ts = db.get(name=op[1], store=store)
                got = [(None, ts)]
                check(n, ts.name, ts.t, ts.x, None, "get(name=%r, store=%s)" % (op[1], store))
                if ts.name != op[1]:
                    bad(T_DATA + " (get by exact name returns the series of that name)", n, op[1], ts.name, "fmt-name")
            elif kind in ("copy", "update"):
                if kind == "copy":
                    new = db.copy(names=op[1], shallow=not op[2])
                else:
                    new = TsDB()
                    new.update(db, names=op[1], shallow=not op[2])
                check_db(n, new, "%s(names=%s, shallow=%s): the new database" % (kind, op[1], not op[2]))
                bnew = observe(new, False)
                if any(v is None for v in new.register.values()):
                    bad(T_DATA, n, "series", "None in the register of the new database", "fmt-data")
                elif op[2]:
                    # deep: the new database owns its series; processing them in place is nothing the source database sees
                    for i, v in enumerate(new.register.values()):
                        try:
                            inplace(v, INPLACE[(n + i) % len(INPLACE)])
                        except Exception:
                            v.x *= 2.0
                    check_db(n, db, "cached in the source database after the series of its deep %s (names=%s) were processed in place" % (kind, op[1]))
            elif kind == "iter":
                ks, items, probs = iteration(db)
                chk.count("oracle:iteration")
                if probs:
                    bad(T_COHERENT, n, "iteration = listing order", probs, "iteration")
                for k, ts in zip(ks, items):
                    check(n, ts.name, ts.t, ts.x, k, "iteration")
                bout = [(hx(k), fmt_identify(spec, path, ts.t, ts.x)) for k, ts in zip(ks, items)]
            elif kind == "clear":
                db.clear(names=op[1], display=False)
                cur.pop(op[1], None)
                rec.pop(op[1], None)
            elif kind == "rename":
                db.rename(op[1], op[2])
                cur[op[2]] = cur.pop(op[1])
                rec[op[2]] = rec.pop(op[1])
        except Exception as e:
            if kind in ("get", "get1", "iter", "copy", "update"):
                bad("every listed series is retrievable", n, "series", err_enum(e) + ": " + str(e)[:100], "retrievable")
            else:
                chk.dist("fmt-history stopped at a refused %s" % kind)
            return
        now = set(k for k, v in db.register.items() if v is not None)
        if store is False and now != cached:
            bad(T_STORE_FALSE, n, sorted(cached), sorted(now), "store-false")
        if store is True:
            for k, ts in got:
                kk = k if k is not None else path + sep + ts.name
                if db.register.get(kk) is not ts:
                    bad(T_STORE_TRUE + " (a series returned by a store-on retrieval is the cached one)", n, "cached", kk, "store-true")
        if sorted(db.register_keys) != sorted(path + sep + nm for nm in cur):
            bad(T_COHERENT + " (the listing is what the dictionary model holds)", n, sorted(cur), list(db.register_keys), "fmt-keys")
        check_db(n, db, "cached in the register")
        if bind is not None:
            if bout is None and kind in ("get", "get1"):
                bout = [(hx(k if k is not None else path + sep + ts.name), fmt_identify(spec, path, ts.t, ts.x)) for k, ts in got]
            obs.append(dict(out=bout, A=observe(db, True), B=bnew))
    pred = None
    if bind is not None:            # the whole history was executed: compare with the Lean binding model's prediction
        pred = compare_bind(bind[0], obs, chk, inp, bind[1])
        pred = {unhx(k): ori for k, _, ori in pred["A"]} if pred else None
    for k in list(db.register_keys):
        try:
            ts = db.get(name=k, store=False)
        except Exception as e:
            bad("every listed series is retrievable", len(ops) - 1, "series", err_enum(e) + ": " + str(e)[:100], "retrievable", key=k)
            continue
        check(len(ops) - 1, ts.name, ts.t, ts.x, k, "get(name=key, store=False) after the history")
        if pred is not None and k in pred:
            chk.count("db.bind:read")
            if fmt_identify(spec, path, ts.t, ts.x) != pred[k].lstrip("~") and "read" not in reported:
                reported.add("read")
                chk.disagree("db.bind", dict(kind="fmt", spec=spec, ops=ops, key=k,
                                             what="origin of the data read by get(name=key, store=False) after the history"),
                             pred[k], fmt_identify(spec, path, ts.t, ts.x))


# ----------------------------------------------------------------------------------------------------------
# third family: one path, several successive versions of the file, several databases in one session
# ----------------------------------------------------------------------------------------------------------
T_NOW = ("the listing, size and data of a database describe the file as it was when it was loaded / read (a file written anew at "
         "the same path is a new file: nothing of an earlier load or of another database is left behind)")
NDB = 3


def gen_rewrite_history(rng, fmt, fi):
    """-> (versions, ops): 3 contents for ONE path (other values / other names, number of series and length) and a session:
    ["write", v] puts version v on the path (also the version that is there already, also an earlier one again);
    ["load", d, read] / ["fromfile", d, read] / ["clear", d] / ["get", d, api, store, reverse] / ["touch", d] act on database d."""
    from . import c01
    v0 = c01.gen_spec(rng, fi, fmt, k=rng.choice([2, 3, 4]), n=rng.randint(3, 5))
    modes = rng.choice([["values", "new"], ["new", "values"], ["new", "new"]])
    v1 = c01.rewritten(rng, v0, fi + 1, modes[0])
    v2 = c01.rewritten(rng, v1, fi + 2, modes[1])
    ops = []
    for v in [0, 1, rng.choice([0, 1, 2]), 2][:rng.choice([3, 4, 4])]:
        ops.append(["write", v])
        loaded = False
        for _ in range(rng.randint(2, 4)):
            d = rng.randrange(NDB)
            r = rng.random()
            if r < 0.3 or not loaded:
                how = rng.random()
                if how < 0.4:
                    ops.append(["fromfile", d, rng.random() < 0.3])
                elif how < 0.8:
                    ops += [["clear", d], ["load", d, rng.random() < 0.3]]
                else:
                    ops.append(["load", d, rng.random() < 0.3])     # rejected if the database holds a key of this file already
                loaded = True
            elif r < 0.75:
                ops.append(["get", d, rng.choice(["getm", "getd", "iter", "get1"]), rng.random() < 0.6, rng.random() < 0.5])
            else:
                ops.append(["touch", d])
        ops.append(["get", rng.randrange(NDB), "getm", rng.random() < 0.5, False])
    return [v0, v1, v2], ops


def rewrite_execute(versions, ops, root, chk, inp):
    """dictionary model per database: key -> [version registered from, data held (None = not read yet)]"""
    from qats import TsDB
    from . import c01
    fmt = versions[0]["fmt"]
    tol = c01.tol_of(fmt)
    sep = os.path.sep
    path = c01.file_path(root, versions[0])
    dbs = [TsDB() for _ in range(NDB)]
    model = [dict() for _ in range(NDB)]
    cur = None                      # version on the path now
    reported = set()

    def bad(text, n, expected, observed, clause, **kw):
        if clause in reported:
            return
        reported.add(clause)
        chk.fail(text, dict(inp, upto=n + 1, op=ops[min(n, len(ops) - 1)], **kw), expected, observed, clause=clause, fmt=fmt)

    def on_file(v, name):
        sp = versions[v]
        _, t, x = c01.stored(sp, sp["names"].index(name))
        if fmt == "asc":
            t, x = t[1:], x[1:]     # known finding F15 (C01)
        return np.array(t, dtype=float), np.array(x, dtype=float)

    def readable(d):
        """keys whose content the model knows: read already, or registered from the version that is on the path now"""
        return [k for k in dbs[d].register_keys if k in model[d] and (model[d][k][1] is not None or model[d][k][0] == cur)]

    def expected(d, k):
        v, held = model[d][k]
        return held if held is not None else on_file(v, k[len(path) + 1:])

    def check_series(n, d, k, t, x, how):
        chk.count("oracle:data")
        wt, wx = expected(d, k)
        if not (near(t, wt, tol) and near(x, wx, tol)):
            bad(T_DATA + "; " + T_NOW, n, dict(version=model[d][k][0], t=list(map(float, wt)), x=list(map(float, wx))),
                dict(t=list(map(float, t)), x=list(map(float, x))), "rw-data", db=d, key=k[len(path) + 1:], how=how)

    def check_all(n, how):
        for d, db in enumerate(dbs):
            pr = coherent(db)
            if pr:
                bad(T_COHERENT, n, "coherent", pr, "coherent", db=d)
            if sorted(db.register_keys) != sorted(model[d]):
                bad(T_COHERENT + "; " + T_NOW, n, sorted(k[len(path) + 1:] for k in model[d]),
                    [k[len(path) + 1:] for k in db.register_keys], "rw-keys", db=d, how=how)
                continue
            for k, v in list(db.register.items()):
                if v is None:
                    continue
                if model[d][k][1] is None:
                    bad(T_STORE_FALSE, n, "not cached", k[len(path) + 1:], "store-false", db=d)
                else:
                    check_series(n, d, k, v.t, v.x, "cached in database %d (%s)" % (d, how))

    for n, op in enumerate(ops):
        kind = op[0]
        if kind == "write":
            assert c01.file_path(root, versions[op[1]]) == path
            c01.write_file(root, versions[op[1]])
            cur = op[1]
            continue
        d = op[1]
        db = dbs[d]
        if kind in ("load", "fromfile"):
            keys = [path + sep + nm for nm in versions[cur]["names"]]
            clash = kind == "load" and any(k in model[d] for k in keys)
            snap = snapshot(db)
            try:
                if kind == "load":
                    db.load(path, read=op[2])
                else:
                    db = dbs[d] = TsDB.fromfile(path, read=op[2])
                    model[d] = dict()
            except Exception as e:
                if not clash:
                    bad("a file is rejected only for a key the database holds already; " + T_NOW, n, "loaded: " + str(versions[cur]["names"]),
                        err_enum(e) + ": " + str(e)[:100], "rw-load", db=d, holds=[k[len(path) + 1:] for k in model[d]])
                elif snapshot(db) != snap:
                    bad("a rejected operation leaves the database exactly as it was", n, str(snap)[:300], str(snapshot(db))[:300],
                        "rejected-unchanged", db=d)
                chk.dist("rw:load rejected")
            else:
                if clash:
                    bad("a file with a key the database holds already is rejected", n, "err key", "done", "rw-load", db=d)
                for k in keys:
                    model[d][k] = [cur, on_file(cur, k[len(path) + 1:]) if op[2] else None]
        elif kind == "clear":
            db.clear(display=False)
            model[d] = dict()
        elif kind == "get":
            api, store, rev = op[2], op[3], op[4]
            ks = readable(d)
            if not ks or (api == "iter" and len(ks) != len(db.register_keys)):
                continue
            if rev:
                ks = ks[::-1]
            cached = set(k for k, v in db.register.items() if v is not None)
            try:
                if api == "iter":
                    store = True
                    _, items, probs = iteration(db)
                    if probs:
                        bad(T_COHERENT, n, "iteration = listing order", probs, "iteration", db=d)
                    got = list(zip(db.register_keys, items))
                elif api == "get1":
                    ks = ks[:1]
                    got = [(ks[0], db.get(name=ks[0], store=store))]
                else:
                    got = list(getattr(db, api)(names=list(ks), store=store, fullkey=True).items())
            except Exception as e:
                bad("every listed series is retrievable; " + T_NOW, n, "series", err_enum(e) + ": " + str(e)[:100], "retrievable", db=d,
                    keys=[k[len(path) + 1:] for k in ks])
                continue
            if sorted(k for k, _ in got) != sorted(ks):
                bad(T_DATA + " (a request by keys returns these keys)", n, [k[len(path) + 1:] for k in ks], [str(k)[len(path) + 1:] for k, _ in got],
                    "rw-keys", db=d)
                continue
            for k, ts in got:
                check_series(n, d, k, ts.t, ts.x, "%s(store=%s) on database %d" % (api, store, d))
                if store:
                    if db.register.get(k) is not ts:
                        bad(T_STORE_TRUE + " (a series returned by a store-on retrieval is the cached one)", n, "cached", k, "store-true", db=d)
                    if model[d][k][1] is None:
                        model[d][k][1] = on_file(cur, k[len(path) + 1:])
            if not store and set(k for k, v in db.register.items() if v is not None) != cached:
                bad(T_STORE_FALSE, n, sorted(cached), sorted(k for k, v in db.register.items() if v is not None), "store-false", db=d)
        elif kind == "touch":
            # the owner processes the series its database holds, in place; the model holds the processed data
            for i, k in enumerate(list(db.register_keys)):
                v = db.register.get(k)
                if v is None or k not in model[d] or model[d][k][1] is None:
                    continue
                try:
                    inplace(v, INPLACE[(n + i) % len(INPLACE)])
                except Exception:
                    v.x *= 2.0
                model[d][k][1] = (v.t.copy(), v.x.copy())
        check_all(n, "after operation %d: %s" % (n + 1, op))
    # after the session: every series whose content the model knows is retrievable and holds it
    for d, db in enumerate(dbs):
        for k in readable(d):
            chk.count("retrieve")
            try:
                ts = db.get(name=k, store=False)
            except Exception as e:
                bad("every listed series is retrievable; " + T_NOW, len(ops) - 1, "series", err_enum(e) + ": " + str(e)[:100], "retrievable", db=d,
                    key=k[len(path) + 1:])
                continue
            check_series(len(ops) - 1, d, k, ts.t, ts.x, "get(name=key, store=False) on database %d after the session" % d)


def rename_unread(spec, path, chk):
    """rename a series that was not read yet, then read every listed series: each is retrievable and holds the data of the record
    its key was registered for (the former finding F17: name-addressed formats looked the renamed series up under its new name)"""
    from qats import TsDB
    from . import c01
    db = TsDB.fromfile(path)
    keys0 = list(db.register_keys)
    old = keys0[0]
    db.rename(old, "renamed_series")
    chk.count("rename-then-read")
    tol = c01.tol_of(spec["fmt"])
    for j, k in enumerate(list(db.register_keys)):
        inp = dict(kind="rename-unread", spec=spec, format=spec["fmt"], renamed=old, key=k)
        try:
            ts = db.get(name=k, store=False)
        except Exception as e:
            chk.fail("every listed series is retrievable (after rename of a not-yet-read series)", inp, "series",
                     err_enum(e) + ": " + str(e)[:80], clause="retrievable", fmt=spec["fmt"])
            continue
        nm, wt, wx = c01.stored(spec, j)
        if spec["fmt"] == "asc":
            wt, wx = wt[1:], wx[1:]          # known finding F15 (C01)
        want = "renamed_series" if j == 0 else nm
        if ts.name != want or not (near(ts.t, wt, tol) and near(ts.x, wx, tol)):
            chk.fail(T_DATA + " (after rename of a not-yet-read series)", inp, dict(name=want, t=list(wt), x=list(wx)),
                     dict(name=ts.name, t=list(map(float, ts.t)), x=list(map(float, ts.x))), clause="data", fmt=spec["fmt"])


def run(chk):
    import itertools
    chk.extra["rule"] = RULE
    from .c08_strict import run_strict
    run_strict(chk)             # histories with warnings raised as errors and numpy raising on floating-point errors
    chk.assumptions += ["series objects are abstract identities in the registry model; the Lean binding model (Qats.Binding) follows "
                        "where the content of every object comes from (record number / data set name / added series / deep copy) and "
                        "which record every key is registered for; its prediction is compared per operation with a plain dictionary "
                        "model in the harness (key -> generated file column / in-memory series) and with the implementation (the "
                        "generated data identify the record)",
                        "second family, binding model: `TsDB().update(db, …)` is modelled by `db.copy(…)` (same registrations), a request "
                        "by index list by one retrieval per index",
                        "a key selected by more than one pattern of a names list is read once per occurrence by `_read`; only the last "
                        "series constructed is returned / cached, which is what the model's de-duplicated selection yields (object "
                        "identities are compared after renumbering by first appearance)",
                        "requests with lists are modelled in the driver as sequences of the model's operations: load([f1, f2, …]) = "
                        "all checks in list order (no file: FileExistsError; a key registered or the file earlier in the list: KeyError), "
                        "then the single-file loads; clear([p1, p2, …]) = the clears, key by key, of the de-duplicated listing computed "
                        "on the database as it is",
                        "`for ts in db` is modelled by its registry effect, getm(names=None, store=True)"]
    chk.partial += [".asc files of the second family are compared modulo the known finding F15 of C01 (first sample missing)"]
    rng = chk.rng
    drv = core.Driver()
    fl = Files()
    try:
        paths = make_files(fl)
        hist = [[tuple(o) for o in c["ops"]] for c in core.load_corpus("C08") if c.get("kind", "history") == "history"]
        # requests with lists: a new file before an already loaded one / twice in the list / before a path that is no file (all
        # rejected, nothing registered), accepted lists; clear and retrieval by overlapping patterns
        hist += [[("load", "A", 0, False), ("loadl", "A", [1, 0], False), ("getm", "A", None, False)],
                 [("loadl", "A", [1, 1], True), ("iter", "A")], [("loadl", "B", [2, -1], False), ("loadl", "B", [2, 3], True), ("iter", "B")],
                 [("loadl", "A", [0, 1], False), ("clearl", "A", ["*a", "f1.pkl/*"]), ("iter", "A")],
                 [("load", "A", 3, False), ("getm", "A", ["*", "a", "?"], True), ("clearl", "A", ["a", "*a", "a"]), ("getm", "A", ["*", "*"], False)]]
        # file names in other spellings (relative to the working directory, as a list, with redundant components), the same file
        # through two spellings, reading after a change of the working directory; single-series retrieval by an ambiguous /
        # unknown / unique name and by index through get() and geta(), caching on and off
        hist += [[("loadl", "A", [0], False, ["rel"]), ("load", "A", 0, False, "abs"), ("chdir", 0), ("getm", "A", None, False)],
                 [("load", "A", 3, False, "rel"), ("chdir", 1), ("loadl", "A", [3, 1], False, ["dotted", "rel"]), ("loadl", "B", [1, 4], True, ["rel", "dotted"]),
                  ("chdir", 2), ("iter", "A")],
                 [("load", "A", 0, False, "abs"), ("load", "A", 1, False, "rel"), ("get", "A", "a", True, "get"), ("get", "A", "a", True, "geta"),
                  ("get", "A", "nomatch", True, "get"), ("get", "A", "x y", True, "geta"), ("get", "A", "*", False, "get"), ("geti", "A", 9, True, "get"),
                  ("geti", "A", 1, True, "geta"), ("get", "A", "c", False, "get")]]
        hist += [gen_history(rng) for _ in range(250 if chk.quick else 4000)]
        if not chk.quick:
            alpha = [("load", "A", 0, False), ("load", "A", 0, True), ("load", "A", 1, False), ("load", "B", 0, False), ("add", "A", "a"),
                     ("add", "A", "T [kN/m]"), ("rename", "A", "a", "b"), ("rename", "A", "a", "new"), ("clear", "A", "a"), ("clear", "A", None),
                     ("update", None, True), ("update", "a", False), ("copy", None, True), ("copy", "b", False),
                     ("getm", "A", None, True), ("getm", "A", "a", False), ("getm", "A", ["c", "a"], False), ("iter", "A"),
                     ("loadl", "A", [1, 0], False), ("loadl", "A", [2, -1], True), ("clearl", "A", ["*a", "f1.pkl/*"]),
                     ("loadl", "A", [0], False, ["rel"]), ("get", "A", "a", True, "get")]
            for L in (1, 2, 3):
                hist += [list(h) for h in itertools.product(alpha, repeat=L)]
        lines = [encode(h, paths) for h in hist]
        outs = drv.run(lines + [encode(h, paths, "db.bind") for h in hist])
        outs, bouts = outs[:len(hist)], outs[len(hist):]
        files = {rel: names for rel, names in FILES}
        for h, o, bo in zip(hist, outs, bouts):
            inp = dict(ops=[list(op) for op in h], files=files)
            chk.count("db.run")
            with keep_cwd():
                im, state = execute(h, paths, chk, inp)
                bind_last = compare_bind(parse_bind(bo), state[4], chk, inp)
                # every listed series is retrievable and holds the predicted data; caching semantics; iteration
                final_checks(state, chk, inp, bind_last)
            a, b = renumber(model_text(o, h)), renumber(im)
            if a != b:
                ao, bo = a.split(" ; "), b.split(" ; ")
                i = next((i for i, (x, y) in enumerate(zip(ao, bo)) if x != y), min(len(ao), len(bo)))
                chk.disagree("db.run", dict(inp, first_difference_at_op=i), ao[i] if i < len(ao) else None, bo[i] if i < len(bo) else None)
            if "err" in im and ("done" in im):
                chk.nontriv(repr(h))
            chk.dist("len=%d" % min(len(h), 15))
            for op in h:
                chk.dist("op:" + op[0])
                if op[0] in ("getm", "update", "copy"):
                    nm = op[2] if op[0] == "getm" else op[1]
                    chk.dist("names:" + ("None" if nm is None else "one pattern" if not isinstance(nm, (list, tuple)) else
                                          "several exact names" if all(x in NAMES for x in nm) else "list of %d patterns" % len(nm)))
            for m in set(x.split(" #")[0] for x in im[3:].split(" ; ")):
                chk.dist("out:" + (m.split()[0] + (" " + m.split()[1] if m.startswith("err") else "")))
            if len(chk.samples) < 3 and 4 <= len(h) <= 6:
                chk.sample(dict(ops=[list(map(str, op)) for op in h], model_reply=a[:400]))
        # ---- second family: one file per format, multi-series requests out of file order -----------------------------------------
        from . import c01
        nh = 12 if chk.quick else 80
        fam2 = []
        for fi, fmt in enumerate(c01.FORMATS):
            spec = c01.gen_spec(rng, 20 + fi, fmt, k=rng.choice([3, 4, 5]), n=rng.randint(3, 5))
            path = c01.write_file(fl.root, spec)
            chk.dist("fmt-file:%s k=%d" % (fmt, len(spec["names"])))
            k = len(spec["names"])
            rev = list(range(k))[::-1]
            # corner histories: the whole file in reverse file order, by name / key / index, fresh and partly cached
            hs = [[["load", False], ["get", "getm", "names", [spec["names"][i] for i in rev], True], ["iter"]],
                  [["load", False], ["get", "getl", "ind", rev, False], ["get", "getd", "keys", [spec["names"][i] for i in rev], True]],
                  [["load", False], ["get1", spec["names"][k // 2], True], ["get", "getda", "ind", rev, True], ["copy", None, True]]]
            # the histories of the former finding F17: rename a series that was not read, then read it; two unread series exchange
            # their names by three renames, then everything is read, copied and read again
            n0, n1 = spec["names"][0], spec["names"][1]
            hs += [[["load", False], ["rename", n0, "r1"], ["get1", "r1", True], ["iter"]],
                   [["load", False], ["rename", n0, "tmpn"], ["rename", n1, n0], ["rename", "tmpn", n1],
                    ["get", "getm", "names", [n0, n1], True], ["copy", None, True], ["iter"]]]
            hs += [gen_fmt_history(rng, spec) for _ in range(nh)]
            fam2 += [(fmt, spec, path, ops) + fmt_encode(spec, path, ops) for ops in hs]
        replies = drv.run([f[4] for f in fam2])
        for (fmt, spec, path, ops, _, opmap), reply in zip(fam2, replies):
            chk.count("fmt-history")
            fmt_execute(spec, path, ops, chk, dict(kind="fmt", spec=spec, ops=ops), bind=(parse_bind(reply), opmap))
            for op in ops:
                chk.dist("fmt-op:" + op[0] + (":" + op[1] + ":" + op[2] if op[0] == "get" else ""))
            if out_of_file_order(spec, ops):
                chk.nontriv((fmt, repr(ops)))
        # ---- third family: files written anew at the same path between loads, several databases in one session ---------------------
        for fi, fmt in enumerate(c01.FORMATS):
            sessions = [([["write", 0], ["load", 0, False], ["get", 0, "getm", True, False], ["write", 1], ["fromfile", 1, False],
                          ["get", 1, "getm", False, True], ["clear", 0], ["load", 0, False], ["get", 0, "iter", True, False],
                          ["write", 2], ["load", 0, False], ["fromfile", 2, True], ["touch", 2], ["write", 2], ["fromfile", 1, False],
                          ["get", 1, "getd", True, False], ["get", 0, "getm", True, False]], None)]
            sessions += [(c["ops"], None) for c in core.load_corpus("C08") if c.get("kind") == "rewrite" and c.get("fmt") in ("*", fmt)]
            for i, (ops, vs) in enumerate(sessions + [(None, None)] * (3 if chk.quick else 20)):
                vs, gops = gen_rewrite_history(rng, fmt, 60 + 7 * fi + 3 * (i % 2))
                ops = ops or gops
                chk.count("rewrite-session")
                chk.dist("rw-file:%s" % fmt)
                for op in ops:
                    chk.dist("rw-op:" + op[0])
                try:
                    rewrite_execute(vs, ops, os.path.join(fl.root, "rw%d" % i), chk, dict(kind="rewrite", versions=vs, ops=ops))
                except Exception as e:
                    chk.fail("the operations of a session on readable files complete", dict(kind="rewrite", versions=vs, ops=ops), "done",
                             err_enum(e) + ": " + str(e)[:120], clause="rw-crash", fmt=fmt)
                if sum(op[0] == "write" for op in ops) > 1:
                    chk.nontriv((fmt, repr(ops)))
        # ---- every listed series is retrievable and holds its data after renaming a not-yet-read series (all addressing modes) -------
        for fmt in ("h5", "mat", "tdms", "ts", "csv"):
            spec = c01.gen_spec(rng, 7, fmt, k=2, n=4, variant=0)
            rename_unread(spec, c01.write_file(fl.root, spec), chk)
        # ---- large registries (31 ... 300 series + added + updated ones): histories decided by the clauses alone (c08_big.py) --------
        from .c08_big import run_big
        run_big(chk)
    finally:
        fl.close()


def replay(rp):
    inp = rp["input"]
    if inp.get("kind") == "big":
        from .c08_big import replay_big
        return replay_big(inp)
    if inp.get("kind") == "strict":
        from .c08_strict import replay_strict
        return replay_strict(inp)
    fl = Files()
    try:
        chk = core.Check("C08", "quick", 0)
        kind = inp.get("kind", "history")
        if kind == "rewrite":
            rewrite_execute(inp["versions"], inp["ops"], os.path.join(fl.root, "rw"), chk, dict(kind="rewrite", versions=inp["versions"], ops=inp["ops"]))
        elif kind in ("fmt", "rename-unread"):
            from . import c01
            path = c01.write_file(fl.root, inp["spec"])
            if kind == "fmt":
                try:
                    line, opmap = fmt_encode(inp["spec"], path, inp["ops"])
                    bind = (parse_bind(core.Driver().run([line])[0]), opmap)
                except Exception as e:                 # the oracles do not need the model
                    print("(model not available: %s)" % e)
                    bind = None
                fmt_execute(inp["spec"], path, inp["ops"], chk, dict(kind="fmt", spec=inp["spec"], ops=inp["ops"]), bind=bind)
            else:
                rename_unread(inp["spec"], path, chk)
        else:
            paths = make_files(fl)
            ops = [tuple(o) for o in inp["ops"]]
            try:
                o, bo = core.Driver().run([encode(ops, paths), encode(ops, paths, "db.bind")])
            except Exception as e:                     # the oracles do not need the model
                print("(model not available: %s)" % e)
                o = bo = None
            with keep_cwd():
                im, state = execute(ops, paths, chk, dict(ops=inp["ops"]))
                bind_last = compare_bind(parse_bind(bo), state[4], chk, dict(ops=inp["ops"])) if bo is not None else None
                final_checks(state, chk, dict(ops=inp["ops"]), bind_last)
            if o is not None and renumber(model_text(o, ops)) != renumber(im):
                print("model and implementation differ")
        for d in getattr(chk, "disagreements", []):
            print("DIFFERS (%s):" % d.get("stream"), str(d.get("input", {}).get("what", ""))[:120], "| model", str(d.get("model"))[:300],
                  "| implementation", str(d.get("impl"))[:300])
        for f in chk.failing:
            print("FAILS:", f["oracle"], "| expected", str(f["expected"])[:200], "| observed", str(f["observed"])[:300])
        print("replay: %d failing clause(s)" % len(chk.failing))
        return 1 if chk.failing else 0
    finally:
        fl.close()
