"""
C08 — the database registry stays coherent over any history of operations.

Tie: correspondence of operation histories (load / load again / add / rename / clear / update / copy / getm / get by index,
on two databases) between the real `TsDB` objects and the Lean state machine `Qats.Registry.step`: after every operation
the outcome (done / error kind / returned series identities), `n`, `register_keys`, the key sets of the three dictionaries
and the cache state (None vs object identity) of both databases are compared.
Search: coherence clauses on the real objects after every operation.
"""
import numpy as np

from .. import core
from ..dbutil import Files, digest, err_enum, hx, hxlist, renumber

RULE = ("seeded histories of 3-14 operations over a weighted alphabet favouring multi-step patterns (load twice, copy then inspect, "
        "update with a late clash, rename then read, clear by pattern) on 3 generated files (names with spaces, brackets, '/'-in-"
        "brackets) and in-memory series; thorough adds all histories of length <= 3 over a fixed 16-letter alphabet; "
        "non-trivial = history with at least one successful mutation and one rejected operation or cache interaction; distinct by history")

FILES = [("d1/f1.pkl", ["a", "b", "c"]), ("d1/f2.pkl", ["a", "x y", "T [kN/m]"]), ("d2/f1.pkl", ["b", "c"])]
NAMES = ["a", "b", "c", "x y", "T [kN/m]", "new", "m(1)", "z^2"]
PATS = ["a", "b", "*", "*a", "f1.pkl/*", "x y", "T [kN/m]", "nomatch", "*[kN/m]", "d1/*", "?"]


def gen_history(rng, L=None):
    L = L or rng.randint(3, 14)
    ops = []
    for _ in range(L):
        r = rng.random()
        w = "A" if rng.random() < 0.75 else "B"
        if r < 0.2:
            fi = rng.randrange(len(FILES))
            ops.append(("load", w, fi, rng.random() < 0.35))
        elif r < 0.3:
            ops.append(("add", w, rng.choice(NAMES)))
        elif r < 0.42:
            ops.append(("rename", w, rng.choice(PATS[:8] + NAMES), rng.choice(NAMES)))
        elif r < 0.5:
            ops.append(("clear", w, rng.choice([None] + PATS)))
        elif r < 0.62:
            ops.append(("update", rng.choice([None] + PATS), rng.random() < 0.5))
        elif r < 0.72:
            ops.append(("copy", rng.choice([None] + PATS), rng.random() < 0.5))
        elif r < 0.92:
            ops.append(("getm", w, rng.choice([None] + PATS), rng.random() < 0.6))
        else:
            ops.append(("geti", w, rng.randint(0, 5), rng.random() < 0.6))
    return ops


def encode(ops, paths):
    toks = []
    for op in ops:
        k = op[0]
        if k == "load":
            fi = op[2]
            toks.append("load %s %s 1 %d %s" % (op[1], hx(paths[fi]), op[3], hxlist(FILES[fi][1])))
        elif k == "add":
            toks.append("add %s %s" % (op[1], hx(op[2])))
        elif k == "rename":
            toks.append("rename %s %s %s" % (op[1], hx(op[2]), hx(op[3])))
        elif k == "clear":
            toks.append("clear %s %s" % (op[1], "none" if op[2] is None else hx(op[2])))
        elif k in ("update", "copy"):
            toks.append("%s %s %d" % (k, "none" if op[1] is None else hxlist([op[1]]), op[2]))
        elif k == "getm":
            toks.append("getm %s %s %d" % (op[1], "none" if op[2] is None else hxlist([op[2]]), op[3]))
        elif k == "geti":
            toks.append("geti %s %d %d" % (op[1], op[2], op[3]))
    return "db.run " + " ; ".join(toks)


def coherent(db):
    ks = list(db.register_keys)
    probs = []
    if len(set(ks)) != len(ks):
        probs.append("duplicate keys in register_keys")
    for nm, d in (("register", db.register), ("register_parent", db.register_parent), ("register_indices", db.register_indices)):
        if set(d.keys()) != set(ks):
            probs.append("%s keys differ from register_keys" % nm)
    if db.n != len(ks) or len(db) != len(ks):
        probs.append("n/len != number of keys")
    if list(db.list(display=False)) != ks:
        probs.append("list() != register_keys")
    return probs


def execute(ops, paths, chk=None, inp=None):
    from qats import TsDB, TimeSeries
    A, B = TsDB(), TsDB()
    ids, keep, recs = {}, [], []
    t = np.arange(3.0)
    for op in ops:
        db = lambda w: A if w == "A" else B
        k = op[0]
        snap = None
        try:
            if k == "load":
                snap = (op[1], snapshot(db(op[1])))
                db(op[1]).load(paths[op[2]], read=op[3])
                out = "done"
            elif k == "add":
                snap = (op[1], snapshot(db(op[1])))
                ts = TimeSeries(op[2], t, t * 2)
                keep.append(ts)
                db(op[1]).add(ts)
                out = "done"
            elif k == "rename":
                snap = (op[1], snapshot(db(op[1])))
                db(op[1]).rename(op[2], op[3])
                out = "done"
            elif k == "clear":
                db(op[1]).clear(names=op[2], display=False)
                out = "done"
            elif k == "update":
                snap = ("A", snapshot(A))
                A.update(B, names=None if op[1] is None else [op[1]], shallow=not op[2])
                out = "done"
            elif k == "copy":
                B = A.copy(names=None if op[1] is None else [op[1]], shallow=not op[2])
                out = "done"
            elif k == "getm":
                c = db(op[1]).getm(names=None if op[2] is None else [op[2]], store=op[3], fullkey=True)
                keep.extend(c.values())
                if chk is not None and op[3]:
                    notsame = [kk for kk, v in c.items() if db(op[1]).register.get(kk) is not v]
                    if notsame:
                        chk.fail("with caching enabled later retrievals return the very same object (every series returned by a "
                                 "store-on retrieval is the cached one)", dict(inp, op=list(map(str, op))), "cached", notsame,
                                 clause="store-true")
                out = "series " + ",".join("%s=o%d" % (hx(kk), ids.setdefault(id(v), len(ids))) for kk, v in c.items())
            elif k == "geti":
                c = db(op[1]).getm(ind=op[2], store=op[3], fullkey=True)
                keep.extend(c.values())
                out = "series " + ",".join("%s=o%d" % (hx(kk), ids.setdefault(id(v), len(ids))) for kk, v in c.items())
        except Exception as e:
            out = err_enum(e)
            if chk is not None and snap is not None:
                after = snapshot(db(snap[0]))
                if after != snap[1]:
                    chk.fail("a rejected operation leaves the database exactly as it was", dict(inp, op=list(map(str, op))),
                             str(snap[1])[:300], str(after)[:300], clause="rejected-unchanged")
        for w, d in (("A", A), ("B", B)):
            keep.extend(v for v in d.register.values() if v is not None)
            if chk is not None:
                pr = coherent(d)
                if pr:
                    chk.fail("size, listing, iteration and per-series bookkeeping describe one set of unique keys in registration order",
                             dict(inp, upto=len(recs) + 1, db=w), "coherent", pr, clause="coherent")
        recs.append("%s # %s # %s" % (out, digest(A, ids), digest(B, ids)))
    return "ok " + " ; ".join(recs), (A, B, keep)


def snapshot(db):
    return (list(db.register_keys), sorted(db.register.keys()), sorted((k, str(v)) for k, v in db.register_parent.items()),
            sorted((k, str(v)) for k, v in db.register_indices.items()),
            sorted((k, id(v), None if v is None else (v.name, v.parent, v.x.tobytes())) for k, v in db.register.items()))


def run(chk):
    import itertools
    chk.extra["rule"] = RULE
    chk.assumptions += ["series objects are abstract identities in the model; their data is C01's subject",
                        "names lists of getm/update/copy contain one pattern (overlapping patterns make `_read` construct a series twice)"]
    # F17: only name-addressed formats, only the renamed key
    chk.matchers["F17"] = lambda f: f.get("clause") == "f17" and f.get("fmt") in ("h5", "mat", "tdms") and \
        f["input"]["key"].endswith("renamed_series")
    rng = chk.rng
    drv = core.Driver()
    fl = Files()
    try:
        paths = [fl.make(rel, names, seed=i) for i, (rel, names) in enumerate(FILES)]
        hist = [[tuple(o) for o in c["ops"]] for c in core.load_corpus("C08")]
        hist += [gen_history(rng) for _ in range(250 if chk.quick else 4000)]
        if not chk.quick:
            alpha = [("load", "A", 0, False), ("load", "A", 0, True), ("load", "A", 1, False), ("load", "B", 0, False), ("add", "A", "a"),
                     ("add", "A", "T [kN/m]"), ("rename", "A", "a", "b"), ("rename", "A", "a", "new"), ("clear", "A", "a"), ("clear", "A", None),
                     ("update", None, True), ("update", "a", False), ("copy", None, True), ("copy", "b", False),
                     ("getm", "A", None, True), ("getm", "A", "a", False)]
            for L in (1, 2, 3):
                hist += [list(h) for h in itertools.product(alpha, repeat=L)]
        lines = [encode(h, paths) for h in hist]
        outs = drv.run(lines)
        for h, o in zip(hist, outs):
            inp = dict(ops=[list(op) for op in h], files={p: n for p, (_, n) in zip(paths, FILES)})
            chk.count("db.run")
            im, (A, B, keep) = execute(h, paths, chk, inp)
            a, b = renumber(o), renumber(im)
            if a != b:
                ao, bo = a.split(" ; "), b.split(" ; ")
                i = next((i for i, (x, y) in enumerate(zip(ao, bo)) if x != y), min(len(ao), len(bo)))
                chk.disagree("db.run", dict(inp, first_difference_at_op=i), ao[i] if i < len(ao) else None, bo[i] if i < len(bo) else None)
            kinds = set(op[0] for op in h)
            if "err" in im and ("done" in im):
                chk.nontriv(repr(h))
            chk.dist("len=%d" % min(len(h), 15))
            for op in h:
                chk.dist("op:" + op[0])
            for m in set(x.split(" #")[0] for x in im[3:].split(" ; ")):
                chk.dist("out:" + (m.split()[0] + (" " + m.split()[1] if m.startswith("err") else "")))
            # every listed series is retrievable; caching semantics
            for db in (A, B):
                ks = list(db.register_keys)
                for k in ks[:4]:
                    chk.count("retrieve")
                    before = db.register.get(k)
                    try:
                        ts = db.get(name=k, store=False)
                    except Exception as e:
                        chk.fail("every listed series is retrievable by its key", dict(inp, key=k), "series", err_enum(e) + ": " + str(e)[:80],
                                 clause="retrievable")
                        continue
                    if db.register.get(k) is not before:
                        chk.fail("retrieval with caching disabled leaves no data behind", dict(inp, key=k), str(before), str(db.register.get(k)),
                                 clause="store-false")
                    ts1 = db.get(name=k, store=True)
                    ts2 = db.get(name=k, store=True)
                    if ts1 is not ts2 or db.register.get(k) is not ts1:
                        chk.fail("with caching enabled later retrievals return the very same object", dict(inp, key=k), "same object", "different",
                                 clause="store-true")
            if len(chk.samples) < 3 and 4 <= len(h) <= 6:
                chk.sample(dict(ops=[list(map(str, op)) for op in h], model_reply=a[:400]))
        # ---- every listed series is retrievable, also after renaming a not-yet-read series of a name-addressed file (F17) ------------
        from qats import TsDB
        from . import c01
        for fmt in ("h5", "ts", "csv"):
            spec = c01.gen_spec(rng, 7, fmt, k=2, n=4, variant=0)
            path = c01.write_file(fl.root, spec)
            db = TsDB.fromfile(path)
            old = db.register_keys[0]
            db.rename(old, "renamed_series")
            chk.count("rename-then-read")
            for k in list(db.register_keys):
                try:
                    db.get(name=k, store=False)
                except Exception as e:
                    chk.fail("every listed series is retrievable (after rename of a not-yet-read series)",
                             dict(format=fmt, renamed=old, key=k), "series", err_enum(e) + ": " + str(e)[:80], clause="f17", fmt=fmt)
    finally:
        fl.close()


def replay(rp):
    inp = rp["input"]
    fl = Files()
    try:
        paths = [fl.make(rel, names, seed=i) for i, (rel, names) in enumerate(FILES)]
        ops = [tuple(o) for o in inp["ops"]]
        chk = core.Check("C08", "quick", 0)
        drv = core.Driver()
        o = drv.run([encode(ops, paths)])[0]
        im, _ = execute(ops, paths, chk, dict(ops=inp["ops"]))
        for f in chk.failing:
            print("FAILS:", f["oracle"], f["observed"])
        if renumber(o) != renumber(im):
            print("model and implementation differ")
        print("replay: %d failing clause(s)" % len(chk.failing))
        return 1 if chk.failing else 0
    finally:
        fl.close()
