"""
C11 — the processing pipeline means what its options say.

Tie: strict Rat correspondence of `TimeSeries.get` (window / resample step / resample array / stage combinations),
`interpolate`, `resample`, `modify` with the Lean model on dyadic series. The stage functions (`taper`, the four filters,
`smooth`) are patched in `qats.ts` by non-commuting *tag functions* (x+1, 2x+dt, x²) — the same tags the driver uses — so
stage order and the sampling interval handed to the filter are visible in the compared output.
Search: the property's clauses on the unpatched implementation + float exploration of (start, end, dt) for `resample`.
Requested time arrays are sorted or unsorted, as ndarray or list, with out-of-span values (far / one ulp outside) at any
position; the clauses are evaluated on a fresh object and after a *history* on the same object. A history interleaves
`get(...)` with the other query methods of TimeSeries (minima / maxima / min / max / mean / std / skew / kurtosis / rfc / psd /
stats / interpolate / resample / filter / copy / the properties; a query must not change what later queries return, whatever
the caller does with the arrays it got back) and with in-place changes of the stored arrays (set_dtg_ref, element edits of
ts.x / ts.t, scaling, shifting, re-assignment, modify): after a change the *currently stored* samples are the reference. The
"stored arrays" clauses are evaluated after every step of the history (checkpoints), so an earlier query is always followed
by a later one on the same object.
"""
from datetime import datetime, timedelta
from fractions import Fraction

import numpy as np

from .. import core
from ..core import rat

RULE = ("seeded dyadic series (3-40 samples; uniform with power-of-two steps, or non-uniform dyadic steps) x windows (inside / "
        "partially outside / exactly on samples / empty) x resample step / array (inside and outside the span) x all 8 stage "
        "combinations; requested arrays sorted / shuffled / with repeats, out-of-span values at any position (first, interior, last; "
        "far or one ulp outside), passed as ndarray or list to get(resample=) and interpolate(); every clause also after a history "
        "of 0-4 earlier steps on the same object: get() calls (taper / filter / smooth / window / resample combinations), the "
        "other query methods (minima, maxima, min, max, mean, std, skew, kurtosis, rfc, psd, stats, interpolate, resample, filter, "
        "copy, properties; with and without get-options; also a get() whose returned arrays the caller edits in place) and "
        "in-place changes of the stored arrays (set_dtg_ref with / without reference, ts.x[i] edits, ts.x scaling, ts.t shift / "
        "element move, ts.x re-assignment, modify(twin)), the stored-array clauses being re-evaluated after every step "
        "(checkpoints) and the remaining inputs generated relative to the series as stored after the history; every "
        "tagged get() issued twice; float exploration of decimal (start, dt, n) for stand-alone resampling; non-trivial = any "
        "option set; distinct by (series, options)")


class Tags:
    """patch the stage functions in qats.ts with tag functions; records the calls"""

    def __init__(self):
        import qats.ts as m
        self.m = m
        self.saved = {}
        self.calls = []

    def __enter__(self):
        m = self.m

        def taper(x, *a, **kw):
            self.calls.append(("taper", kw.get("alpha", a[1] if len(a) > 1 else None)))
            return np.asarray(x, dtype=float) + 1.0, 1.0

        def mkfilter(name):
            def f(x, *a, **kw):                      # positional or keyword call: (x, dt, fc…, order=…)
                dt = kw.get("dt", a[0] if a else None)
                self.calls.append((name, float(dt)))
                return 2.0 * np.asarray(x, dtype=float) + dt
            return f

        def smooth(x, *a, **kw):
            self.calls.append(("smooth", kw.get("window_len", a[0] if a else None)))
            return np.asarray(x, dtype=float) ** 2
        for name, fn in [("taper", taper), ("lowpass", mkfilter("lowpass")), ("highpass", mkfilter("highpass")),
                         ("bandpass", mkfilter("bandpass")), ("bandblock", mkfilter("bandblock")), ("smooth", smooth)]:
            self.saved[name] = getattr(m, name)
            setattr(m, name, fn)
        return self

    def __exit__(self, *a):
        for k, v in self.saved.items():
            setattr(self.m, k, v)


def gen_series(rng):
    n = rng.choice([3, 4, 5, 8, 13, 40])
    if rng.random() < 0.6:
        h = Fraction(1, rng.choice([1, 2, 4, 8])) * rng.choice([1, 2])
        t0 = Fraction(rng.randint(-8, 8), 2)
        t = [t0 + i * h for i in range(n)]
    else:
        t = [Fraction(rng.randint(-8, 8), 2)]
        for _ in range(n - 1):
            t.append(t[-1] + Fraction(rng.choice([1, 2, 3, 5]), rng.choice([2, 4, 8])))
    x = [Fraction(rng.randint(-64, 64), rng.choice([1, 2, 4])) for _ in range(n)]
    return t, x


def gen_request(rng, t, p_out=0.4):
    """requested time array: points of the span (dyadic fractions of it, stored times, the two ends), sorted or shuffled, possibly
    with repeats; with probability p_out one or two values outside the span (far, 1/8, or one ulp) at any position"""
    lo, hi = t[0], t[-1]
    m = rng.choice([1, 2, 3, 5, 8])
    pts = [rng.choice([lo + (hi - lo) * Fraction(rng.randint(0, 16), 16), t[rng.randrange(len(t))], lo, hi]) for _ in range(m)]
    if rng.random() < 0.5:
        pts.sort()
    if rng.random() < p_out:
        for _ in range(rng.choice([1, 1, 2])):
            out = rng.choice([hi + 1, lo - 1, hi + Fraction(1, 8), lo - Fraction(1, 8), hi + 100,
                              Fraction(float(np.nextafter(float(hi), np.inf))), Fraction(float(np.nextafter(float(lo), -np.inf)))])
            pts.insert(rng.randint(0, len(pts)), out)
    return pts


REF0 = datetime(2020, 1, 1, 12, 0, 0)

GETKW_QUERIES = ("min", "max", "mean", "std", "skew", "kurtosis", "rfc", "psd", "stats")
QUERIES = ("get", "get_edit", "minima", "maxima", "interpolate", "resample", "filter", "copy", "props") + GETKW_QUERIES
MUTATORS = ("set_dtg_ref", "edit_x", "set_x", "scale_x", "shift_t", "move_t", "assign_x", "modify")


def gen_getkw(rng, lo, hi, p_plain=0.0):
    """keyword arguments of one get() call as a JSON-able dict (real stage functions); {} = no option at all"""
    kw = {}
    if rng.random() < p_plain:
        return kw
    k = rng.random()
    if k < 0.25:
        kw["twin"] = [lo + (hi - lo) * rng.randint(0, 4) / 8.0, hi - (hi - lo) * rng.randint(0, 3) / 8.0]
    elif k < 0.4:
        kw["resample"] = (hi - lo) / rng.choice([1, 2, 4, 7])
    elif k < 0.5:
        kw["resample"] = [lo + (hi - lo) * rng.randint(0, 8) / 8.0 for _ in range(rng.randint(1, 4))]
    if rng.random() < 0.6:
        kw["taperfrac"] = rng.choice([0.1, 0.25, 0.5])
    if rng.random() < 0.3:
        kw["filterargs"] = rng.choice([["lp", 0.1], ["hp", 0.05], ["bp", 0.05, 0.2], ["bs", 0.05, 0.2], ["tp", 1.0]])
    if rng.random() < 0.25:
        kw["window_len"] = rng.choice([3, 3, 1, 5])
    return kw


def gen_step(rng, t, x, has_ref):
    """one step of a history on the series currently stored as (t, x) (Fractions): a query (must not change anything) or an
    in-place change of the stored arrays, as a JSON-able dict"""
    lo, hi = float(t[0]), float(t[-1])
    n = len(t)
    k = rng.random()
    if k < 0.25:
        return {"op": "get", "kw": gen_getkw(rng, lo, hi)}
    if k < 0.65:
        op = rng.choice(["minima", "minima", "maxima", "maxima", "get_edit", "interpolate", "resample", "filter", "copy", "props"]
                        + list(GETKW_QUERIES))
        if op in ("minima", "maxima"):
            return {"op": op, "kw": gen_getkw(rng, lo, hi, p_plain=0.5), "local": rng.random() < 0.4, "rettime": rng.random() < 0.4}
        if op == "get_edit":
            return {"op": op, "kw": gen_getkw(rng, lo, hi, p_plain=0.4)}
        if op in GETKW_QUERIES:
            return {"op": op, "kw": gen_getkw(rng, lo, hi, p_plain=0.5)}
        if op == "interpolate":
            return {"op": op, "at": [lo + (hi - lo) * rng.randint(0, 16) / 16.0 for _ in range(rng.randint(1, 4))]}
        if op == "resample":
            if rng.random() < 0.5:
                return {"op": op, "dt": (hi - lo) / rng.choice([1, 2, 4, 8])}
            return {"op": op, "t": [lo + (hi - lo) * rng.randint(0, 16) / 16.0 for _ in range(rng.randint(1, 4))]}
        if op == "filter":
            return {"op": op, "args": rng.choice([["lp", 0.1], ["hp", 0.05], ["bp", [0.05, 0.2]], ["bs", [0.05, 0.2]], ["tp", 1.0]])}
        return {"op": op}
    op = rng.choice(MUTATORS)
    if op == "set_dtg_ref":
        return {"op": op, "shift": rng.choice([None, None, "15/2", "-9/4", "1/2", "30", "-1/8"])}
    if op == "edit_x":
        return {"op": op, "i": rng.randrange(n), "add": str(Fraction(rng.choice([-100, -3, 1, 7, 100]), rng.choice([1, 2])))}
    if op == "set_x":
        return {"op": op, "i": rng.randrange(n), "value": str(Fraction(rng.randint(-64, 64), rng.choice([1, 2, 4])))}
    if op == "scale_x":
        return {"op": op, "by": rng.choice(["-1", "2", "1/2", "0"])}
    if op == "shift_t":
        return {"op": op, "by": rng.choice(["1/2", "-3/4", "10", "-8"])}
    if op == "move_t":
        i = rng.randrange(1, n - 1)
        return {"op": op, "i": i, "value": str(t[i - 1] + Fraction(rng.choice([1, 2, 3]), 4) * (t[i + 1] - t[i - 1]))}
    if op == "assign_x":
        return {"op": op, "values": [str(Fraction(rng.randint(-64, 64), rng.choice([1, 2, 4]))) for _ in range(n)]}
    # modify(twin): at least three samples are kept
    i = rng.randrange(0, n - 2)
    j = rng.randrange(i + 2, n)
    return {"op": "modify", "twin": [str(t[i] - Fraction(rng.randint(0, 1), 16)), str(t[j] + Fraction(rng.randint(0, 1), 16))]}


def step_op(h):
    return h.get("op", "get")           # histories written before the other operations existed: plain get() keyword dicts


def model_step(t, x, has_ref, h):
    """the series stored after step h, in exact arithmetic (queries change nothing)"""
    op = step_op(h)
    t, x = list(t), list(x)
    if op == "set_dtg_ref":
        if h.get("shift") is None:
            if has_ref:
                t = [u - t[0] for u in t]           # the reference is moved to the first sample
        elif has_ref:
            t = [u + Fraction(h["shift"]) for u in t]
        else:
            has_ref = True                           # no earlier reference: nothing to shift
    elif op == "edit_x":
        x[h["i"]] += Fraction(h["add"])
    elif op == "set_x":
        x[h["i"]] = Fraction(h["value"])
    elif op == "scale_x":
        x = [v * Fraction(h["by"]) for v in x]
    elif op == "shift_t":
        t = [u + Fraction(h["by"]) for u in t]
    elif op == "move_t":
        t[h["i"]] = Fraction(h["value"])
    elif op == "assign_x":
        x = [Fraction(v) for v in h["values"]]
    elif op == "modify":
        a, b = [Fraction(v) for v in h["twin"]]
        keep = [(u, v) for u, v in zip(t, x) if a <= u <= b]
        t, x = [u for u, _ in keep], [v for _, v in keep]
    return t, x, has_ref


def gen_history(rng, t, x, has_ref):
    """0-4 steps; returns (history, series stored afterwards)"""
    h = []
    for _ in range(rng.choice([0, 1, 1, 2, 2, 3, 4])):
        step = gen_step(rng, t, x, has_ref)
        h.append(step)
        t, x, has_ref = model_step(t, x, has_ref, step)
    return h, t, x


def kw_of(h):
    kw = dict(h)
    if "twin" in kw:
        kw["twin"] = tuple(kw["twin"])
    if "filterargs" in kw:
        kw["filterargs"] = tuple(kw["filterargs"])
    if isinstance(kw.get("resample"), list):
        kw["resample"] = np.array(kw["resample"], dtype=float)
    return kw


def apply_step(ts, h):
    """perform one step of a history on the real object. A refused step (e.g. a filter on a very short series, set_dtg_ref()
    without a reference) is still part of the history."""
    op = step_op(h)
    try:
        if op == "get":
            ts.get(**kw_of(h["kw"] if "op" in h else h))
        elif op == "get_edit":
            # the caller post-processes what it got back (zero-based time axis, scaled data): its own arrays, not the series
            tt, xx = ts.get(**kw_of(h["kw"]))
            if isinstance(xx, np.ndarray) and len(xx):
                xx *= 0.0
                xx += 12345.0
            if isinstance(tt, np.ndarray) and len(tt):
                tt -= tt[0] + 1.0
        elif op in ("minima", "maxima"):
            getattr(ts, op)(local=h.get("local", False), rettime=h.get("rettime", False), **kw_of(h.get("kw", {})))
        elif op in GETKW_QUERIES:
            getattr(ts, op)(**kw_of(h.get("kw", {})))
        elif op == "interpolate":
            ts.interpolate(np.array(h["at"], dtype=float))
        elif op == "resample":
            if "t" in h:
                ts.resample(t=np.array(h["t"], dtype=float))
            else:
                ts.resample(dt=float(h["dt"]))
        elif op == "filter":
            ftype, freq = h["args"]
            ts.filter(ftype, tuple(freq) if isinstance(freq, list) else freq)
        elif op == "copy":
            ts.copy()
        elif op == "props":
            for name in ("dt", "is_constant_dt", "start", "end", "duration", "n", "dtg_start", "dtg_end", "dtg_time",
                         "average_frequency", "average_period", "fullname"):
                try:
                    getattr(ts, name)
                except Exception:
                    pass
            repr(ts)
            list(zip(range(3), ts))
        elif op == "set_dtg_ref":
            if h.get("shift") is None:
                ts.set_dtg_ref()
            else:
                cur = ts.dtg_ref
                ts.set_dtg_ref(REF0 if cur is None else cur - timedelta(seconds=float(Fraction(h["shift"]))))
        elif op == "edit_x":
            ts.x[h["i"]] += float(Fraction(h["add"]))
        elif op == "set_x":
            ts.x[h["i"]] = float(Fraction(h["value"]))
        elif op == "scale_x":
            ts.x *= float(Fraction(h["by"]))
        elif op == "shift_t":
            tt = ts.t
            tt += float(Fraction(h["by"]))
        elif op == "move_t":
            ts.t[h["i"]] = float(Fraction(h["value"]))
        elif op == "assign_x":
            ts.x = np.array([float(Fraction(v)) for v in h["values"]])
        elif op == "modify":
            ts.modify(twin=tuple(float(Fraction(v)) for v in h["twin"]))
    except Exception:
        pass


def make_ts(t, x, case):
    from qats import TimeSeries
    tf, xf = np.array([float(v) for v in t]), np.array([float(v) for v in x])
    return TimeSeries("s", tf, xf, dtg_ref=REF0 if case.get("dtg_ref") else None)


def describe(hist):
    """the suffix of an oracle text that says after what kind of history the clause was evaluated"""
    ops = [step_op(h) for h in hist or []]
    if not ops:
        return ""
    q = sorted(set(o for o in ops if o not in MUTATORS))
    m = sorted(set(o for o in ops if o in MUTATORS))
    parts = []
    if q:
        parts.append("earlier queries on the same object: %s" % ", ".join(q))
    if m:
        parts.append("in-place changes of the stored arrays, which are then the reference: %s" % ", ".join(m))
    return " (also after " + "; ".join(parts) + ")"


def stored_clauses(ts, t, x, sfx):
    """the clauses that only need the stored arrays (t, x as Fractions): plain get(), stored values reproduced at stored times,
    no extrapolation just outside the stored span. Returns [(oracle, expected, observed)]."""
    tf, xf = np.array([float(v) for v in t]), np.array([float(v) for v in x])
    bad = []

    def attempt(call):
        try:
            return call()
        except Exception as e:
            return type(e).__name__

    got = attempt(lambda: ts.get())
    if isinstance(got, str) or not (np.array_equal(got[0], tf) and np.array_equal(got[1], xf)):
        bad.append(("without options the stored arrays are returned" + sfx, [tf.tolist()[:5], xf.tolist()[:5]],
                    got if isinstance(got, str) else [np.asarray(got[0]).tolist()[:5], np.asarray(got[1]).tolist()[:5]]))
    vals = attempt(lambda: ts.interpolate(tf.copy()))
    if isinstance(vals, str) or len(vals) != len(xf) or not np.allclose(vals, xf, rtol=1e-12, atol=1e-12):
        bad.append(("interpolation reproduces stored values at stored times" + sfx, xf.tolist()[:5],
                    vals if isinstance(vals, str) else np.asarray(vals).tolist()[:5]))
    got = attempt(lambda: ts.get(resample=tf.copy()))
    if isinstance(got, str) or len(got[1]) != len(xf) or not np.array_equal(got[0], tf) or \
            not np.allclose(got[1], xf, rtol=1e-12, atol=1e-12):
        bad.append(("resampling to the stored times reproduces the stored values" + sfx, xf.tolist()[:5],
                    got if isinstance(got, str) else np.asarray(got[1]).tolist()[:5]))
    for q in (t[0] - Fraction(1, 8), t[-1] + Fraction(1, 8)):
        got = attempt(lambda: float(ts.interpolate(np.array([float(q)]))[0]))
        if got != "ValueError":
            bad.append(("outside the stored span interpolation raises instead of extrapolating" + sfx,
                        "ValueError at %s (stored span %s .. %s)" % (q, t[0], t[-1]), got))
    return bad


def exact_interp(t, x, q):
    """linear interpolation of the stored samples in exact arithmetic; None outside the stored span"""
    if q < t[0] or q > t[-1]:
        return None
    for i in range(len(t) - 1):
        if t[i] <= q <= t[i + 1]:
            return x[i] + (q - t[i]) / (t[i + 1] - t[i]) * (x[i + 1] - x[i])
    return x[0]


AFTER = " (also after earlier queries on the same object)"


def direct_clauses(t, x, case):
    """The property's clauses on the unpatched implementation for one series (Fractions) and one `case`: optional keys
    dtg_ref / history / checkpoints / twin / qs / step / req. The history is applied to one object; with `checkpoints` the
    stored-array clauses are evaluated on the fresh object and after every step (against the series as stored at that point);
    twin / qs / req / step refer to the series stored after the whole history.
    Returns (ts, t', x', [(oracle, relevant case keys, expected, observed, number of history steps needed or None = all)])
    where (t', x') is the series stored after the history, in exact arithmetic."""
    t_in, x_in = t, x
    ts = make_ts(t, x, case)
    hist = case.get("history") or []
    has_ref = bool(case.get("dtg_ref"))
    bad = []
    seen = set()
    if case.get("checkpoints", True) and hist:
        for oracle, exp, obs in stored_clauses(ts, t, x, ""):
            seen.add(oracle)
            bad.append((oracle, [], exp, obs, 0))
    for k, h in enumerate(hist):
        apply_step(ts, h)
        t, x, has_ref = model_step(t, x, has_ref, h)
        if case.get("checkpoints", True) and k + 1 < len(hist):
            for oracle, exp, obs in stored_clauses(ts, t, x, describe(hist[:k + 1])):
                if oracle.split(" (also")[0] not in seen:       # the first step after which a clause fails
                    seen.add(oracle.split(" (also")[0])
                    bad.append((oracle, [], exp, obs, k + 1))
    tf, xf = np.array([float(v) for v in t]), np.array([float(v) for v in x])
    sfx = describe(hist)
    for oracle, exp, obs in stored_clauses(ts, t, x, sfx):
        if oracle.split(" (also")[0] not in seen:
            bad.append((oracle, [], exp, obs, None))
    def attempt(call):
        try:
            return call()
        except Exception as e:
            return type(e).__name__

    def pairs(got):
        return got if isinstance(got, str) else list(zip(np.asarray(got[0]).tolist(), np.asarray(got[1]).tolist()))[:5]

    if "twin" in case:
        a, b = [Fraction(v) for v in case["twin"]]
        got = attempt(lambda: ts.get(twin=(float(a), float(b))))
        keep = [(float(u), float(v)) for u, v in zip(t, x) if a <= u <= b]
        if isinstance(got, str) or list(zip(got[0].tolist(), got[1].tolist())) != keep:
            bad.append(("a window returns exactly the samples in the closed window, unchanged and in order" + sfx, ["twin"],
                        keep[:5], pairs(got), None))
        else:
            # modify == get (second object with the same history)
            tw, xw = got
            ts2 = make_ts(t_in, x_in, case)
            for h in hist:
                apply_step(ts2, h)
            r = attempt(lambda: ts2.modify(twin=(float(a), float(b))))
            if isinstance(r, str) or not (np.array_equal(ts2.t, tw) and np.array_equal(ts2.x, xw)):
                bad.append(("modify(**kwargs) stores what get(**kwargs) returns", ["twin"], [tw.tolist()[:5], xw.tolist()[:5]],
                            r if isinstance(r, str) else [np.asarray(ts2.t).tolist()[:5], np.asarray(ts2.x).tolist()[:5]], None))
    # interpolation is linear between the nodes, raises outside
    for qs in case.get("qs", []):
        q = Fraction(qs)
        exp = exact_interp(t, x, q)
        got = attempt(lambda: float(ts.interpolate(np.array([float(q)]))[0]))
        if exp is None:
            if got != "ValueError":
                bad.append(("outside the stored span interpolation raises instead of extrapolating" + sfx, ["qs"], "ValueError", got, None))
        elif isinstance(got, str) or abs(got - float(exp)) > 1e-11 * max(1.0, abs(float(exp))):
            bad.append(("between two stored samples the value is their linear interpolation" + sfx, ["qs"], float(exp), got, None))
    # requested time arrays (sorted or not, ndarray or list), through interpolate() and get(resample=...)
    if "req" in case:
        req = [Fraction(v) for v in case["req"]]
        reqf = [float(v) for v in req]
        exp = [exact_interp(t, x, q) for q in req]
        outside = [str(q) for q, e in zip(req, exp) if e is None]
        forms = [("interpolate(ndarray)", lambda: (reqf, ts.interpolate(np.array(reqf)))),
                 ("get(resample=ndarray)", lambda: ts.get(resample=np.array(reqf))),
                 ("get(resample=list)", lambda: ts.get(resample=list(reqf)))]
        for label, call in forms:
            try:
                tt, xx = call()
                got = [np.asarray(tt, dtype=float).tolist(), np.asarray(xx, dtype=float).tolist()]
            except Exception as e:
                got = type(e).__name__
            if outside:
                if not isinstance(got, str):
                    bad.append(("resampling to a given array raises instead of extrapolating when a requested time (at any position "
                                "of the array) is outside the stored span" + sfx + " — %s" % label, ["req"],
                                "an exception (outside: %s)" % ", ".join(outside[:3]), got[1][:8], None))
                continue
            expf = [float(e) for e in exp]
            if isinstance(got, str) or len(got[0]) != len(got[1]) or got[0] != reqf or len(got[1]) != len(expf) or \
                    not np.allclose(got[1], expf, rtol=1e-11, atol=1e-11):
                bad.append(("resampling to a given array returns the linear interpolation of the stored samples on exactly that grid"
                            + sfx + " — %s" % label, ["req"], [reqf[:8], expf[:8]],
                            got if isinstance(got, str) else [got[0][:8], got[1][:8]], None))
    # resample to a step: grid from first to last sample with the spacing closest to the request
    if "step" in case:
        d = Fraction(case["step"])
        got = attempt(lambda: ts.get(resample=float(d)))
        ratio = (t[-1] - t[0]) / d
        if isinstance(got, str):
            bad.append(("resampling to a step gives an equidistant grid from the first to the last sample whose spacing is the one closest "
                        "to the request" + sfx, ["step"], "k=%s" % round(ratio), got, None))
        else:
            tr, xr = got
            k = len(tr) - 1
            if not (k >= 1 and tr[0] == tf[0] and tr[-1] == tf[-1] and abs(Fraction(k) - ratio) <= Fraction(1, 2) + Fraction(1, 10 ** 9) and
                    np.allclose(np.diff(tr), float(t[-1] - t[0]) / k, rtol=1e-12)):
                bad.append(("resampling to a step gives an equidistant grid from the first to the last sample whose spacing is the one "
                            "closest to the request" + sfx, ["step"], "k=%s" % round(ratio), tr.tolist()[:6], None))
            elif len(tr) != len(xr):
                bad.append(("time and data have equal length", ["step"], len(tr), len(xr), None))
            else:
                # the grid values are the linear interpolation of the stored samples (grid points are floats: compare at the float grid)
                expv = [exact_interp(t, x, min(max(Fraction(float(u)), t[0]), t[-1])) for u in tr]
                if not np.allclose(xr, [float(e) for e in expv], rtol=1e-10, atol=1e-10):
                    bad.append(("resampling returns the linear interpolation of the stored samples on the requested grid" + sfx, ["step"],
                                [float(e) for e in expv][:6], np.asarray(xr).tolist()[:6], None))
    # the queries above did not change what a plain query returns
    got = attempt(lambda: ts.get())
    if isinstance(got, str) or not (np.array_equal(got[0], tf) and np.array_equal(got[1], xf)):
        bad.append(("without options the stored arrays are returned" + AFTER, [k for k in ("twin", "qs", "req", "step") if k in case],
                    [tf.tolist()[:5], xf.tolist()[:5]],
                    got if isinstance(got, str) else [np.asarray(got[0]).tolist()[:5], np.asarray(got[1]).tolist()[:5]], None))
    return ts, t, x, bad


def gen_opts(rng, t):
    o = dict(twin=None, resample=None, taper=False, filter=False, smooth=False)
    lo, hi = t[0], t[-1]
    k = rng.random()
    if k < 0.45:
        a = rng.choice([lo, t[len(t) // 3], lo - 1, lo + (hi - lo) * Fraction(rng.randint(0, 8), 8)])
        b = rng.choice([hi, t[-2], hi + 1, a + (hi - a) * Fraction(rng.randint(0, 8), 8)])
        o["twin"] = (a, b)
    k = rng.random()
    if k < 0.3:
        o["resample"] = ("step", (hi - lo) * Fraction(1, rng.choice([1, 2, 3, 4, 5, 7, 8])) * rng.choice([Fraction(1), Fraction(3, 2), Fraction(1, 2)]))
    elif k < 0.5 and o["twin"] is None:
        o["resample"] = ("arr", gen_request(rng, t, p_out=0.25))
    elif k < 0.55 and o["twin"] is not None:
        o["resample"] = ("arr", [lo, hi])   # array + window: refused
    o["taper"], o["filter"], o["smooth"] = (rng.random() < 0.4, rng.random() < 0.5, rng.random() < 0.3)
    return o


def opts_line(o):
    tw = "-" if o["twin"] is None else "%s,%s" % (rat(o["twin"][0]), rat(o["twin"][1]))
    if o["resample"] is None:
        rs = "-"
    elif o["resample"][0] == "step":
        rs = "step:" + rat(o["resample"][1])
    else:
        rs = "arr:" + ",".join(rat(v) for v in o["resample"][1])
    return "twin=%s res=%s taper=%d filter=%d smooth=%d" % (tw, rs, o["taper"], o["filter"], o["smooth"])


def impl_get(ts, o, rng=None, ftype="lp"):
    kw = {}
    if o["twin"] is not None:
        kw["twin"] = (float(o["twin"][0]), float(o["twin"][1]))
    if o["resample"] is not None:
        kw["resample"] = float(o["resample"][1]) if o["resample"][0] == "step" else np.array([float(v) for v in o["resample"][1]])
    if o["taper"]:
        kw["taperfrac"] = 0.1
    if o["filter"]:
        kw["filterargs"] = {"lp": ("lp", 0.01), "hp": ("hp", 0.02), "bp": ("bp", 0.01, 0.02), "bs": ("bs", 0.01, 0.02)}[ftype]
    if o["smooth"]:
        kw["window_len"] = 3
    return kw


def canon_err(e):
    if isinstance(e, AssertionError):
        return "err assertion"
    if isinstance(e, IndexError):
        return "err index"
    if isinstance(e, ValueError):
        return "err bounds"
    return "err " + type(e).__name__


ORDER = {"taper": 0, "lowpass": 1, "highpass": 1, "bandpass": 1, "bandblock": 1, "smooth": 2}


def opts_json(o):
    j = dict(o)
    if o["twin"] is not None:
        j["twin"] = [str(a) for a in o["twin"]]
    if o["resample"] is not None:
        j["resample"] = [o["resample"][0], str(o["resample"][1]) if o["resample"][0] == "step" else [str(a) for a in o["resample"][1]]]
    return j


def opts_unjson(j):
    o = dict(j)
    if o.get("twin") is not None:
        o["twin"] = tuple(Fraction(a) for a in o["twin"])
    if o.get("resample") is not None:
        kind, v = o["resample"]
        o["resample"] = (kind, Fraction(v) if kind == "step" else [Fraction(a) for a in v])
    return o


def tagged_clauses(t, x, o, ftype):
    """get(**options) with the tag stage functions, issued twice on the same object, then a plain get().
    Returns (first result, second result, [(oracle, expected, observed)])."""
    from qats import TimeSeries
    tf, xf = np.array([float(v) for v in t]), np.array([float(v) for v in x])
    ts = TimeSeries("s", tf.copy(), xf.copy())
    kw = impl_get(ts, o, ftype=ftype)
    res, allcalls = [], []
    with Tags() as tg:
        for _ in range(2):
            del tg.calls[:]
            try:
                tt, xx = ts.get(**kw)
                res.append(("ok", np.asarray(tt, dtype=float), np.asarray(xx, dtype=float)))
            except Exception as e:
                res.append((canon_err(e),))
            allcalls.append(list(tg.calls))
    bad = []
    t0, x0 = ts.get()
    if not (np.array_equal(t0, tf) and np.array_equal(x0, xf)):
        bad.append(("without options the stored arrays are returned" + AFTER, [tf.tolist()[:5], xf.tolist()[:5]],
                    [np.asarray(t0).tolist()[:5], np.asarray(x0).tolist()[:5]]))
    if o["resample"] is not None and o["resample"][0] == "arr" and o["twin"] is None:
        outside = [str(q) for q in o["resample"][1] if q < t[0] or q > t[-1]]
        if outside and res[0][0] == "ok":
            bad.append(("resampling to a given array raises instead of extrapolating when a requested time (at any position of the "
                        "array) is outside the stored span", "an exception (outside: %s)" % ", ".join(outside[:3]), res[0][2].tolist()[:8]))
    for im, calls in zip(res, allcalls):
        if im[0] != "ok":
            continue
        if len(im[1]) != len(im[2]):
            bad.append(("time and data have equal length", len(im[1]), len(im[2])))
        names = [c[0] for c in calls]
        if [ORDER[n] for n in names] != sorted(ORDER[n] for n in names) or len(names) != o["taper"] + o["filter"] + o["smooth"]:
            bad.append(("stages applied in the order taper, filter, smooth, each once iff requested",
                        ["taper"] * o["taper"] + ["filter"] * o["filter"] + ["smooth"] * o["smooth"], names))
        for c in calls:
            if c[0] in ("lowpass", "highpass", "bandpass", "bandblock") and len(im[1]) >= 2:
                if abs(c[1] - (im[1][1] - im[1][0])) > 1e-12 * max(1.0, abs(c[1])):
                    bad.append(("the filter sees the sampling interval of the series it is applied to", float(im[1][1] - im[1][0]), c[1]))
    return res[0], res[1], bad


CASE_KEYS = ("dtg_ref", "history", "checkpoints", "twin", "qs", "req", "step")


def gen_case(rng, t, x):
    """history on the object first; window / interpolation points / requested array / step are then drawn relative to the series
    as stored after the history"""
    case = {}
    if rng.random() < 0.5:
        case["dtg_ref"] = True
    hist, t, x = gen_history(rng, t, x, bool(case.get("dtg_ref")))
    if hist:
        case["history"] = hist
        case["checkpoints"] = rng.random() < 0.75
    a, b = sorted([t[rng.randrange(len(t))] + Fraction(rng.randint(-1, 1), 16), t[rng.randrange(len(t))] + Fraction(rng.randint(-1, 1), 16)])
    case["twin"] = [str(a), str(b)]
    i = rng.randrange(len(t) - 1)
    q = t[i] + Fraction(rng.randint(0, 8), 8) * (t[i + 1] - t[i])
    case["qs"] = [str(q), str(t[0] - Fraction(1, 8)), str(t[-1] + Fraction(1, 8))]
    case["req"] = [str(v) for v in gen_request(rng, t)]
    d = (t[-1] - t[0]) / rng.choice([1, 2, 3, 5, 7]) * rng.choice([Fraction(1), Fraction(5, 4), Fraction(3, 4)])
    if (2 * (t[-1] - t[0]) / d).denominator == 1 and (2 * (t[-1] - t[0]) / d).numerator % 2 == 1:
        d = d * Fraction(9, 8)     # no exact rounding ties (float division of a non-dyadic step)
    case["step"] = str(d)
    return case


def fail_input(inp, case, keys, nsteps=None):
    j = dict(inp)
    if case.get("dtg_ref"):
        j["dtg_ref"] = True
    hist = case.get("history") or []
    if nsteps is not None:
        hist = hist[:nsteps]
    if hist:
        j["history"] = hist
        j["checkpoints"] = bool(case.get("checkpoints", True))
    for k in keys:
        j[k] = case[k]
    return j


def run(chk):
    from qats import TimeSeries
    chk.extra["rule"] = RULE
    chk.assumptions += ["dyadic sample times and values; interp1d's slope division is exact or compared to 1e-12",
                        "stage functions replaced by tag functions on both sides for the order/dt correspondence; their numerics are C12's subject"]
    rng = chk.rng
    drv = core.Driver()
    N = 500 if chk.quick else 8000
    lines, meta = [], []
    for _ in range(N):
        t, x = gen_series(rng)
        o = gen_opts(rng, t)
        if o["resample"] is not None and o["resample"][0] == "step":
            # the number of grid points is round((t1-t0)/d): an exact tie (x.5) in rational arithmetic may fall on either side
            # in floating point when d is not exactly representable — keep ties out of the exact correspondence
            tw = [u for u in t if o["twin"] is None or o["twin"][0] <= u <= o["twin"][1]]
            if len(tw) >= 2:
                ratio = (tw[-1] - tw[0]) / o["resample"][1]
                if (2 * ratio).denominator == 1 and (2 * ratio).numerator % 2 == 1:
                    o["resample"] = ("step", o["resample"][1] * Fraction(9, 8))
        lines.append("pl.get %s | %s | %s" % (opts_line(o), " ".join(rat(v) for v in t), " ".join(rat(v) for v in x)))
        meta.append((t, x, o, rng.choice(["lp", "hp", "bp", "bs"])))
    outs = drv.run(lines)
    for (t, x, o, ftype), out in zip(meta, outs):
        inp = dict(t=[str(v) for v in t], x=[str(v) for v in x], opts=opts_json(o), filter=ftype)
        chk.count("pl.get")
        if any(o[k] for k in o):
            chk.nontriv(repr(inp))
        chk.dist("twin=%d res=%s stages=%d%d%d" % (o["twin"] is not None, "-" if o["resample"] is None else o["resample"][0],
                                                  o["taper"], o["filter"], o["smooth"]))
        if o["resample"] is not None and o["resample"][0] == "arr":
            pts = o["resample"][1]
            chk.dist("request: %s%s" % ("sorted" if pts == sorted(pts) else "unsorted",
                                        "" if all(t[0] <= q <= t[-1] for q in pts) else
                                        (" outside-at-end" if not (t[0] <= pts[0] <= t[-1] and t[0] <= pts[-1] <= t[-1]) else " outside-interior")))
        im1, im2, bad = tagged_clauses(t, x, o, ftype)
        for oracle, exp, obs in bad:
            chk.fail(oracle, inp, exp, obs)
        # the model is compared with the first call and with the same call repeated on the same object
        for nth, im in (("pl.get", im1), ("pl.get (same call repeated)", im2)):
            if out.startswith("err") or im[0] != "ok":
                if out.strip() != im[0]:
                    # window empty + step resample: numpy raises IndexError — model `err index`
                    chk.disagree(nth, inp, out, im[0])
                continue
            mt, mx = [[float(Fraction(v)) for v in part.split()] for part in out[3:].split("|")]
            ok = len(mt) == len(im[1]) and len(mx) == len(im[2]) and np.allclose(mt, im[1], rtol=1e-12, atol=1e-12) and \
                np.allclose(mx, im[2], rtol=1e-11, atol=1e-11)
            if not ok:
                chk.disagree(nth, inp, [mt[:6], mx[:6]], [im[1][:6].tolist(), im[2][:6].tolist()])
    # ---- clauses on the unpatched implementation ---------------------------------------------------------------------------------
    M = 300 if chk.quick else 5000
    lines, meta = [], []
    todo = []
    for c in core.load_corpus("C11"):
        todo.append(([Fraction(v) for v in c["t"]], [Fraction(v) for v in c["x"]], {k: c[k] for k in CASE_KEYS if k in c}, "corpus"))
    for _ in range(M):
        t, x = gen_series(rng)
        todo.append((t, x, gen_case(rng, t, x), "clauses"))
    for t, x, case, stream in todo:
        inp = dict(t=[str(v) for v in t], x=[str(v) for v in x])
        chk.count(stream)
        hist = case.get("history") or []
        ops = [step_op(h) for h in hist]
        chk.dist("history: %d steps" % len(hist))
        chk.dist("history: %s" % ("none" if not hist else "queries only" if not any(o in MUTATORS for o in ops) else
                                  "in-place changes only" if all(o in MUTATORS for o in ops) else "queries and in-place changes"))
        for o in sorted(set(ops)):
            chk.dist("history step: %s" % o)
        if any(step_op(h) != "get" and not h.get("kw") and step_op(h) in ("minima", "maxima", "get_edit") + GETKW_QUERIES for h in hist):
            chk.dist("history: a non-get query without any get-option")
        if "req" in case:
            # classified on the series as stored after the history
            t2, x2, ref = t, x, bool(case.get("dtg_ref"))
            for h in hist:
                t2, x2, ref = model_step(t2, x2, ref, h)
            pts = [Fraction(v) for v in case["req"]]
            inside = [t2[0] <= q <= t2[-1] for q in pts]
            chk.dist("request: %s%s" % ("sorted" if pts == sorted(pts) else "unsorted",
                                        "" if all(inside) else (" outside-at-end" if not (inside[0] and inside[-1]) else " outside-interior")))
        ts, t2, x2, bad = direct_clauses(t, x, case)
        for oracle, keys, exp, obs, nsteps in bad:
            chk.fail(oracle, fail_input(inp, case, keys, nsteps), exp, obs)
        # stand-alone resampling of the series as stored after the history: exact correspondence only for dyadic steps
        # (np.arange's length ceil((b-a)/d) is then exact)
        d2 = (t2[-1] - t2[0]) / rng.choice([1, 2, 4, 8]) * rng.choice([Fraction(1), Fraction(5, 4), Fraction(3, 4)])
        lines.append("pl.resample %s | %s | %s" % (rat(d2), " ".join(rat(v) for v in t2), " ".join(rat(v) for v in x2)))
        meta.append((ts, d2, fail_input(inp, case, []), t2[-1] - t2[0]))
    outs = drv.run(lines)
    for (ts, d, inp, span), out in zip(meta, outs):
        chk.count("pl.resample")
        try:
            r = ts.resample(dt=float(d))
            im = [float(v) for v in r]
        except Exception as e:
            im = canon_err(e)
        if out.startswith("err") or isinstance(im, str):
            if not (out.startswith("err") and isinstance(im, str)):
                chk.disagree("pl.resample", dict(inp, dt=str(d)), out, im)
            if isinstance(im, str) and 0 < d <= span:
                chk.fail("stand-alone resampling of the full duration to a positive step not exceeding it succeeds", dict(inp, dt=str(d)), "values", im)
            continue
        mv = [float(Fraction(v)) for v in out.split()[1:]]
        if len(mv) != len(im) or not np.allclose(mv, im, rtol=1e-11, atol=1e-11):
            chk.disagree("pl.resample", dict(inp, dt=str(d)), mv[:6], im[:6])
    # ---- float exploration: stand-alone resample with decimal start / step -----------------------------------------------------------------
    F = 1500 if chk.quick else 40000
    for _ in range(F):
        n = rng.randint(2, 60)
        dt0 = rng.choice([0.1, 0.2, 0.05, 0.3, 0.7, 0.01, 1e-3, 0.5, round(rng.uniform(0.01, 2), 2)])
        start = rng.choice([0.0, 1.0, 0.3, 100.0, round(rng.uniform(-10, 1000), 1)])
        t = start + dt0 * np.arange(n)
        ts = TimeSeries("s", t, np.sin(t))
        d = rng.choice([dt0, dt0 / 2, 2 * dt0, dt0 * 3, (t[-1] - t[0]) / rng.randint(1, 7), round(rng.uniform(dt0 / 3, 3 * dt0), 3)])
        if not (0 < d <= t[-1] - t[0]):
            continue
        chk.count("float-resample")
        inp = dict(start=start, dt0=dt0, n=n, dt=d)
        try:
            r = ts.resample(dt=d)
        except Exception as e:
            chk.fail("stand-alone resampling of the full duration to a positive step not exceeding it succeeds (float grids)", inp,
                     "values", type(e).__name__ + ": " + str(e)[:80])
            continue
        tn = np.arange(t[0], t[-1], step=d)
        if len(r) < len(tn) - 1 or len(r) < 1:
            chk.fail("all new times inside the original span are kept", inp, len(tn), len(r))
    chk.sample(dict(t=[0, 1, 2, 3, 4], x=[0, 1, 4, 9, 16], opts="twin=(1,3) taper filter", model=[[1, 2, 3], [5, 11, 21]]))
    chk.sample(dict(t=[0, 1, 2, 3, 4], x=[0, 1, 4, 9, 16], req=[1, 5, 2], expected="raises (5 is outside the stored span)"))
    chk.sample(dict(t=[0, 1, 2, 3, 4], x=[0, 1, 4, 9, 16], history=[{"taperfrac": 0.1}], then="get()", expected=[[0, 1, 2, 3, 4], [0, 1, 4, 9, 16]]))
    chk.sample(dict(t=[0, 1, 2, 3, 4], x=[0, 1, 4, 9, 16], history=[{"op": "minima"}], then="get(twin=(1, 3))", expected=[[1, 2, 3], [1, 4, 9]]))
    chk.sample(dict(t=[0, 1, 2, 3, 4], x=[0, 1, 4, 9, 16], dtg_ref=True,
                    history=[{"op": "interpolate", "at": [0.5]}, {"op": "set_dtg_ref", "shift": "15/2"}], then="get(resample=[8.0])",
                    expected=[[8.0], [0.5]], note="the stored times are now 7.5 .. 11.5"))


def replay(rp):
    from qats import TimeSeries
    inp = rp["input"]
    bad = 0
    if "start" in inp:
        t = inp["start"] + inp["dt0"] * np.arange(inp["n"])
        try:
            TimeSeries("s", t, np.sin(t)).resample(dt=inp["dt"])
            print("resample ok")
        except Exception as e:
            print("FAILS: resample raises", e)
            bad += 1
    elif "opts" in inp:
        # tagged pipeline run (stage functions replaced by the tag functions, as in the check)
        t = [Fraction(v) for v in inp["t"]]
        x = [Fraction(v) for v in inp["x"]]
        o = opts_unjson(inp["opts"])
        im1, im2, fails = tagged_clauses(t, x, o, inp.get("filter", "lp"))
        for nth, im in (("first call", im1), ("same call repeated", im2)):
            print(nth, "->", im[0] if im[0] != "ok" else [im[1].tolist()[:8], im[2].tolist()[:8]])
        for oracle, exp, obs in fails:
            print("FAILS:", oracle, "| expected", exp, "| observed", obs)
            bad += 1
    else:
        t = [Fraction(v) for v in inp["t"]]
        x = [Fraction(v) for v in inp["x"]]
        case = {k: inp[k] for k in CASE_KEYS if k in inp}
        if "q" in inp:      # replay files written before `qs`
            case["qs"] = [inp["q"]]
        ts, t, x, fails = direct_clauses(t, x, case)
        if case.get("history"):
            print("series stored after the history:", [float(v) for v in t][:8], [float(v) for v in x][:8])
        for oracle, keys, exp, obs, nsteps in fails:
            print("FAILS:", oracle, "| expected", exp, "| observed", obs)
            bad += 1
        if "dt" in inp:
            d = Fraction(inp["dt"])
            try:
                print("resample(dt=%s) ->" % d, np.asarray(ts.resample(dt=float(d))).tolist()[:8])
            except Exception as e:
                print("resample(dt=%s) raises" % d, type(e).__name__, e)
                if 0 < d <= t[-1] - t[0]:
                    print("FAILS: stand-alone resampling of the full duration to a positive step not exceeding it succeeds")
                    bad += 1
    print("replay: %d failing clause(s)" % bad)
    return 1 if bad else 0
